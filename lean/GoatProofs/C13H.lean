/-
  C13H — the validator-set logic of x/locking (EndBlocker) and its consumer (CometBFT's update rules).

  Property C13 (verbatim): "After every block the validator-set changes reported to the consensus
  engine, accumulated from genesis, equal the module's own record of the active set: at most the
  configured maximum, every member active with exactly its current, positive voting power, and no
  eligible non-member with more power than a member (ties by address). Every reported change is one
  the consensus engine accepts: no removal of a non-member, no zero-power addition, no duplicate, no
  total-power overflow. The begin- and end-of-block logic never fails for any history of
  execution-layer requests, votes and evidence."

  Proved here, for `Goat.Locking.endBlocker` and `Goat.Comet.apply` (all at full strength, no `_partial`):
    1. `RankOk`                        the state in which EndBlocker runs (`rankOk_of_derived`: it follows
                                       from C18's `Derived` at committed states)
    2. `endBlocker_never_fails`        no error / panic from `RankOk`
       `endBlocker_closed_form`        the update list in closed form (`updatesOf`), the post-state (`Post`)
    3. `valset_is_top`, `valset_size_le_max`, `valset_members_active`, `top_is_member`,
       `valset_dominates`, `valset_dominates_strict`, `valset_dominates_eligible`      (3a)
       `records_after`, `frame_after`, `non_member_not_active`                         (3b)
       `rankOk_preserved`                                                              (3c)
    4. `accepted_unless_overflow_or_empty`, with `no_removal_of_non_member`, `no_zero_power_addition`,
       `no_duplicate_pubkey` / `updates_pubkeys_nodup`; the two exclusions are exactly the refusals:
       `accepted_iff`, `rejected_if_empty`; `total_after`, `empty_after_iff` restate them on the pre-state
    5. `good_after_block`, `sync_after_blocks`, `sync_after_every_block`   induction over a list of blocks,
       the rest of the block being any relation `R` with `Between R`
    6. examples on `exS` (four validators, a tie at power 5, max = 2), incl. `exS_endBlocker` by evaluation

  One statement of the task is false as literally worded and is proved in the corrected form:
    `Sync` must be equality of *sets* (`List.Perm`), not of lists — `sync_as_list_equality_fails`
    (EndBlocker re-records a changed member at the end of its list, CometBFT updates in place).
  Not proved here: that BeginBlock / the request handlers satisfy `Between` (that they re-establish
  `RankOk`; `pending_out` in particular needs `downtimeJail ≥ 0` — the Go parameter validation demands
  at least a minute — otherwise a validator jailed in BeginBlock could be re-locked to Pending in the
  same block while still recorded).
-/
import GoatProofs.Lemmas.ValSet
import GoatProofs.C13
namespace Goat.C13H
open Goat.Locking Goat.ValSet

/-! ## 1. the precondition of EndBlocker -/

/-- **The state in which EndBlocker runs**, as the rest of the module maintains it (`lockOne`,
    `unlockCore`, `onWeightChanged` rank exactly the Active/Pending validators with positive power;
    `handleVote` (downgrade) and `handleEvidence` (tombstone) un-rank; only EndBlocker writes `valset`). -/
structure RankOk (s : State) : Prop where
  /-- an address is ranked at most once -/
  rank_nodup : (s.ranking.map (·.2)).Nodup
  /-- a ranking entry carries the current, positive power of an Active or Pending validator -/
  rank_rec : ∀ p a, (p, a) ∈ s.ranking →
    ∃ v, vget s a = some v ∧ v.power = p ∧ 0 < p ∧ (v.status = .active ∨ v.status = .pending)
  /-- every Active or Pending validator with positive power is ranked -/
  rank_complete : ∀ a v, vget s a = some v → (v.status = .active ∨ v.status = .pending) → 0 < v.power →
    (v.power, a) ∈ s.ranking
  /-- the recorded set has one entry per address -/
  valset_nodup : (s.valset.map (·.1)).Nodup
  /-- every recorded member has a validator record -/
  valset_rec : ∀ a p, (a, p) ∈ s.valset → ∃ v, vget s a = some v
  /-- a Pending validator is not in the recorded set -/
  pending_out : ∀ a v, vget s a = some v → v.status = .pending → a ∉ s.valset.map (·.1)
  /-- the configured maximum is not negative -/
  max_nonneg : 0 ≤ s.params.maxValidators

/-! ## definitions used in the statements -/

/-- the top of the ranking: the entries EndBlocker walks -/
def top (s : State) : List (Nat × Bytes) := (rankingDesc s).take s.params.maxValidators.toNat

/-- the consensus public key filed under an address (empty when there is no record) -/
def pkOf (s : State) (a : Bytes) : Bytes := ((vget s a).map (·.pubkey)).getD []

/-- the update emitted for a top entry: none when the recorded power is already the current one -/
def emit (s : State) (e : Nat × Bytes) : Option Update :=
  if lookup s.valset e.2 ≠ e.1 then some { pubkey := pkOf s e.2, power := e.1 } else none

/-- the members that leave: recorded entries whose address is not in the top, in key order -/
def leavers (s : State) : List (Bytes × Nat) :=
  (dropKeys ((top s).map (·.2)) s.valset).mergeSort (fun a b => !bytesLt b.1 a.1)

/-- **the update list of EndBlocker in closed form** -/
def updatesOf (s : State) : List Update :=
  (top s).filterMap (emit s) ++ (leavers s).map (fun e => { pubkey := pkOf s e.1, power := 0 })

/-- what joining the set does to a record -/
def activate (v : Validator) : Validator :=
  if v.status = .pending then { v with status := .active, offset := 0, missed := 0 } else v

/-- what leaving the set does to a record -/
def demote (v : Validator) : Validator :=
  if v.status = .active then { v with status := .pending } else v

/-- everything but `validators` and `valset` is the same -/
structure Frame (s t : State) : Prop where
  params : t.params = s.params
  lockingIdx : t.lockingIdx = s.lockingIdx
  ranking : t.ranking = s.ranking
  tokens : t.tokens = s.tokens
  threshold : t.threshold = s.threshold
  slashed : t.slashed = s.slashed
  nonce : t.nonce = s.nonce
  pool : t.pool = s.pool
  qRewards : t.qRewards = s.qRewards
  qUnlocks : t.qUnlocks = s.qUnlocks
  unlockQueue : t.unlockQueue = s.unlockQueue

theorem Frame.refl (s : State) : Frame s s := ⟨rfl, rfl, rfl, rfl, rfl, rfl, rfl, rfl, rfl, rfl, rfl⟩

theorem Frame.trans {s t u : State} (h1 : Frame s t) (h2 : Frame t u) : Frame s u :=
  ⟨h2.params.trans h1.params, h2.lockingIdx.trans h1.lockingIdx, h2.ranking.trans h1.ranking,
   h2.tokens.trans h1.tokens, h2.threshold.trans h1.threshold, h2.slashed.trans h1.slashed,
   h2.nonce.trans h1.nonce, h2.pool.trans h1.pool, h2.qRewards.trans h1.qRewards,
   h2.qUnlocks.trans h1.qUnlocks, h2.unlockQueue.trans h1.unlockQueue⟩

theorem frame_vset (s : State) (a : Bytes) (v : Validator) : Frame s (vset s a v) := by
  unfold vset; exact ⟨rfl, rfl, rfl, rfl, rfl, rfl, rfl, rfl, rfl, rfl, rfl⟩

theorem frame_valset (s : State) (x : List (Bytes × Nat)) : Frame s { s with valset := x } :=
  ⟨rfl, rfl, rfl, rfl, rfl, rfl, rfl, rfl, rfl, rfl, rfl⟩

theorem activate_of_not_pending {v : Validator} (h : v.status ≠ .pending) : activate v = v := by
  unfold activate; rw [if_neg h]

theorem activate_pubkey (v : Validator) : (activate v).pubkey = v.pubkey := by
  unfold activate; split <;> rfl
theorem activate_power (v : Validator) : (activate v).power = v.power := by
  unfold activate; split <;> rfl
theorem demote_pubkey (v : Validator) : (demote v).pubkey = v.pubkey := by
  unfold demote; split <;> rfl
theorem demote_power (v : Validator) : (demote v).power = v.power := by
  unfold demote; split <;> rfl

theorem activate_status (v : Validator) :
    (activate v).status = if v.status = .pending then .active else v.status := by
  unfold activate; split <;> rfl
theorem demote_status (v : Validator) :
    (demote v).status = if v.status = .active then .pending else v.status := by
  unfold demote; split <;> rfl

/-! ## the first loop of EndBlocker -/

theorem rankStep_active {st : State} {last : List (Bytes × Nat)} {ups : List Update} {e : Nat × Bytes} {v : Validator}
    (hv : vget st e.2 = some v) (ha : v.status = .active) :
    C07.rankStep (st, last, ups) e =
      if lookup last e.2 ≠ v.power then
        .ok ({ st with valset := (st.valset.filter (·.1 != e.2)) ++ [(e.2, v.power)] }, last.filter (·.1 != e.2),
             ups ++ [{ pubkey := v.pubkey, power := v.power }])
      else .ok (st, last.filter (·.1 != e.2), ups) := by
  unfold C07.rankStep
  simp only [hv, ha]
  rfl

theorem rankStep_pending {st : State} {last : List (Bytes × Nat)} {ups : List Update} {e : Nat × Bytes} {v : Validator}
    (hv : vget st e.2 = some v) (ha : v.status = .pending) :
    C07.rankStep (st, last, ups) e =
      if last.any (·.1 == e.2) then .err "pending-in-set"
      else .ok ({ vset st e.2 { v with status := .active, offset := 0, missed := 0 } with
                  valset := (vset st e.2 { v with status := .active, offset := 0, missed := 0 }).valset ++ [(e.2, v.power)] },
                last, ups ++ [{ pubkey := v.pubkey, power := v.power }]) := by
  unfold C07.rankStep
  simp only [hv, ha]

/-- loop invariant of the first loop, relative to the initial state `s0` and the entries `done`
    already visited -/
structure Inv1 (s0 : State) (done : List (Nat × Bytes)) (st : State) (last : List (Bytes × Nat)) (ups : List Update) : Prop where
  recs : ∀ b, vget st b = if b ∈ done.map (·.2) then (vget s0 b).map activate else vget s0 b
  last_eq : last = dropKeys (done.map (·.2)) s0.valset
  ups_eq : ups = done.filterMap (emit s0)
  vs_nodup : (st.valset.map (·.1)).Nodup
  vs_mem : ∀ a p, (a, p) ∈ st.valset ↔ ((a, p) ∈ s0.valset ∧ a ∉ done.map (·.2)) ∨ (p, a) ∈ done
  frame : Frame s0 st

theorem inv1_init {s0 : State} (h : RankOk s0) : Inv1 s0 [] s0 s0.valset [] where
  recs := by intro b; simp
  last_eq := (dropKeys_nil _).symm
  ups_eq := rfl
  vs_nodup := h.valset_nodup
  vs_mem := by intro a p; simp
  frame := Frame.refl _

theorem recs_step {f : Validator → Validator} {s0 st st' : State} {D : List Bytes} {a : Bytes}
    (hrec : ∀ b, vget st b = if b ∈ D then (vget s0 b).map f else vget s0 b) (hfresh : a ∉ D)
    (hst' : ∀ b, vget st' b = if b = a then (vget st a).map f else vget st b) :
    ∀ b, vget st' b = if b ∈ D ++ [a] then (vget s0 b).map f else vget s0 b := by
  intro b
  rw [hst' b]
  by_cases hb : b = a
  · subst hb
    rw [if_pos rfl, hrec b, if_neg hfresh, if_pos (by simp)]
  · rw [if_neg hb, hrec b]
    by_cases hm : b ∈ D
    · rw [if_pos hm, if_pos (by simp [hm])]
    · rw [if_neg hm, if_neg (by simp [hm, hb])]

theorem vs_nodup_step {vs : List (Bytes × Nat)} (hn : (vs.map (·.1)).Nodup) (a : Bytes) (p : Nat) :
    ((vs.filter (·.1 != a) ++ [(a, p)]).map (·.1)).Nodup := by
  rw [List.map_append, List.nodup_append]
  refine ⟨List.Nodup.sublist (List.filter_sublist.map _) hn, by simp, ?_⟩
  intro x hx y hy hxy
  obtain ⟨e, he, rfl⟩ := List.mem_map.mp hx
  have hne : e.1 ≠ a := by simpa using (List.mem_filter.mp he).2
  have : y = a := by simpa using hy
  exact hne (hxy.trans this)

theorem vs_mem_step {s0 : State} {done : List (Nat × Bytes)} {vs : List (Bytes × Nat)} {a : Bytes} {p : Nat}
    (hmem : ∀ b q, (b, q) ∈ vs ↔ ((b, q) ∈ s0.valset ∧ b ∉ done.map (·.2)) ∨ (q, b) ∈ done)
    (hfresh : a ∉ done.map (·.2)) (b : Bytes) (q : Nat) :
    (b, q) ∈ vs.filter (·.1 != a) ++ [(a, p)] ↔
      ((b, q) ∈ s0.valset ∧ b ∉ (done ++ [(p, a)]).map (·.2)) ∨ (q, b) ∈ done ++ [(p, a)] := by
  have hD : (done ++ [(p, a)]).map (·.2) = done.map (·.2) ++ [a] := by simp
  rw [hD]
  constructor
  · intro hm
    rcases List.mem_append.mp hm with hm | hm
    · obtain ⟨hm1, hm2⟩ := List.mem_filter.mp hm
      have hne : b ≠ a := by simpa using hm2
      rcases (hmem b q).mp hm1 with ⟨h1, h2⟩ | h1
      · exact Or.inl ⟨h1, by simp [h2, hne]⟩
      · exact Or.inr (List.mem_append_left _ h1)
    · have : (b, q) = (a, p) := by simpa using hm
      obtain ⟨rfl, rfl⟩ := Prod.mk.inj this
      exact Or.inr (by simp)
  · rintro (⟨h1, h2⟩ | h1)
    · have h2' : b ∉ done.map (·.2) ∧ b ≠ a := by simpa using h2
      apply List.mem_append_left
      exact List.mem_filter.mpr ⟨(hmem b q).mpr (Or.inl ⟨h1, h2'.1⟩), by simpa using h2'.2⟩
    · rcases List.mem_append.mp h1 with h1 | h1
      · have hne : b ≠ a := fun heq => hfresh (heq ▸ List.mem_map.mpr ⟨(q, b), h1, rfl⟩)
        apply List.mem_append_left
        exact List.mem_filter.mpr ⟨(hmem b q).mpr (Or.inr h1), by simpa using hne⟩
      · have : (q, b) = (p, a) := by simpa using h1
        obtain ⟨rfl, rfl⟩ := Prod.mk.inj this
        exact List.mem_append_right _ (by simp)

/-- **one iteration of the first loop** succeeds on a ranked address not yet visited, and maintains
    the invariant -/
theorem rankStep_spec {s0 : State} (h : RankOk s0) {done : List (Nat × Bytes)} {st : State}
    {last : List (Bytes × Nat)} {ups : List Update} (hinv : Inv1 s0 done st last ups)
    {e : Nat × Bytes} (he : e ∈ s0.ranking) (hfresh : e.2 ∉ done.map (·.2)) :
    ∃ st' last' ups', C07.rankStep (st, last, ups) e = .ok (st', last', ups') ∧ Inv1 s0 (done ++ [e]) st' last' ups' := by
  obtain ⟨p, a⟩ := e
  obtain ⟨v, hv, hpow, hpos, hst⟩ := h.rank_rec p a he
  have hva : vget st (p, a).2 = some v := by rw [hinv.recs a, if_neg hfresh]; exact hv
  have hD : (done ++ [(p, a)]).map (·.2) = done.map (·.2) ++ [a] := by simp
  have hlk : lookup last a = lookup s0.valset a := by rw [hinv.last_eq]; exact lookup_dropKeys hfresh
  have hlast : last.filter (·.1 != a) = dropKeys ((done ++ [(p, a)]).map (·.2)) s0.valset := by
    rw [hinv.last_eq, hD]; exact dropKeys_snoc_filter _ _ _
  rcases hst with hact | hpend
  · -- Active
    have hactv : activate v = v := activate_of_not_pending (by rw [hact]; decide)
    rw [rankStep_active hva hact]
    by_cases hold : lookup last a ≠ v.power
    · rw [if_pos hold]
      refine ⟨_, _, _, rfl, ?_⟩
      have hemit : emit s0 (p, a) = some { pubkey := v.pubkey, power := v.power } := by
        unfold emit
        rw [if_pos (by rw [← hlk, ← hpow]; exact hold)]
        simp only [pkOf, hv, Option.map_some, Option.getD_some, hpow]
      refine ⟨?_, hlast, ?_, vs_nodup_step hinv.vs_nodup a v.power, ?_, hinv.frame.trans (frame_valset _ _)⟩
      · rw [hD]
        refine recs_step hinv.recs hfresh ?_
        intro b
        have : vget ({ st with valset := (st.valset.filter (·.1 != a)) ++ [(a, v.power)] } : State) b = vget st b :=
          vget_congr _ _ rfl b
        rw [this]
        by_cases hb : b = a
        · subst hb; rw [if_pos rfl, hva]; simp [hactv]
        · rw [if_neg hb]
      · rw [hinv.ups_eq, List.filterMap_append]
        simp [hemit]
      · intro b q
        rw [hpow]
        exact vs_mem_step hinv.vs_mem hfresh b q
    · rw [if_neg hold]
      have hold' : lookup s0.valset a = p := by
        rw [← hlk, ← hpow]; exact Classical.not_not.mp hold
      have hap : (a, p) ∈ s0.valset := mem_of_lookup_pos hold' hpos
      refine ⟨_, _, _, rfl, ?_⟩
      have hemit : emit s0 (p, a) = none := by
        unfold emit
        rw [if_neg (by simp [hold'])]
      refine ⟨?_, hlast, ?_, hinv.vs_nodup, ?_, hinv.frame⟩
      · rw [hD]
        refine recs_step hinv.recs hfresh ?_
        intro b
        by_cases hb : b = a
        · subst hb; rw [if_pos rfl, hva]; simp [hactv]
        · rw [if_neg hb]
      · rw [hinv.ups_eq, List.filterMap_append]
        simp [hemit]
      · intro b q
        rw [hD, hinv.vs_mem b q]
        constructor
        · rintro (⟨h1, h2⟩ | h1)
          · by_cases hb : b = a
            · subst hb
              have := C18.assoc_unique _ h.valset_nodup b q p h1 hap
              subst this
              exact Or.inr (by simp)
            · exact Or.inl ⟨h1, by simp [h2, hb]⟩
          · exact Or.inr (List.mem_append_left _ h1)
        · rintro (⟨h1, h2⟩ | h1)
          · have h2' : b ∉ done.map (·.2) ∧ b ≠ a := by simpa using h2
            exact Or.inl ⟨h1, h2'.1⟩
          · rcases List.mem_append.mp h1 with h1 | h1
            · exact Or.inr h1
            · have : (q, b) = (p, a) := by simpa using h1
              obtain ⟨rfl, rfl⟩ := Prod.mk.inj this
              exact Or.inl ⟨hap, hfresh⟩
  · -- Pending
    have hout : a ∉ s0.valset.map (·.1) := h.pending_out a v hv hpend
    have hactv : activate v = { v with status := .active, offset := 0, missed := 0 } := by
      unfold activate; rw [if_pos hpend]
    rw [rankStep_pending hva hpend]
    have hany : ¬ last.any (·.1 == a) = true := by
      intro hc
      rw [any_key_iff, hinv.last_eq] at hc
      obtain ⟨x, hx⟩ := exists_of_mem_keys hc
      exact hout (mem_keys_of_mem (mem_dropKeys.mp hx).1)
    rw [if_neg hany]
    refine ⟨_, _, _, rfl, ?_⟩
    have hlk0 : lookup s0.valset a = 0 := lookup_of_not_mem hout
    have hemit : emit s0 (p, a) = some { pubkey := v.pubkey, power := v.power } := by
      unfold emit
      rw [if_pos (by simp only [hlk0]; omega)]
      simp only [pkOf, hv, Option.map_some, Option.getD_some, hpow]
    have hnotin : a ∉ st.valset.map (·.1) := by
      intro hm
      obtain ⟨q, hq⟩ := exists_of_mem_keys hm
      rcases (hinv.vs_mem a q).mp hq with ⟨h1, _⟩ | h1
      · exact hout (mem_keys_of_mem h1)
      · exact hfresh (List.mem_map.mpr ⟨(q, a), h1, rfl⟩)
    have hfil : st.valset = st.valset.filter (·.1 != a) := by
      symm
      rw [List.filter_eq_self]
      intro x hx
      have : x.1 ≠ a := fun heq => hnotin (List.mem_map.mpr ⟨x, hx, heq⟩)
      simpa using this
    refine ⟨?_, ?_, ?_, ?_, ?_, hinv.frame.trans ((frame_vset _ _ _).trans (frame_valset _ _))⟩
    · rw [hD]
      refine recs_step hinv.recs hfresh ?_
      intro b
      refine Eq.trans (vget_congr _ (vset st a { v with status := .active, offset := 0, missed := 0 }) rfl b) ?_
      by_cases hb : b = a
      · subst hb; rw [if_pos rfl, vget_vset_same, hva]; simp [hactv]
      · rw [if_neg hb, vget_vset_other _ _ _ _ (Ne.symm hb)]
    · rw [hinv.last_eq, hD, dropKeys_snoc_absent _ _ _ hout]
    · rw [hinv.ups_eq, List.filterMap_append]
      simp [hemit]
    · show ((st.valset ++ [(a, v.power)]).map (·.1)).Nodup
      rw [hfil]
      exact vs_nodup_step hinv.vs_nodup a v.power
    · intro b q
      show (b, q) ∈ st.valset ++ [(a, v.power)] ↔ _
      rw [hfil, hpow]
      exact vs_mem_step hinv.vs_mem hfresh b q

/-- **the first loop** over any list of ranked, pairwise distinct, not yet visited addresses -/
theorem rankFold_spec {s0 : State} (h : RankOk s0) : ∀ (l done : List (Nat × Bytes)) (st : State)
    (last : List (Bytes × Nat)) (ups : List Update), Inv1 s0 done st last ups → (∀ e ∈ l, e ∈ s0.ranking) →
    ((done ++ l).map (·.2)).Nodup →
    ∃ st' last' ups', l.foldlM C07.rankStep (st, last, ups) = .ok (st', last', ups') ∧ Inv1 s0 (done ++ l) st' last' ups'
  | [], done, st, last, ups, hinv, _, _ => ⟨st, last, ups, rfl, by simpa using hinv⟩
  | e :: l, done, st, last, ups, hinv, hl, hnd => by
    have hfresh : e.2 ∉ done.map (·.2) := by
      rw [List.map_append, List.nodup_append] at hnd
      intro hm
      exact hnd.2.2 _ hm e.2 (by simp) rfl
    obtain ⟨st1, last1, ups1, hstep, hinv1⟩ := rankStep_spec h hinv (hl e List.mem_cons_self) hfresh
    have hnd' : ((done ++ [e] ++ l).map (·.2)).Nodup := by simpa [List.append_assoc] using hnd
    obtain ⟨st2, last2, ups2, hfold, hinv2⟩ :=
      rankFold_spec h l (done ++ [e]) st1 last1 ups1 hinv1 (fun x hx => hl x (List.mem_cons_of_mem _ hx)) hnd'
    refine ⟨st2, last2, ups2, ?_, by simpa [List.append_assoc] using hinv2⟩
    rw [List.foldlM_cons, hstep]
    exact hfold

/-! ## the removal loop -/

/-- loop invariant of the removal loop, relative to the state `s1` and the updates `ups1` after the
    first loop and the leavers `done` already visited -/
structure Inv2 (s1 : State) (ups1 : List Update) (done : List (Bytes × Nat)) (st : State) (ups : List Update) : Prop where
  recs : ∀ b, vget st b = if b ∈ done.map (·.1) then (vget s1 b).map demote else vget s1 b
  ups_eq : ups = ups1 ++ done.map (fun e => ({ pubkey := pkOf s1 e.1, power := 0 } : Update))
  vs_eq : st.valset = dropKeys (done.map (·.1)) s1.valset
  frame : Frame s1 st

theorem vget_rmState_same {st : State} {a : Bytes} {v : Validator} (hv : vget st a = some v) :
    vget (C07.rmState st a v) a = some (demote v) := by
  unfold C07.rmState demote
  by_cases hs : v.status = .active
  · have hb : (v.status == Status.active) = true := by simp [hs]
    simp only [hb, if_true, if_pos hs]
    exact (vget_congr _ (vset st a { v with status := .pending }) rfl a).trans (vget_vset_same _ _ _)
  · have hb : (v.status == Status.active) = false := by simp [hs]
    simp only [hb, if_neg hs, Bool.false_eq_true, if_false]
    exact (vget_congr _ st rfl a).trans hv

theorem rmState_valset (st : State) (a : Bytes) (v : Validator) :
    (C07.rmState st a v).valset = st.valset.filter (·.1 != a) := by
  unfold C07.rmState
  by_cases hb : (v.status == Status.active) = true
  · simp only [hb, if_true, vset_valset]
  · simp only [hb, if_false, Bool.false_eq_true]

theorem frame_rmState (st : State) (a : Bytes) (v : Validator) : Frame st (C07.rmState st a v) := by
  unfold C07.rmState
  by_cases hb : (v.status == Status.active) = true
  · simp only [hb, if_true]
    exact (frame_vset st a _).trans (frame_valset _ _)
  · simp only [hb, if_false, Bool.false_eq_true]
    exact frame_valset _ _

theorem removeStep_spec {s1 : State} {ups1 : List Update} {done : List (Bytes × Nat)} {st : State} {ups : List Update}
    (hinv : Inv2 s1 ups1 done st ups) {e : Bytes × Nat} (hrec : ∃ v, vget s1 e.1 = some v)
    (hfresh : e.1 ∉ done.map (·.1)) :
    ∃ st' ups', C07.removeStep (st, ups) e = .ok (st', ups') ∧ Inv2 s1 ups1 (done ++ [e]) st' ups' := by
  obtain ⟨v, hv⟩ := hrec
  have hva : vget st e.1 = some v := by rw [hinv.recs e.1, if_neg hfresh]; exact hv
  have hD : (done ++ [e]).map (·.1) = done.map (·.1) ++ [e.1] := by simp
  rw [C07.removeStep_eq, hva]
  refine ⟨_, _, rfl, ?_⟩
  refine ⟨?_, ?_, ?_, hinv.frame.trans (frame_rmState _ _ _)⟩
  · rw [hD]
    refine recs_step hinv.recs hfresh ?_
    intro b
    by_cases hb : b = e.1
    · subst hb; rw [if_pos rfl, vget_rmState_same hva, hva]; rfl
    · rw [if_neg hb, C07.vget_rmState_other _ _ _ _ (Ne.symm hb)]
  · rw [hinv.ups_eq, List.map_append, List.append_assoc]
    simp only [List.map_cons, List.map_nil, pkOf, hv, Option.map_some, Option.getD_some]
  · rw [rmState_valset, hinv.vs_eq, hD]
    exact dropKeys_snoc_filter _ _ _

theorem removeFold_spec {s1 : State} {ups1 : List Update} : ∀ (l done : List (Bytes × Nat)) (st : State) (ups : List Update),
    Inv2 s1 ups1 done st ups → (∀ e ∈ l, ∃ v, vget s1 e.1 = some v) → ((done ++ l).map (·.1)).Nodup →
    ∃ st' ups', l.foldlM C07.removeStep (st, ups) = .ok (st', ups') ∧ Inv2 s1 ups1 (done ++ l) st' ups'
  | [], done, st, ups, hinv, _, _ => ⟨st, ups, rfl, by simpa using hinv⟩
  | e :: l, done, st, ups, hinv, hl, hnd => by
    have hfresh : e.1 ∉ done.map (·.1) := by
      rw [List.map_append, List.nodup_append] at hnd
      intro hm
      exact hnd.2.2 _ hm e.1 (by simp) rfl
    obtain ⟨st1, ups1', hstep, hinv1⟩ := removeStep_spec hinv (hl e List.mem_cons_self) hfresh
    have hnd' : ((done ++ [e] ++ l).map (·.1)).Nodup := by simpa [List.append_assoc] using hnd
    obtain ⟨st2, ups2, hfold, hinv2⟩ :=
      removeFold_spec l (done ++ [e]) st1 ups1' hinv1 (fun x hx => hl x (List.mem_cons_of_mem _ hx)) hnd'
    refine ⟨st2, ups2, ?_, by simpa [List.append_assoc] using hinv2⟩
    rw [List.foldlM_cons, hstep]
    exact hfold

/-! ## 2. EndBlocker never fails; closed form of its result -/

theorem top_sub_ranking (s : State) : ∀ e ∈ top s, e ∈ s.ranking := by
  intro e he
  exact (rankingDesc_perm s).mem_iff.mp (List.mem_of_mem_take he)

theorem top_addrs_nodup {s : State} (h : RankOk s) : ((top s).map (·.2)).Nodup := by
  have h1 : ((rankingDesc s).map (·.2)).Nodup := ((rankingDesc_perm s).map (·.2)).symm.nodup h.rank_nodup
  exact List.Nodup.sublist ((List.take_sublist _ _).map _) h1

theorem top_nodup {s : State} (h : RankOk s) : (top s).Nodup := nodup_of_map _ (top_addrs_nodup h)

theorem mem_leavers {s : State} {e : Bytes × Nat} : e ∈ leavers s ↔ e ∈ s.valset ∧ e.1 ∉ (top s).map (·.2) := by
  unfold leavers
  exact (List.mergeSort_perm _ _).mem_iff.trans mem_dropKeys

theorem leavers_addrs_nodup {s : State} (h : RankOk s) : ((leavers s).map (·.1)).Nodup := by
  unfold leavers
  have h1 : ((dropKeys ((top s).map (·.2)) s.valset).map (·.1)).Nodup :=
    List.Nodup.sublist ((dropKeys_sublist _ _).map _) h.valset_nodup
  exact ((List.mergeSort_perm _ _).map (fun x : Bytes × Nat => x.1)).symm.nodup h1

theorem leaver_not_top {s : State} {b : Bytes} (hb : b ∈ (leavers s).map (·.1)) : b ∉ (top s).map (·.2) := by
  obtain ⟨q, hq⟩ := exists_of_mem_keys hb
  exact (mem_leavers.mp hq).2

/-- the state after EndBlocker, relative to the state before -/
structure Post (s s' : State) : Prop where
  /-- (3b) joiners are activated (counters reset), leavers that were Active become Pending, every
      other record is unchanged -/
  recs : ∀ b, vget s' b =
    if b ∈ (top s).map (·.2) then (vget s b).map activate
    else if b ∈ (leavers s).map (·.1) then (vget s b).map demote else vget s b
  vs_nodup : (s'.valset.map (·.1)).Nodup
  /-- (3a) the recorded set is the top of the ranking -/
  vs_mem : ∀ a p, (a, p) ∈ s'.valset ↔ (p, a) ∈ top s
  frame : Frame s s'

/-- **EndBlocker in closed form**: from `RankOk` it succeeds, returns `updatesOf s`, and the new
    state satisfies `Post` -/
theorem endBlocker_closed_form {s : State} (h : RankOk s) : ∃ s', endBlocker s = .ok (s', updatesOf s) ∧ Post s s' := by
  obtain ⟨s1, lo0, ups1, hfold, hinv1⟩ :=
    rankFold_spec h (top s) [] s s.valset [] (inv1_init h) (top_sub_ranking s) (by simpa using top_addrs_nodup h)
  rw [List.nil_append] at hinv1
  have hphase : C07.rankPhase s = .ok (s1, lo0, ups1) := hfold
  have hlo : lo0 = dropKeys ((top s).map (·.2)) s.valset := hinv1.last_eq
  subst hlo
  have hrec1 : ∀ e ∈ leavers s, ∃ v, vget s1 e.1 = some v := by
    intro e he
    obtain ⟨he1, he2⟩ := mem_leavers.mp he
    obtain ⟨v, hv⟩ := h.valset_rec e.1 e.2 he1
    exact ⟨v, by rw [hinv1.recs e.1, if_neg he2]; exact hv⟩
  have hinit2 : Inv2 s1 ups1 [] s1 ups1 := ⟨by intro b; simp, by simp, (dropKeys_nil _).symm, Frame.refl _⟩
  obtain ⟨s2, ups2, hfold2, hinv2⟩ :=
    removeFold_spec (leavers s) [] s1 ups1 hinit2 hrec1 (by simpa using leavers_addrs_nodup h)
  rw [List.nil_append] at hinv2
  have hpk : ∀ b, pkOf s1 b = pkOf s b := by
    intro b
    unfold pkOf
    rw [hinv1.recs b]
    split
    · cases vget s b <;> simp [activate_pubkey]
    · rfl
  have hups : ups2 = updatesOf s := by
    rw [hinv2.ups_eq, hinv1.ups_eq]
    unfold updatesOf
    congr 1
    apply List.map_congr_left
    intro e _
    rw [hpk]
  subst hups
  refine ⟨s2, ?_, ?_⟩
  · rw [C07.endBlocker_eq]
    unfold C07.endBlockerWith
    rw [hphase]
    exact hfold2
  · refine ⟨?_, ?_, ?_, hinv1.frame.trans hinv2.frame⟩
    · intro b
      rw [hinv2.recs b]
      by_cases hb : b ∈ (top s).map (·.2)
      · have hnl : b ∉ (leavers s).map (·.1) := fun hl => leaver_not_top hl hb
        rw [if_neg hnl, if_pos hb, hinv1.recs b, if_pos hb]
      · rw [if_neg hb, hinv1.recs b, if_neg hb]
    · rw [hinv2.vs_eq]
      exact List.Nodup.sublist ((dropKeys_sublist _ _).map _) hinv1.vs_nodup
    · intro a p
      rw [hinv2.vs_eq, mem_dropKeys, hinv1.vs_mem a p]
      constructor
      · rintro ⟨⟨h1, h2⟩ | h1, h3⟩
        · exact absurd (mem_keys_of_mem (mem_leavers.mpr ⟨h1, h2⟩)) h3
        · exact h1
      · intro h1
        have hb : a ∈ (top s).map (·.2) := List.mem_map.mpr ⟨(p, a), h1, rfl⟩
        exact ⟨Or.inr h1, fun hl => leaver_not_top hl hb⟩

/-- **(2) EndBlocker never fails** from a state satisfying `RankOk`: the errors "not-found",
    "pending-in-set" and "status-in-ranking" are unreachable, and there is no panic -/
theorem endBlocker_never_fails {s : State} (h : RankOk s) : ∃ s' ups, endBlocker s = .ok (s', ups) := by
  obtain ⟨s', hs', _⟩ := endBlocker_closed_form h
  exact ⟨s', _, hs'⟩

/-- the result of a successful run is the closed form -/
theorem endBlocker_result {s s' : State} {ups : List Update} (h : RankOk s) (he : endBlocker s = .ok (s', ups)) :
    ups = updatesOf s ∧ Post s s' := by
  obtain ⟨s2, hs2, hpost⟩ := endBlocker_closed_form h
  rw [hs2] at he
  cases he
  exact ⟨rfl, hpost⟩

/-! ## 3. the state after EndBlocker -/

section PostState
variable {s s' : State} {ups : List Update}

theorem mem_new_addrs (hp : Post s s') (b : Bytes) : b ∈ s'.valset.map (·.1) ↔ b ∈ (top s).map (·.2) := by
  constructor
  · intro hb
    obtain ⟨q, hq⟩ := exists_of_mem_keys hb
    exact List.mem_map.mpr ⟨(q, b), (hp.vs_mem b q).mp hq, rfl⟩
  · intro hb
    obtain ⟨e, he, rfl⟩ := List.mem_map.mp hb
    exact mem_keys_of_mem ((hp.vs_mem e.2 e.1).mpr he)

theorem mem_leaver_addrs (b : Bytes) :
    b ∈ (leavers s).map (·.1) ↔ b ∈ s.valset.map (·.1) ∧ b ∉ (top s).map (·.2) := by
  constructor
  · intro hb
    obtain ⟨q, hq⟩ := exists_of_mem_keys hb
    obtain ⟨h1, h2⟩ := mem_leavers.mp hq
    exact ⟨mem_keys_of_mem h1, h2⟩
  · rintro ⟨h1, h2⟩
    obtain ⟨q, hq⟩ := exists_of_mem_keys h1
    exact mem_keys_of_mem (mem_leavers.mpr ⟨hq, h2⟩)

/-- **(3a) the recorded set after EndBlocker is exactly the top-`maxValidators` of the ranking**
    (descending power, ties as in `rankingDesc`), each entry as `(address, power)` -/
theorem valset_is_top (h : RankOk s) (he : endBlocker s = .ok (s', ups)) :
    s'.valset.Perm ((top s).map (fun e => (e.2, e.1))) := by
  obtain ⟨_, hp⟩ := endBlocker_result h he
  have hn2 : ((top s).map (fun e : Nat × Bytes => (e.2, e.1))).Nodup := by
    apply nodup_of_map (fun x : Bytes × Nat => x.1)
    rw [List.map_map]
    exact top_addrs_nodup h
  rw [List.perm_ext_iff_of_nodup (nodup_of_map _ hp.vs_nodup) hn2]
  rintro ⟨a, p⟩
  rw [hp.vs_mem a p, List.mem_map]
  constructor
  · intro hm; exact ⟨(p, a), hm, rfl⟩
  · rintro ⟨e, hm, heq⟩
    obtain ⟨rfl, rfl⟩ := Prod.mk.inj heq
    exact hm

/-- (3a) at most the configured maximum -/
theorem valset_size_le_max (h : RankOk s) (he : endBlocker s = .ok (s', ups)) :
    (s'.valset.length : Int) ≤ s'.params.maxValidators := by
  obtain ⟨_, hp⟩ := endBlocker_result h he
  have h1 := (valset_is_top h he).length_eq
  rw [List.length_map] at h1
  have h2 : (top s).length ≤ s.params.maxValidators.toNat := List.length_take_le _ _
  have h3 := h.max_nonneg
  rw [hp.frame.params]
  omega

/-- (3a) every member is Active in the new state, recorded with exactly its current, positive power -/
theorem valset_members_active (h : RankOk s) (he : endBlocker s = .ok (s', ups)) {a : Bytes} {p : Nat}
    (hm : (a, p) ∈ s'.valset) : ∃ v, vget s' a = some v ∧ v.status = .active ∧ v.power = p ∧ 0 < p := by
  obtain ⟨_, hp⟩ := endBlocker_result h he
  have ht := (hp.vs_mem a p).mp hm
  obtain ⟨v, hv, hpow, hpos, hst⟩ := h.rank_rec p a (top_sub_ranking s _ ht)
  refine ⟨activate v, ?_, ?_, by rw [activate_power]; exact hpow, hpos⟩
  · rw [hp.recs a, if_pos (List.mem_map.mpr ⟨(p, a), ht, rfl⟩), hv]; rfl
  · rw [activate_status]
    rcases hst with hst | hst
    · rw [if_neg (by rw [hst]; decide), hst]
    · rw [if_pos hst]

/-- (3a) and conversely every top entry is a member -/
theorem top_is_member (h : RankOk s) (he : endBlocker s = .ok (s', ups)) {a : Bytes} {p : Nat}
    (hm : (p, a) ∈ top s) : (a, p) ∈ s'.valset :=
  ((endBlocker_result h he).2.vs_mem a p).mpr hm

/-- the top of a sorted list dominates the rest -/
theorem top_dominates (s : State) {x y : Nat × Bytes} (hx : x ∈ top s) (hy : y ∈ s.ranking) (hny : y ∉ top s) :
    rle x y = true := by
  have hs := rankingDesc_sorted s
  rw [← List.take_append_drop s.params.maxValidators.toNat (rankingDesc s), List.pairwise_append] at hs
  have hy' : y ∈ rankingDesc s := (rankingDesc_perm s).mem_iff.mpr hy
  rw [← List.take_append_drop s.params.maxValidators.toNat (rankingDesc s), List.mem_append] at hy'
  rcases hy' with hy' | hy'
  · exact absurd hy' hny
  · exact hs.2.2 x hx y hy'

/-- the Go loop's guard "invalid iterator: validator power is bigger than before" (not in the model)
    can never fire: the walked entries come in non-increasing power -/
theorem top_powers_descending (s : State) : (top s).Pairwise (fun a b => b.1 ≤ a.1) := by
  have h1 : (top s).Pairwise (fun a b => rle a b = true) :=
    (rankingDesc_sorted s).sublist (List.take_sublist _ _)
  refine h1.imp ?_
  intro a b hab
  rw [rle_iff] at hab
  rcases hab with h | ⟨h, _⟩ <;> omega

/-- **(3a) no ranked (eligible) non-member has more power than a member**, in the order used by
    `rankingDesc`: a non-member has less power, or the same power and an address that does not come
    after the member's -/
theorem valset_dominates (h : RankOk s) (he : endBlocker s = .ok (s', ups)) {a b : Bytes} {p q : Nat}
    (hm : (a, p) ∈ s'.valset) (hr : (q, b) ∈ s'.ranking) (hnm : b ∉ s'.valset.map (·.1)) :
    q < p ∨ (q = p ∧ bytesLt a b = false) := by
  obtain ⟨_, hp⟩ := endBlocker_result h he
  rw [hp.frame.ranking] at hr
  have hnt : (q, b) ∉ top s := fun ht => hnm (mem_keys_of_mem ((hp.vs_mem b q).mpr ht))
  have := top_dominates s ((hp.vs_mem a p).mp hm) hr hnt
  rw [rle_iff] at this
  rcases this with h1 | ⟨h1, h2⟩
  · exact Or.inl h1
  · exact Or.inr ⟨h1.symm, h2⟩

/-- (3a) the same with the tie-break made strict: among equal powers the members are the greater
    addresses (EndBlocker iterates the ranking in reverse key order) -/
theorem valset_dominates_strict (h : RankOk s) (he : endBlocker s = .ok (s', ups)) {a b : Bytes} {p q : Nat}
    (hm : (a, p) ∈ s'.valset) (hr : (q, b) ∈ s'.ranking) (hnm : b ∉ s'.valset.map (·.1)) :
    q < p ∨ (q = p ∧ bytesLt b a = true) := by
  rcases valset_dominates h he hm hr hnm with h1 | ⟨h1, h2⟩
  · exact Or.inl h1
  · refine Or.inr ⟨h1, ?_⟩
    have hab : b ≠ a := fun heq => hnm (heq ▸ mem_keys_of_mem hm)
    rcases bytesLt_trichotomy b a hab with h3 | h3
    · exact h3
    · rw [h3] at h2; cases h2

/-- **(3b) the validator records after EndBlocker**: a member of the new set has its record
    `activate`d (a Pending joiner becomes Active with `offset`, `missed` reset; an Active one is
    untouched); a member of the old set that is not in the new one has its record `demote`d (Active
    becomes Pending, anything else — e.g. Downgrade, Tombstoned, Inactive — is untouched); every other
    record is unchanged -/
theorem records_after (h : RankOk s) (he : endBlocker s = .ok (s', ups)) (b : Bytes) :
    (b ∈ s'.valset.map (·.1) → vget s' b = (vget s b).map activate) ∧
    (b ∉ s'.valset.map (·.1) → b ∈ s.valset.map (·.1) → vget s' b = (vget s b).map demote) ∧
    (b ∉ s'.valset.map (·.1) → b ∉ s.valset.map (·.1) → vget s' b = vget s b) := by
  obtain ⟨_, hp⟩ := endBlocker_result h he
  rw [mem_new_addrs hp b]
  refine ⟨?_, ?_, ?_⟩
  · intro hb; rw [hp.recs b, if_pos hb]
  · intro hb hold
    rw [hp.recs b, if_neg hb, if_pos ((mem_leaver_addrs b).mpr ⟨hold, hb⟩)]
  · intro hb hold
    rw [hp.recs b, if_neg hb, if_neg (fun hl => hold ((mem_leaver_addrs b).mp hl).1)]

/-- (3b) nothing but the validator records and the recorded set changes -/
theorem frame_after (h : RankOk s) (he : endBlocker s = .ok (s', ups)) : Frame s s' :=
  (endBlocker_result h he).2.frame

theorem rec_forward (hp : Post s s') {b : Bytes} {v : Validator} (hv : vget s b = some v) :
    ∃ v', vget s' b = some v' ∧ (v' = activate v ∨ v' = demote v ∨ v' = v) := by
  rw [hp.recs b, hv]
  split
  · exact ⟨_, rfl, Or.inl rfl⟩
  · split
    · exact ⟨_, rfl, Or.inr (Or.inl rfl)⟩
    · exact ⟨_, rfl, Or.inr (Or.inr rfl)⟩

theorem rec_backward (hp : Post s s') {b : Bytes} {v' : Validator} (hv' : vget s' b = some v') :
    ∃ v, vget s b = some v ∧ (v' = activate v ∨ v' = demote v ∨ v' = v) := by
  cases hv : vget s b with
  | none =>
    rw [hp.recs b, hv] at hv'
    split at hv'
    · cases hv'
    · split at hv' <;> cases hv'
  | some v =>
    obtain ⟨v2, h1, h2⟩ := rec_forward hp hv
    rw [hv'] at h1
    cases h1
    exact ⟨v, rfl, h2⟩

theorem ap_activate (v : Validator) :
    ((activate v).status = .active ∨ (activate v).status = .pending) ↔ (v.status = .active ∨ v.status = .pending) := by
  rw [activate_status]
  generalize v.status = st
  cases st <;> simp

theorem ap_demote (v : Validator) :
    ((demote v).status = .active ∨ (demote v).status = .pending) ↔ (v.status = .active ∨ v.status = .pending) := by
  rw [demote_status]
  generalize v.status = st
  cases st <;> simp

/-- activation / demotion keep power, public key and eligibility -/
theorem rec_same {v v' : Validator} (h : v' = activate v ∨ v' = demote v ∨ v' = v) :
    v'.power = v.power ∧ v'.pubkey = v.pubkey ∧
    ((v'.status = .active ∨ v'.status = .pending) ↔ (v.status = .active ∨ v.status = .pending)) := by
  rcases h with rfl | rfl | rfl
  · exact ⟨activate_power v, activate_pubkey v, ap_activate v⟩
  · exact ⟨demote_power v, demote_pubkey v, ap_demote v⟩
  · exact ⟨rfl, rfl, Iff.rfl⟩

/-- **(3c) `RankOk` is preserved by EndBlocker** (all seven conjuncts) -/
theorem rankOk_preserved (h : RankOk s) (he : endBlocker s = .ok (s', ups)) : RankOk s' := by
  obtain ⟨_, hp⟩ := endBlocker_result h he
  refine ⟨?_, ?_, ?_, hp.vs_nodup, ?_, ?_, ?_⟩
  · rw [hp.frame.ranking]; exact h.rank_nodup
  · intro p a hm
    rw [hp.frame.ranking] at hm
    obtain ⟨v, hv, hpow, hpos, hst⟩ := h.rank_rec p a hm
    obtain ⟨v', hv', hrel⟩ := rec_forward hp hv
    obtain ⟨h1, _, h3⟩ := rec_same hrel
    exact ⟨v', hv', h1.trans hpow, hpos, h3.mpr hst⟩
  · intro a v' hv' hst hpos
    obtain ⟨v, hv, hrel⟩ := rec_backward hp hv'
    obtain ⟨h1, _, h3⟩ := rec_same hrel
    rw [hp.frame.ranking, h1]
    exact h.rank_complete a v hv (h3.mp hst) (h1 ▸ hpos)
  · intro a p hm
    obtain ⟨v, hv, _⟩ := valset_members_active h he hm
    exact ⟨v, hv⟩
  · intro a v hv hst hm
    obtain ⟨q, hq⟩ := exists_of_mem_keys hm
    obtain ⟨v2, hv2, hact, _⟩ := valset_members_active h he hq
    rw [hv] at hv2
    cases hv2
    rw [hst] at hact
    cases hact
  · rw [hp.frame.params]; exact h.max_nonneg

/-- (3a) in terms of validator records of the new state: any Active-or-Pending validator with positive
    power outside the new set is dominated by every member -/
theorem valset_dominates_eligible (h : RankOk s) (he : endBlocker s = .ok (s', ups)) {a b : Bytes} {p : Nat}
    {vb : Validator} (hm : (a, p) ∈ s'.valset) (hvb : vget s' b = some vb)
    (hst : vb.status = .active ∨ vb.status = .pending) (hpos : 0 < vb.power) (hnm : b ∉ s'.valset.map (·.1)) :
    vb.power < p ∨ (vb.power = p ∧ bytesLt b a = true) :=
  valset_dominates_strict h he hm ((rankOk_preserved h he).rank_complete b vb hvb hst hpos) hnm

/-- consequence of (3a)+(3b): outside the new set nobody is Active -/
theorem non_member_not_active (h : RankOk s) (he : endBlocker s = .ok (s', ups)) {b : Bytes} {v : Validator}
    (hv : vget s' b = some v) (hnm : b ∉ s'.valset.map (·.1)) (hold : b ∈ s.valset.map (·.1)) :
    v.status ≠ .active := by
  have := (records_after h he b).2.1 hnm hold
  rw [hv] at this
  cases hv0 : vget s b with
  | none => rw [hv0] at this; cases this
  | some v0 =>
    rw [hv0] at this
    cases this
    rw [demote_status]
    split
    · decide
    · assumption

end PostState

/-! ## 4. the updates are acceptable to CometBFT -/

/-- distinct validators have distinct consensus keys (the address is a hash of the key) -/
def PkInj (s : State) : Prop :=
  ∀ a b va vb, vget s a = some va → vget s b = some vb → va.pubkey = vb.pubkey → a = b

/-- the module's record of the active set, as CometBFT sees it: (public key, power) -/
def cometOf (s : State) : Comet.VSet := s.valset.map (fun e => (pkOf s e.1, e.2))

/-- **the CometBFT set equals the module's record** (as sets: CometBFT keeps its own order) -/
def Sync (s : State) (cs : Comet.VSet) : Prop := cs.Perm (cometOf s)

/-- how the update list is handed to CometBFT: `int64(power)` -/
def toComet (ups : List Update) : List (Bytes × Int) := ups.map (fun u => (u.pubkey, Comet.toInt64 u.power))

theorem toComet_eq (ups : List Update) : toComet ups = C07.toComet ups := rfl

theorem toInt64_le {p : Nat} (h : p ≤ Comet.maxTotal) : Comet.toInt64 p = p := by
  have h63 : p < two63 := by unfold Comet.maxTotal at h; unfold two63; omega
  have : p % two64 = p := Nat.mod_eq_of_lt (by unfold two63 at h63; unfold two64; omega)
  unfold Comet.toInt64
  simp [this, h63]

theorem toInt64_zero : Comet.toInt64 0 = 0 := by decide

theorem pk_inj {s : State} (hi : PkInj s) {a b : Bytes} (ha : ∃ v, vget s a = some v) (hb : ∃ v, vget s b = some v)
    (h : pkOf s a = pkOf s b) : a = b := by
  obtain ⟨va, hva⟩ := ha
  obtain ⟨vb, hvb⟩ := hb
  apply hi a b va vb hva hvb
  simpa [pkOf, hva, hvb] using h

theorem nodup_map_pk {α} {s : State} (hi : PkInj s) (key : α → Bytes) (l : List α) (hn : (l.map key).Nodup)
    (hrec : ∀ x ∈ l, ∃ v, vget s (key x) = some v) : (l.map (fun x => pkOf s (key x))).Nodup := by
  rw [List.Nodup, List.pairwise_map] at hn ⊢
  exact hn.imp_of_mem (fun hx hy hne heq => hne (pk_inj hi (hrec _ hx) (hrec _ hy) heq))

theorem snd_key_unique {l : List (Nat × Bytes)} (hn : (l.map (·.2)).Nodup) {p q : Nat} {a : Bytes}
    (h1 : (p, a) ∈ l) (h2 : (q, a) ∈ l) : p = q := by
  have hn' : ((l.map (fun e : Nat × Bytes => (e.2, e.1))).map (·.1)).Nodup := by rw [List.map_map]; exact hn
  exact C18.assoc_unique _ hn' a p q (List.mem_map.mpr ⟨(p, a), h1, rfl⟩) (List.mem_map.mpr ⟨(q, a), h2, rfl⟩)

theorem mem_cometOf {s : State} {k : Bytes} {p : Nat} : (k, p) ∈ cometOf s ↔ ∃ a, (a, p) ∈ s.valset ∧ pkOf s a = k := by
  unfold cometOf
  rw [List.mem_map]
  constructor
  · rintro ⟨e, he, heq⟩
    obtain ⟨h1, h2⟩ := Prod.mk.inj heq
    exact ⟨e.1, by rw [← h2]; exact he, h1⟩
  · rintro ⟨a, ha, hk⟩
    exact ⟨(a, p), ha, by rw [← hk]⟩

theorem cometOf_keys_nodup {s : State} (h : RankOk s) (hi : PkInj s) : ((cometOf s).map (·.1)).Nodup := by
  unfold cometOf
  rw [List.map_map]
  exact nodup_map_pk hi (fun e : Bytes × Nat => e.1) s.valset h.valset_nodup (fun x hx => h.valset_rec x.1 x.2 hx)

section After
variable {s s' : State}

theorem pkOf_after (hp : Post s s') (b : Bytes) : pkOf s' b = pkOf s b := by
  unfold pkOf
  cases hv : vget s b with
  | none =>
    cases hv' : vget s' b with
    | none => rfl
    | some v' =>
      obtain ⟨v, h1, _⟩ := rec_backward hp hv'
      rw [hv] at h1; cases h1
  | some v =>
    obtain ⟨v', hv', hrel⟩ := rec_forward hp hv
    rw [hv']
    simp [(rec_same hrel).2.1]

/-- distinctness of the consensus keys is preserved by EndBlocker -/
theorem pkInj_after (hp : Post s s') (hi : PkInj s) : PkInj s' := by
  intro a b va vb hva hvb heq
  obtain ⟨va0, ha0, hra⟩ := rec_backward hp hva
  obtain ⟨vb0, hb0, hrb⟩ := rec_backward hp hvb
  apply hi a b va0 vb0 ha0 hb0
  rw [← (rec_same hra).2.1, ← (rec_same hrb).2.1]
  exact heq

end After

/-! ### the shape of the update list -/

theorem emit_some {s : State} {e : Nat × Bytes} {x : Update} (h : emit s e = some x) :
    x = { pubkey := pkOf s e.2, power := e.1 } ∧ lookup s.valset e.2 ≠ e.1 := by
  unfold emit at h
  split at h
  · cases h; exact ⟨rfl, by assumption⟩
  · cases h

theorem emit_of_ne {s : State} {e : Nat × Bytes} (h : lookup s.valset e.2 ≠ e.1) :
    emit s e = some { pubkey := pkOf s e.2, power := e.1 } := by
  unfold emit; rw [if_pos h]

theorem mem_updatesOf {s : State} {x : Update} :
    x ∈ updatesOf s ↔ (∃ e ∈ top s, emit s e = some x) ∨ (∃ e ∈ leavers s, x = { pubkey := pkOf s e.1, power := 0 }) := by
  unfold updatesOf
  rw [List.mem_append, List.mem_filterMap, List.mem_map]
  constructor
  · rintro (h | ⟨e, he, heq⟩)
    · exact Or.inl h
    · exact Or.inr ⟨e, he, heq.symm⟩
  · rintro (h | ⟨e, he, heq⟩)
    · exact Or.inl h
    · exact Or.inr ⟨e, he, heq.symm⟩

theorem filterMap_emit_sublist (s : State) : ∀ l : List (Nat × Bytes),
    ((l.filterMap (emit s)).map (·.pubkey)).Sublist (l.map (fun e => pkOf s e.2))
  | [] => List.Sublist.slnil
  | e :: l => by
    rw [List.filterMap_cons]
    cases hem : emit s e with
    | none => exact (filterMap_emit_sublist s l).cons _
    | some x =>
      simp only [List.map_cons]
      rw [(emit_some hem).1]
      exact (filterMap_emit_sublist s l).cons_cons _

/-- **no duplicate**: the public keys of the update list are pairwise distinct -/
theorem updates_pubkeys_nodup {s : State} (h : RankOk s) (hi : PkInj s) : ((updatesOf s).map (·.pubkey)).Nodup := by
  have hrecT : ∀ x ∈ top s, ∃ v, vget s x.2 = some v := by
    intro x hx
    obtain ⟨v, hv, _⟩ := h.rank_rec x.1 x.2 (top_sub_ranking s x hx)
    exact ⟨v, hv⟩
  have hrecL : ∀ x ∈ leavers s, ∃ v, vget s x.1 = some v := fun x hx => h.valset_rec x.1 x.2 (mem_leavers.mp hx).1
  unfold updatesOf
  rw [List.map_append, List.nodup_append]
  refine ⟨?_, ?_, ?_⟩
  · exact List.Nodup.sublist (filterMap_emit_sublist s (top s))
      (nodup_map_pk hi (fun e : Nat × Bytes => e.2) (top s) (top_addrs_nodup h) hrecT)
  · rw [List.map_map]
    exact nodup_map_pk hi (fun e : Bytes × Nat => e.1) (leavers s) (leavers_addrs_nodup h) hrecL
  · intro k hk k' hk' heq
    subst heq
    obtain ⟨x, hx, rfl⟩ := List.mem_map.mp hk
    obtain ⟨e, he, hem⟩ := List.mem_filterMap.mp hx
    rw [List.map_map] at hk'
    obtain ⟨l, hl, hlk⟩ := List.mem_map.mp hk'
    simp only [Function.comp] at hlk
    rw [(emit_some hem).1] at hlk
    have := pk_inj hi (hrecL l hl) (hrecT e he) hlk
    exact (mem_leavers.mp hl).2 (this ▸ List.mem_map.mpr ⟨e, he, rfl⟩)

/-- **no removal of a non-member**: every zero-power update names the key of a recorded member -/
theorem no_removal_of_non_member {s : State} (h : RankOk s) {x : Update} (hx : x ∈ updatesOf s) (h0 : x.power = 0) :
    ∃ a p, (a, p) ∈ s.valset ∧ pkOf s a = x.pubkey := by
  rcases mem_updatesOf.mp hx with ⟨e, he, hem⟩ | ⟨e, he, rfl⟩
  · obtain ⟨_, _, hpow, hpos, _⟩ := h.rank_rec e.1 e.2 (top_sub_ranking s e he)
    rw [(emit_some hem).1] at h0
    simp only at h0
    omega
  · exact ⟨e.1, e.2, (mem_leavers.mp he).1, rfl⟩

/-- **no zero-power addition**: an update for a key that is not a recorded member has positive power -/
theorem no_zero_power_addition {s : State} (h : RankOk s) {x : Update} (hx : x ∈ updatesOf s)
    (hnew : ∀ a p, (a, p) ∈ s.valset → pkOf s a ≠ x.pubkey) : 0 < x.power := by
  cases hp : x.power with
  | zero =>
    obtain ⟨a, p, hm, hk⟩ := no_removal_of_non_member h hx hp
    exact absurd hk (hnew a p hm)
  | succ n => omega

/-- **no duplicate**, in the form CometBFT checks it -/
theorem no_duplicate_pubkey {s : State} (h : RankOk s) (hi : PkInj s) :
    Comet.hasDup ((toComet (updatesOf s)).map (·.1)) = false := by
  rw [C07.hasDup_false_iff_nodup]
  unfold toComet
  rw [List.map_map]
  exact updates_pubkeys_nodup h hi

/-- **(4) Every update list of EndBlocker is accepted by CometBFT, and keeps the two records equal,
    unless the new set overflows CometBFT's total-power bound (known finding F6b; this covers a power
    ≥ 2^63 as well, since each power is at most the total) or the new set is empty (known finding F10).**
    These are the only two ways to be refused: besides `RankOk`, distinct consensus keys and `Sync`
    before the block there is no other hypothesis. -/
theorem accepted_unless_overflow_or_empty {s s' : State} {ups : List Update} {cs : Comet.VSet}
    (h : RankOk s) (hi : PkInj s) (hsync : Sync s cs) (he : endBlocker s = .ok (s', ups))
    (hno_overflow : Comet.total (cometOf s') ≤ Comet.maxTotal)
    (hnot_empty : s'.valset ≠ []) :
    ∃ cs', Comet.apply cs (ups.map (fun u => (u.pubkey, Comet.toInt64 u.power))) = .ok cs' ∧ Sync s' cs' := by
  obtain ⟨hups, hp⟩ := endBlocker_result h he
  subst hups
  have h' := rankOk_preserved h he
  have hi' := pkInj_after hp hi
  -- facts about the top entries
  have hrecT : ∀ p a, (p, a) ∈ top s → ∃ v, vget s a = some v := by
    intro p a hx
    obtain ⟨v, hv, _⟩ := h.rank_rec p a (top_sub_ranking s _ hx)
    exact ⟨v, hv⟩
  have hposT : ∀ p a, (p, a) ∈ top s → 0 < p := by
    intro p a hx
    obtain ⟨_, _, _, hpos, _⟩ := h.rank_rec p a (top_sub_ranking s _ hx)
    exact hpos
  have hsmall : ∀ p a, (p, a) ∈ top s → p ≤ Comet.maxTotal := by
    intro p a hx
    have hm : (a, p) ∈ s'.valset := (hp.vs_mem a p).mpr hx
    have : p ∈ (cometOf s').map (·.2) := List.mem_map.mpr ⟨(pkOf s' a, p), mem_cometOf.mpr ⟨a, hm, rfl⟩, rfl⟩
    have := le_sum_of_mem this
    unfold Comet.total at hno_overflow
    omega
  have hrecV : ∀ a q, (a, q) ∈ s.valset → ∃ v, vget s a = some v := h.valset_rec
  have hrecL : ∀ e ∈ leavers s, ∃ v, vget s e.1 = some v := fun e he' => h.valset_rec e.1 e.2 (mem_leavers.mp he').1
  -- membership in the list handed to CometBFT
  have hmemU : ∀ k u, (k, u) ∈ toComet (updatesOf s) ↔
      (∃ p a, (p, a) ∈ top s ∧ lookup s.valset a ≠ p ∧ k = pkOf s a ∧ u = (p : Int)) ∨
      (∃ e ∈ leavers s, k = pkOf s e.1 ∧ u = 0) := by
    intro k u
    unfold toComet
    rw [List.mem_map]
    constructor
    · rintro ⟨x, hx, heq⟩
      obtain ⟨hk, hu⟩ := Prod.mk.inj heq
      rcases mem_updatesOf.mp hx with ⟨e, he', hem⟩ | ⟨e, he', rfl⟩
      · obtain ⟨hxe, hne⟩ := emit_some hem
        subst hxe
        left
        refine ⟨e.1, e.2, he', hne, hk.symm, ?_⟩
        rw [← hu]
        exact toInt64_le (hsmall e.1 e.2 he')
      · right
        exact ⟨e, he', hk.symm, by rw [← hu]; exact toInt64_zero⟩
    · rintro (⟨p, a, hx, hne, hk, hu⟩ | ⟨e, he', hk, hu⟩)
      · refine ⟨{ pubkey := pkOf s a, power := p }, mem_updatesOf.mpr (Or.inl ⟨(p, a), hx, emit_of_ne hne⟩), ?_⟩
        rw [hk, hu]
        simp only [toInt64_le (hsmall p a hx)]
      · refine ⟨{ pubkey := pkOf s e.1, power := 0 }, mem_updatesOf.mpr (Or.inr ⟨e, he', rfl⟩), ?_⟩
        rw [hk, hu]
        simp only [toInt64_zero]
  have hkeyU : ∀ k, k ∈ (toComet (updatesOf s)).map (·.1) ↔ ∃ u, (k, u) ∈ toComet (updatesOf s) := by
    intro k
    constructor
    · exact exists_of_mem_keys
    · rintro ⟨u, hu⟩; exact mem_keys_of_mem hu
  have hcsmem : ∀ k p, (k, p) ∈ cs ↔ ∃ a, (a, p) ∈ s.valset ∧ pkOf s a = k :=
    fun k p => hsync.mem_iff.trans mem_cometOf
  -- the specification of `Comet.apply`
  apply comet_apply_spec cs (toComet (updatesOf s)) (cometOf s')
  · exact (hsync.map (·.1)).symm.nodup (cometOf_keys_nodup h hi)
  · unfold toComet
    rw [List.map_map]
    exact updates_pubkeys_nodup h hi
  · rintro ⟨k, u⟩ hu
    rcases (hmemU k u).mp hu with ⟨p, a, hx, _, _, rfl⟩ | ⟨e, _, _, rfl⟩
    · have := hsmall p a hx
      simp only
      omega
    · simp only
      unfold Comet.maxTotal
      omega
  · rintro ⟨k, u⟩ hu h0
    simp only at h0 ⊢
    rcases (hmemU k u).mp hu with ⟨p, a, hx, _, _, rfl⟩ | ⟨e, he', rfl, _⟩
    · have := hposT p a hx
      omega
    · exact mem_keys_of_mem ((hcsmem _ e.2).mpr ⟨e.1, (mem_leavers.mp he').1, rfl⟩)
  · exact cometOf_keys_nodup h' hi'
  · intro k p
    rw [mem_cometOf]
    constructor
    · rintro ⟨a, hm, hk⟩
      rw [pkOf_after hp] at hk
      have hx : (p, a) ∈ top s := (hp.vs_mem a p).mp hm
      by_cases hne : lookup s.valset a ≠ p
      · left
        refine ⟨(p : Int), (hmemU k p).mpr (Or.inl ⟨p, a, hx, hne, hk.symm, rfl⟩), ?_, by simp⟩
        have := hposT p a hx
        omega
      · right
        have hlk : lookup s.valset a = p := Classical.not_not.mp hne
        have hold : (a, p) ∈ s.valset := mem_of_lookup_pos hlk (hposT p a hx)
        refine ⟨(hcsmem k p).mpr ⟨a, hold, hk⟩, ?_⟩
        intro hkm
        obtain ⟨u, hu⟩ := (hkeyU k).mp hkm
        rcases (hmemU k u).mp hu with ⟨p', a', hx', hne', hk', _⟩ | ⟨e, he', hk', _⟩
        · have haa : a = a' := pk_inj hi (hrecT p a hx) (hrecT p' a' hx') (hk.trans hk')
          subst haa
          have := snd_key_unique (top_addrs_nodup h) hx hx'
          subst this
          exact hne' hlk
        · have haa : a = e.1 := pk_inj hi (hrecT p a hx) (hrecL e he') (hk.trans hk')
          exact (mem_leavers.mp he').2 (haa ▸ List.mem_map.mpr ⟨(p, a), hx, rfl⟩)
    · rintro (⟨u, hu, h0, hpu⟩ | ⟨hcsm, hnk⟩)
      · rcases (hmemU k u).mp hu with ⟨p', a', hx', _, hk', rfl⟩ | ⟨e, _, _, rfl⟩
        · have : p = p' := by rw [hpu]; simp
          subst this
          exact ⟨a', (hp.vs_mem a' p).mpr hx', by rw [pkOf_after hp]; exact hk'.symm⟩
        · exact absurd rfl h0
      · obtain ⟨a, hold, hk⟩ := (hcsmem k p).mp hcsm
        by_cases hat : a ∈ (top s).map (·.2)
        · obtain ⟨e, hx, hea⟩ := List.mem_map.mp hat
          obtain ⟨q, a'⟩ := e
          simp only at hea
          subst hea
          by_cases hne : lookup s.valset a' ≠ q
          · exact absurd ((hkeyU k).mpr ⟨_, (hmemU k q).mpr (Or.inl ⟨q, a', hx, hne, hk.symm, rfl⟩)⟩) hnk
          · have hlk : lookup s.valset a' = q := Classical.not_not.mp hne
            rw [lookup_of_mem h.valset_nodup hold] at hlk
            subst hlk
            exact ⟨a', (hp.vs_mem a' p).mpr hx, by rw [pkOf_after hp]; exact hk⟩
        · have hl : (a, p) ∈ leavers s := mem_leavers.mpr ⟨hold, hat⟩
          exact absurd ((hkeyU k).mpr ⟨0, (hmemU k 0).mpr (Or.inr ⟨(a, p), hl, hk.symm, rfl⟩)⟩) hnk
  · exact hno_overflow
  · intro hnil
    apply hnot_empty
    unfold cometOf at hnil
    exact List.map_eq_nil_iff.mp hnil

/-! ### the two excluded cases, seen from the state before EndBlocker -/

/-- the total power of the new set is the total power of the top of the ranking -/
theorem total_after {s s' : State} {ups : List Update} (h : RankOk s) (he : endBlocker s = .ok (s', ups)) :
    Comet.total (cometOf s') = ((top s).map (·.1)).sum := by
  unfold Comet.total cometOf
  rw [List.map_map]
  have := ((valset_is_top h he).map (fun e : Bytes × Nat => e.2)).sum_nat
  rw [List.map_map] at this
  exact this

/-- the new set is empty exactly when the top of the ranking is: no validator with positive power, or
    `maxValidators = 0` -/
theorem empty_after_iff {s s' : State} {ups : List Update} (h : RankOk s) (he : endBlocker s = .ok (s', ups)) :
    s'.valset = [] ↔ top s = [] := by
  have hperm := valset_is_top h he
  constructor
  · intro h0
    rw [h0] at hperm
    exact List.map_eq_nil_iff.mp hperm.symm.eq_nil
  · intro h0
    rw [h0] at hperm
    exact hperm.eq_nil

/-- **sharpness of the second exclusion (F10)**: when the new set is empty and the old one is not,
    CometBFT refuses the update list with "empty-set" -/
theorem rejected_if_empty {s s' : State} {ups : List Update} {cs : Comet.VSet}
    (h : RankOk s) (hi : PkInj s) (hsync : Sync s cs) (he : endBlocker s = .ok (s', ups))
    (hempty : s'.valset = []) (hold : s.valset ≠ []) :
    Comet.apply cs (ups.map (fun u => (u.pubkey, Comet.toInt64 u.power))) = .error "empty-set" := by
  obtain ⟨hups, hp⟩ := endBlocker_result h he
  subst hups
  have htop : top s = [] := (empty_after_iff h he).mp hempty
  have hU : (updatesOf s).map (fun u => (u.pubkey, Comet.toInt64 u.power)) =
      (leavers s).map (fun e => (pkOf s e.1, (0 : Int))) := by
    unfold updatesOf
    rw [htop, List.filterMap_nil, List.nil_append, List.map_map]
    apply List.map_congr_left
    intro e _
    simp only [Function.comp, toInt64_zero]
  have hlen : (leavers s).length = s.valset.length := by
    unfold leavers
    rw [(List.mergeSort_perm _ _).length_eq, htop, List.map_nil, dropKeys_nil]
  have hne : leavers s ≠ [] := by
    intro h0
    rw [h0] at hlen
    exact hold (List.eq_nil_of_length_eq_zero hlen.symm)
  rw [hU, C07.apply_eq]
  have c1 : ¬ ((leavers s).map (fun e => (pkOf s e.1, (0 : Int)))).isEmpty = true := by
    simpa using hne
  rw [if_neg c1]
  have c2 : ¬ Comet.hasDup (((leavers s).map (fun e => (pkOf s e.1, (0 : Int)))).map (·.1)) = true := by
    have := no_duplicate_pubkey h hi
    unfold toComet at this
    rw [hU] at this
    rw [this]; simp
  rw [if_neg c2]
  have c3 : ¬ ((leavers s).map (fun e => (pkOf s e.1, (0 : Int)))).any (fun u => u.2 < 0) = true := by
    simp
  rw [if_neg c3]
  have c4 : ¬ ((leavers s).map (fun e => (pkOf s e.1, (0 : Int)))).any (fun u => u.2 > (Comet.maxTotal : Int)) = true := by
    simp [Comet.maxTotal]
  rw [if_neg c4]
  have hnews : C07.news cs ((leavers s).map (fun e => (pkOf s e.1, (0 : Int)))) = [] := by
    unfold C07.news C07.upds
    rw [List.map_eq_nil_iff, List.filter_eq_nil_iff]
    intro x hx
    obtain ⟨hx1, hx2⟩ := List.mem_filter.mp hx
    obtain ⟨e, _, rfl⟩ := List.mem_map.mp hx1
    simp at hx2
  have hdels : C07.dels ((leavers s).map (fun e => (pkOf s e.1, (0 : Int)))) =
      (leavers s).map (fun e => (pkOf s e.1, (0 : Int))) := by
    unfold C07.dels
    rw [List.filter_eq_self]
    intro x hx
    obtain ⟨e, _, rfl⟩ := List.mem_map.mp hx
    rfl
  have hcl : cs.length = s.valset.length := by
    rw [hsync.length_eq]; unfold cometOf; rw [List.length_map]
  rw [hnews, hdels, List.length_map, hlen, hcl]
  simp

/-- **the two exclusions are exactly the ways to be refused**: given that CometBFT's own set respects
    its total-power bound, the update list is accepted with the records equal afterwards *if and only
    if* the new set does not overflow and is not an emptied non-empty set -/
theorem accepted_iff {s s' : State} {ups : List Update} {cs : Comet.VSet}
    (h : RankOk s) (hi : PkInj s) (hsync : Sync s cs) (hcs : Comet.total cs ≤ Comet.maxTotal)
    (he : endBlocker s = .ok (s', ups)) :
    (∃ cs', Comet.apply cs (ups.map (fun u => (u.pubkey, Comet.toInt64 u.power))) = .ok cs' ∧ Sync s' cs') ↔
      (Comet.total (cometOf s') ≤ Comet.maxTotal ∧ (s'.valset = [] → s.valset = [])) := by
  constructor
  · rintro ⟨cs', happ, hsync'⟩
    have htot : Comet.total cs' = Comet.total (cometOf s') := by
      unfold Comet.total
      exact (hsync'.map _).sum_nat
    constructor
    · rw [← htot]
      by_cases hnil : ups.map (fun u => (u.pubkey, Comet.toInt64 u.power)) = []
      · rw [hnil] at happ
        have : cs' = cs := by
          unfold Comet.apply at happ
          simp only [List.isEmpty_nil, if_true] at happ
          cases happ; rfl
        rw [this]; exact hcs
      · exact (C13.comet_accept_basic cs _ cs' happ hnil).2.2.2
    · intro hempty
      apply Classical.byContradiction
      intro hold
      rw [rejected_if_empty h hi hsync he hempty hold] at happ
      cases happ
  · rintro ⟨htot, hemp⟩
    by_cases hne : s'.valset = []
    · have hold := hemp hne
      obtain ⟨hups, _⟩ := endBlocker_result h he
      have htop : top s = [] := (empty_after_iff h he).mp hne
      have hl : leavers s = [] := by
        apply List.eq_nil_iff_forall_not_mem.mpr
        intro e hm
        have := (mem_leavers.mp hm).1
        rw [hold] at this
        cases this
      have hu : ups = [] := by
        rw [hups]; unfold updatesOf; rw [htop, hl]; rfl
      subst hu
      refine ⟨cs, rfl, ?_⟩
      unfold Sync cometOf at hsync ⊢
      rw [hold] at hsync
      rw [hne]
      exact hsync
    · exact accepted_unless_overflow_or_empty h hi hsync he htot hne

/-- the first exclusion is not vacuous either (F6b): a power of 2^63 reaches CometBFT as a negative
    number, a total above `maxTotal` is refused as such -/
def errOf {α} : Except String α → Option String
  | .error e => some e
  | .ok _ => none

example : errOf (Comet.apply [([1], 5)] [([2], Comet.toInt64 two63)]) = some "negative" := by decide +kernel
example : errOf (Comet.apply [([1], Comet.maxTotal)] [([2], Comet.toInt64 1)]) = some "total-overflow" := by decide +kernel

/-! ## 5. accumulated from genesis -/

/-- the three facts carried from block to block -/
structure Good (s : State) (cs : Comet.VSet) : Prop where
  rankOk : RankOk s
  pkInj : PkInj s
  sync : Sync s cs

/-- What the rest of the block (BeginBlock, the execution-layer requests — any relation `R` between
    the state after one EndBlocker and the state before the next) must guarantee: it re-establishes
    `RankOk`, keeps consensus keys distinct, does not write the recorded set (only EndBlocker does) and
    does not change the consensus key of a recorded member. -/
structure Between (R : State → State → Prop) : Prop where
  rankOk : ∀ s t, R s t → RankOk s → RankOk t
  pkInj : ∀ s t, R s t → RankOk s → PkInj s → PkInj t
  valset : ∀ s t, R s t → t.valset = s.valset
  pk : ∀ s t, R s t → ∀ a ∈ s.valset.map (·.1), pkOf t a = pkOf s a

theorem good_between {R : State → State → Prop} (hR : Between R) {s t : State} {cs : Comet.VSet}
    (hst : R s t) (hg : Good s cs) : Good t cs := by
  refine ⟨hR.rankOk s t hst hg.rankOk, hR.pkInj s t hst hg.rankOk hg.pkInj, ?_⟩
  have : cometOf t = cometOf s := by
    unfold cometOf
    rw [hR.valset s t hst]
    apply List.map_congr_left
    intro e he
    rw [hR.pk s t hst e.1 (List.mem_map.mpr ⟨e, he, rfl⟩)]
  unfold Sync
  rw [this]
  exact hg.sync

/-- one block's end: EndBlocker, then CometBFT applies the reported changes -/
def blockEnd (t : State) (cs : Comet.VSet) : Option (State × Comet.VSet) :=
  match endBlocker t with
  | .ok (s', ups) =>
    match Comet.apply cs (ups.map (fun u => (u.pubkey, Comet.toInt64 u.power))) with
    | .ok cs' => some (s', cs')
    | .error _ => none
  | _ => none

/-- the block does not run into one of the two excluded cases (F6b overflow, F10 empty set) -/
def SafeBlock (t : State) : Prop :=
  ∀ s' ups, endBlocker t = .ok (s', ups) → Comet.total (cometOf s') ≤ Comet.maxTotal ∧ s'.valset ≠ []

/-- **one block**: from `Good` before the block, through any `R`-step, EndBlocker succeeds, CometBFT
    accepts, and `Good` holds again -/
theorem good_after_block {R : State → State → Prop} (hR : Between R) {s t : State} {cs : Comet.VSet}
    (hg : Good s cs) (hst : R s t) (hsafe : SafeBlock t) :
    ∃ s' cs', blockEnd t cs = some (s', cs') ∧ Good s' cs' := by
  have hgt := good_between hR hst hg
  obtain ⟨s', ups, he⟩ := endBlocker_never_fails hgt.rankOk
  obtain ⟨hov, hne⟩ := hsafe s' ups he
  obtain ⟨cs', happ, hsync'⟩ := accepted_unless_overflow_or_empty hgt.rankOk hgt.pkInj hgt.sync he hov hne
  refine ⟨s', cs', ?_, rankOk_preserved hgt.rankOk he, pkInj_after (endBlocker_result hgt.rankOk he).2 hgt.pkInj, hsync'⟩
  unfold blockEnd
  rw [he]
  simp only [happ]

/-- a history: the states `t₁, t₂, …` in which the successive EndBlockers run -/
def run : State → Comet.VSet → List State → Option (State × Comet.VSet)
  | s, cs, [] => some (s, cs)
  | _, cs, t :: ts =>
    match blockEnd t cs with
    | some (s', cs') => run s' cs' ts
    | none => none

/-- the history is one of the chain: each `tᵢ₊₁` is `R`-reachable from the state EndBlocker left, and
    no block is one of the excluded cases -/
def Linked (R : State → State → Prop) : State → Comet.VSet → List State → Prop
  | _, _, [] => True
  | s, cs, t :: ts => R s t ∧ SafeBlock t ∧ ∀ s' cs', blockEnd t cs = some (s', cs') → Linked R s' cs' ts

/-- **(5) accumulated from genesis**: along any history of blocks, CometBFT's set — the genesis set
    with every reported change applied — equals the module's record after the last block; no
    EndBlocker fails and no update list is refused -/
theorem sync_after_blocks {R : State → State → Prop} (hR : Between R) :
    ∀ (ts : List State) (s : State) (cs : Comet.VSet), Good s cs → Linked R s cs ts →
      ∃ s' cs', run s cs ts = some (s', cs') ∧ Good s' cs'
  | [], s, cs, hg, _ => ⟨s, cs, rfl, hg⟩
  | t :: ts, s, cs, hg, hl => by
    obtain ⟨hst, hsafe, hrest⟩ := hl
    obtain ⟨s1, cs1, hb, hg1⟩ := good_after_block hR hg hst hsafe
    obtain ⟨s2, cs2, hrun, hg2⟩ := sync_after_blocks hR ts s1 cs1 hg1 (hrest s1 cs1 hb)
    refine ⟨s2, cs2, ?_, hg2⟩
    show (match blockEnd t cs with
      | some (s', cs') => run s' cs' ts
      | none => none) = some (s2, cs2)
    rw [hb]
    exact hrun

theorem Linked.take {R : State → State → Prop} : ∀ (ts : List State) (s : State) (cs : Comet.VSet) (n : Nat),
    Linked R s cs ts → Linked R s cs (ts.take n)
  | [], _, _, n, _ => by simp [Linked]
  | t :: ts, s, cs, 0, _ => by simp [Linked]
  | t :: ts, s, cs, n + 1, hl => by
    rw [List.take_succ_cons]
    exact ⟨hl.1, hl.2.1, fun s' cs' hb => Linked.take ts s' cs' n (hl.2.2 s' cs' hb)⟩

/-- **(5) … after every block**: the statement holds after each prefix of the history -/
theorem sync_after_every_block {R : State → State → Prop} (hR : Between R) (ts : List State) (s : State)
    (cs : Comet.VSet) (hg : Good s cs) (hl : Linked R s cs ts) (n : Nat) :
    ∃ s' cs', run s cs (ts.take n) = some (s', cs') ∧ RankOk s' ∧ Sync s' cs' := by
  obtain ⟨s', cs', hrun, hg'⟩ := sync_after_blocks hR (ts.take n) s cs hg (Linked.take ts s cs n hl)
  exact ⟨s', cs', hrun, hg'.rankOk, hg'.sync⟩

/-- at genesis CometBFT is handed the recorded set itself (C18: the validator updates of InitChain
    are the recorded validator set), so `Sync` holds -/
theorem sync_genesis (s : State) : Sync s (cometOf s) := List.Perm.refl _

/-! ## `RankOk` at committed states: it follows from C18's `Derived` -/

theorem mem_of_vget {s : State} {a : Bytes} {v : Validator} (h : vget s a = some v) : (a, v) ∈ s.validators := by
  unfold vget at h
  cases hf : s.validators.find? (·.1 == a) with
  | none => rw [hf] at h; cases h
  | some e =>
    rw [hf] at h
    have hm := List.mem_of_find?_eq_some hf
    have hk : e.1 = a := by simpa using List.find?_some hf
    have hv : e.2 = v := by simpa using h
    rw [← hk, ← hv]
    exact hm

theorem vget_of_mem {s : State} (hn : (s.validators.map (·.1)).Nodup) {a : Bytes} {v : Validator}
    (h : (a, v) ∈ s.validators) : vget s a = some v := by
  unfold vget
  cases hf : s.validators.find? (·.1 == a) with
  | none =>
    rw [List.find?_eq_none] at hf
    exact absurd (by simp) (hf (a, v) h)
  | some e =>
    have hm := List.mem_of_find?_eq_some hf
    have hk : e.1 = a := by simpa using List.find?_some hf
    obtain ⟨k, w⟩ := e
    simp only at hk
    subst hk
    rw [C18.assoc_unique _ hn k w v hm h]
    rfl

/-- the relation C18 proves for imported (and maintains for committed) states implies the
    precondition of EndBlocker, when validator addresses are distinct -/
theorem rankOk_of_derived {s : State} (hd : C18.Derived s) (hn : (s.validators.map (·.1)).Nodup)
    (hm : 0 ≤ s.params.maxValidators) : RankOk s where
  rank_nodup := by
    rw [List.Nodup, List.pairwise_map]
    refine hd.rank_nodup.imp_of_mem ?_
    intro x y hx hy hne heq
    obtain ⟨p, a⟩ := x
    obtain ⟨q, b⟩ := y
    simp only at heq
    subst heq
    obtain ⟨v, hv, _, hp, _⟩ := (hd.rank_mem p a).mp hx
    obtain ⟨w, hw, _, hq, _⟩ := (hd.rank_mem q a).mp hy
    have := C18.assoc_unique _ hn a v w hv hw
    subst this
    exact hne (by rw [← hp, ← hq])
  rank_rec := by
    intro p a hmem
    obtain ⟨v, hv, hst, hp, hpos⟩ := (hd.rank_mem p a).mp hmem
    exact ⟨v, vget_of_mem hn hv, hp, hpos, hst⟩
  rank_complete := by
    intro a v hv hst hpos
    exact (hd.rank_mem v.power a).mpr ⟨v, mem_of_vget hv, hst, rfl, hpos⟩
  valset_nodup := hd.valset_nodup
  valset_rec := by
    intro a p hmem
    obtain ⟨v, hv, _⟩ := (hd.valset_mem a p).mp hmem
    exact ⟨v, vget_of_mem hn hv⟩
  pending_out := by
    intro a v hv hst hmem
    obtain ⟨p, hp⟩ := exists_of_mem_keys hmem
    obtain ⟨w, hw, hact, _⟩ := (hd.valset_mem a p).mp hp
    have := C18.assoc_unique _ hn a v w (mem_of_vget hv) hw
    subst this
    rw [hst] at hact
    cases hact
  max_nonneg := hm

/-! ## 6. non-vacuity: a concrete state (four validators, a tie in power, `maxValidators = 2`) -/

section Examples

def mkV (pk : Bytes) (pw : Nat) (st : Status) : Validator :=
  { pubkey := pk, power := pw, locking := [], reward := 0, gasReward := 0, status := st, offset := 3, missed := 1,
    jailedUntil := 0 }

/-- `[1]` Active, power raised from 6 to 7; `[2]` Pending with power 5; `[3]` Active with power 5
    (recorded); `[4]` Active with power 3 (recorded).  The ranking is stored unsorted. -/
def exS : State :=
  { (default : State) with
    params := { (default : Params) with maxValidators := 2 },
    validators := [([1], mkV [11] 7 .active), ([2], mkV [12] 5 .pending), ([3], mkV [13] 5 .active),
                   ([4], mkV [14] 3 .active)],
    ranking := [(3, [4]), (5, [2]), (7, [1]), (5, [3])],
    valset := [([1], 6), ([3], 5), ([4], 3)] }

theorem exS_rankOk : RankOk exS where
  rank_nodup := by decide
  rank_rec := by
    intro p a hm
    simp only [exS, List.mem_cons, Prod.mk.injEq, List.not_mem_nil, or_false] at hm
    rcases hm with ⟨rfl, rfl⟩ | ⟨rfl, rfl⟩ | ⟨rfl, rfl⟩ | ⟨rfl, rfl⟩
    · exact ⟨mkV [14] 3 .active, by decide, rfl, by decide, by decide⟩
    · exact ⟨mkV [12] 5 .pending, by decide, rfl, by decide, by decide⟩
    · exact ⟨mkV [11] 7 .active, by decide, rfl, by decide, by decide⟩
    · exact ⟨mkV [13] 5 .active, by decide, rfl, by decide, by decide⟩
  rank_complete := by
    intro a v hv _ _
    have hm := mem_of_vget hv
    simp only [exS, List.mem_cons, Prod.mk.injEq, List.not_mem_nil, or_false] at hm
    rcases hm with ⟨rfl, rfl⟩ | ⟨rfl, rfl⟩ | ⟨rfl, rfl⟩ | ⟨rfl, rfl⟩ <;> decide
  valset_nodup := by decide
  valset_rec := by
    intro a p hm
    simp only [exS, List.mem_cons, Prod.mk.injEq, List.not_mem_nil, or_false] at hm
    rcases hm with ⟨rfl, rfl⟩ | ⟨rfl, rfl⟩ | ⟨rfl, rfl⟩
    · exact ⟨mkV [11] 7 .active, by decide⟩
    · exact ⟨mkV [13] 5 .active, by decide⟩
    · exact ⟨mkV [14] 3 .active, by decide⟩
  pending_out := by
    intro a v hv hst
    have hm := mem_of_vget hv
    simp only [exS, List.mem_cons, Prod.mk.injEq, List.not_mem_nil, or_false] at hm
    rcases hm with ⟨rfl, rfl⟩ | ⟨rfl, rfl⟩ | ⟨rfl, rfl⟩ | ⟨rfl, rfl⟩
    · cases hst
    · decide
    · cases hst
    · cases hst
  max_nonneg := by decide

theorem exS_pkInj : PkInj exS := by
  intro a b va vb ha hb heq
  have hma := mem_of_vget ha
  have hmb := mem_of_vget hb
  simp only [exS, List.mem_cons, Prod.mk.injEq, List.not_mem_nil, or_false] at hma hmb
  rcases hma with ⟨rfl, rfl⟩ | ⟨rfl, rfl⟩ | ⟨rfl, rfl⟩ | ⟨rfl, rfl⟩ <;>
    rcases hmb with ⟨rfl, rfl⟩ | ⟨rfl, rfl⟩ | ⟨rfl, rfl⟩ | ⟨rfl, rfl⟩ <;>
    first | rfl | exact absurd heq (by decide)

/-- the sort: power 7 first, then the tie at power 5 — address `[3]` before `[2]` — then power 3 -/
theorem exS_rankingDesc : rankingDesc exS = [(7, [1]), (5, [3]), (5, [2]), (3, [4])] := by
  simp [rankingDesc, exS, List.mergeSort, List.MergeSort.Internal.splitInTwo, bytesLt]

theorem exS_top : top exS = [(7, [1]), (5, [3])] := by
  unfold top
  rw [exS_rankingDesc]
  rfl

theorem exS_leavers : leavers exS = [([4], 3)] := by
  unfold leavers
  rw [exS_top]
  have : dropKeys (([(7, [1]), (5, [3])] : List (Nat × Bytes)).map (·.2)) exS.valset = [([4], 3)] := by decide
  rw [this]
  simp

/-- the update list: the power change of `[1]` (key `[11]`), the removal of `[4]` (key `[14]`);
    nothing for `[3]`, whose recorded power is current; nothing for `[2]`, which loses the tie -/
theorem exS_updates : updatesOf exS = [⟨[11], 7⟩, ⟨[14], 0⟩] := by
  unfold updatesOf
  rw [exS_top, exS_leavers]
  decide

/-- (2) EndBlocker succeeds on `exS` with exactly these updates -/
example : ∃ s', endBlocker exS = .ok (s', [⟨[11], 7⟩, ⟨[14], 0⟩]) := by
  obtain ⟨s', he, _⟩ := endBlocker_closed_form exS_rankOk
  rw [exS_updates] at he
  exact ⟨s', he⟩

/-- (3a), (3b) on `exS`: the new set is `{[1] ↦ 7, [3] ↦ 5}` (size 2 = max); the tie at power 5 goes to
    `[3]`, the eligible `[2]` stays out and stays Pending; `[4]` left and became Pending -/
example : ∀ s' ups, endBlocker exS = .ok (s', ups) →
    s'.valset.Perm [([1], 7), ([3], 5)] ∧ (s'.valset.length : Int) ≤ s'.params.maxValidators ∧
    [2] ∉ s'.valset.map (·.1) ∧
    vget s' [1] = some (mkV [11] 7 .active) ∧ vget s' [2] = some (mkV [12] 5 .pending) ∧
    vget s' [3] = some (mkV [13] 5 .active) ∧ vget s' [4] = some (mkV [14] 3 .pending) ∧
    RankOk s' := by
  intro s' ups he
  have hperm := valset_is_top exS_rankOk he
  rw [exS_top] at hperm
  have hp := (endBlocker_result exS_rankOk he).2
  have hmem : ∀ b, b ∈ s'.valset.map (·.1) ↔ b ∈ ([[1], [3]] : List Bytes) := by
    intro b
    rw [(hperm.map (·.1)).mem_iff]
    rfl
  refine ⟨hperm, valset_size_le_max exS_rankOk he, by rw [hmem]; decide, ?_, ?_, ?_, ?_, rankOk_preserved exS_rankOk he⟩
  · rw [(records_after exS_rankOk he [1]).1 (by rw [hmem]; decide)]; decide
  · rw [(records_after exS_rankOk he [2]).2.2 (by rw [hmem]; decide) (by decide)]; decide
  · rw [(records_after exS_rankOk he [3]).1 (by rw [hmem]; decide)]; decide
  · rw [(records_after exS_rankOk he [4]).2.1 (by rw [hmem]; decide) (by decide)]; decide

theorem exS_safe : SafeBlock exS := by
  intro s' ups he
  constructor
  · rw [total_after exS_rankOk he, exS_top]; decide
  · intro h0
    have := (empty_after_iff exS_rankOk he).mp h0
    rw [exS_top] at this
    cases this

/-- (4) on `exS`: CometBFT, holding the recorded set, accepts the updates and ends up with the new
    recorded set -/
example : ∀ s' ups, endBlocker exS = .ok (s', ups) →
    ∃ cs', Comet.apply (cometOf exS) (ups.map (fun u => (u.pubkey, Comet.toInt64 u.power))) = .ok cs' ∧ Sync s' cs' := by
  intro s' ups he
  obtain ⟨h1, h2⟩ := exS_safe s' ups he
  exact accepted_unless_overflow_or_empty exS_rankOk exS_pkInj (sync_genesis exS) he h1 h2

/-- the same by evaluation: `{[11] ↦ 6, [13] ↦ 5, [14] ↦ 3}` becomes `{[11] ↦ 7, [13] ↦ 5}` -/
example : (Comet.apply (cometOf exS) ((updatesOf exS).map (fun u => (u.pubkey, Comet.toInt64 u.power)))).toOption
    = some [([11], 7), ([13], 5)] := by
  rw [exS_updates]
  decide +kernel

/-- (5) on `exS`: the hypotheses of the chain theorem are satisfiable (`R` = nothing happens between
    two EndBlockers), here for a history of one block -/
example : ∃ s' cs', run exS (cometOf exS) [exS] = some (s', cs') ∧ Good s' cs' := by
  have hR : Between (fun s t => t = s) :=
    ⟨fun s t h1 h2 => h1 ▸ h2, fun s t h1 _ h3 => h1 ▸ h3, fun s t h1 => h1 ▸ rfl, fun s t h1 a _ => h1 ▸ rfl⟩
  exact sync_after_blocks hR [exS] exS (cometOf exS) ⟨exS_rankOk, exS_pkInj, sync_genesis exS⟩
    ⟨rfl, exS_safe, fun _ _ _ => trivial⟩

/-- the state after the first loop: `[1]` re-recorded at the end with power 7, `[4]` still recorded -/
def exS1 : State := { exS with valset := [([3], 5), ([4], 3), ([1], 7)] }

/-- the state after EndBlocker -/
def exS2 : State :=
  { exS with
    validators := [([1], mkV [11] 7 .active), ([2], mkV [12] 5 .pending), ([3], mkV [13] 5 .active),
                   ([4], mkV [14] 3 .pending)],
    valset := [([3], 5), ([1], 7)] }

theorem exS_phase : C07.rankPhase exS = .ok (exS1, [([4], 3)], [⟨[11], 7⟩]) := by
  unfold C07.rankPhase
  rw [exS_rankingDesc]
  rfl

/-- EndBlocker on `exS`, by evaluation -/
theorem exS_endBlocker : endBlocker exS = .ok (exS2, [⟨[11], 7⟩, ⟨[14], 0⟩]) := by
  rw [C07.endBlocker_eq]
  unfold C07.endBlockerWith
  rw [exS_phase]
  simp only [List.mergeSort_singleton]
  rfl

theorem ok_of_toOption {α} {r : Except String α} {x : α} (h : r.toOption = some x) : r = .ok x := by
  cases r with
  | error e => cases h
  | ok y => cases h; rfl

/-- **Why `Sync` is equality of sets (`Perm`) and not of lists.**  With `Sync` read as literal list
    equality the statement of (4) is FALSE of the model: starting from `cs = cometOf exS` (literally),
    EndBlocker re-records the changed member `[1]` at the *end* of its list while CometBFT updates it
    *in place*; the two lists are permutations of one another and differ.  (CometBFT re-sorts its set
    after every update, so only the set matters; cf. C07 `comet_apply_order_insensitive`.) -/
theorem sync_as_list_equality_fails :
    ∃ s' ups cs', endBlocker exS = .ok (s', ups) ∧
      Comet.apply (cometOf exS) (ups.map (fun u => (u.pubkey, Comet.toInt64 u.power))) = .ok cs' ∧
      cs' ≠ cometOf s' ∧ cs'.Perm (cometOf s') := by
  refine ⟨exS2, _, [([11], 7), ([13], 5)], exS_endBlocker, ok_of_toOption (by decide +kernel), by decide, ?_⟩
  have : cometOf exS2 = [([13], 5), ([11], 7)] := by decide
  rw [this]
  exact List.Perm.swap _ _ _

end Examples

end Goat.C13H
