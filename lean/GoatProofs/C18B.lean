/-
  C18B — exporting the application state and initialising a fresh chain from it reproduces the same
  state: the modules x/bitcoin (the bridge store) and x/goat (recorded execution head, beacon root).
  Companion of GoatProofs/C18.lean (x/locking, x/relayer).  Model: GoatModel/GenesisBtc.lean.

  Proved, for every bridge store satisfying the explicit, decidable invariant `BWf` (valid run-time
  parameters, valid and registered key, 32-byte hashes on a gap-free range of heights ending at the
  tip, txids that fit the key codec, no repeated keys) and for every goat-module state:
    1  `initGenesis_ok_iff`        exact list of what InitGenesis demands + the store it writes
       `btc_import_export`         export ∘ import = id on accepted genesis files (up to store order;
       `btc_import_export_exact`   verbatim on a genesis in export form)
    2  `btc_export_import`         import ∘ export succeeds, reproduces the store (`BReproduces`: equal as
                                   finite maps), second export = first export
    3  `reimported_hashes`, `hashes_below_gap_are_lost`, `tip_hash_missing_blocks_import`,
       `import_needs_valid_params`, `tax_params_block_import`      what the round trip loses or refuses
    4  `btcRoundTripOk_iff`, `btcRoundTripOk_of`, `bwfOk_iff`, `btcRoundTripOk_only_if`,
       `btcRoundTripOk_iff_BWf`    the executable checks are exactly the theorems' statements, and `BWf`
                                   is not only sufficient but necessary
    5  `goat_export_import`, `goat_import_export`, `goatRoundTripOk_iff`, `goatRoundTripOk_true`
    +  `depLt_is_store_order`      the order used for the deposits is the byte order of the raw store keys
    +  `newBlockHashes_keeps_hash_clauses`   the block-hash clauses of `BWf` are kept by NewBlockHashes
  Not proved here: that every reachable store satisfies `BWf`.  It does NOT (finding F7c below); the
  block-hash clauses are maintained by NewBlockHashes, key registration by NewPubkey (`rel.pubkeys` is
  extended in the same step that changes the key), duplicate-freeness by the `Map.Set` semantics.

  Findings (namespace `Finding`, proved by evaluation):
    F7c `runtime_tax_params_block_import`   ProcessBridgeRequest stores tax parameters that
        `Params.Validate` rejects ((0, max>0), (rate>0, 0), max > 1e8); the export of such a store makes
        InitGenesis panic.  Hence `export_import_needs_BWf`: "import ∘ export succeeds for every store"
        is FALSE of the model; `btc_export_import` is the strongest true statement (see
        `btcRoundTripOk_iff_BWf`).
    `duplicate_ids_accepted_silently`   InitGenesis has no duplicate detection: the later entry wins.
    `max_tip_cannot_be_reexported`      `BlockTip + 1` wraps: tip 2^64-1 exports no block hash.
    `Example.gap_loses_data`            hashes below a missing height are dropped by the export.
-/
import GoatModel.GenesisBtc
import GoatProofs.C18
import GoatProofs.C06
import GoatProofs.Lemmas.Bitcoin
namespace Goat.C18B
open Goat.Bitcoin Goat.GenesisBtc
open Goat.Locking (bytesLt)

/-! ## finite maps -/

theorem nlookup_eq {α} (m : List (Nat × α)) (k : Nat) : nlookup m k = klookup m k := rfl
theorem ninsert_eq {α} (m : List (Nat × α)) (k : Nat) (v : α) : ninsert m k v = kinsert m k v := rfl

section maps
variable {κ α : Type} [BEq κ] [LawfulBEq κ]

theorem klookup_cons_eq (e : κ × α) (es : List (κ × α)) (k : κ) (h : e.1 = k) : klookup (e :: es) k = some e.2 := by
  unfold klookup
  rw [List.find?_cons]
  simp [h]

theorem klookup_cons_ne (e : κ × α) (es : List (κ × α)) (k : κ) (h : e.1 ≠ k) : klookup (e :: es) k = klookup es k := by
  unfold klookup
  rw [List.find?_cons]
  have : (e.1 == k) = false := by simpa using h
  simp [this]

/-- a successful `Get` returns a stored entry -/
theorem mem_of_klookup (m : List (κ × α)) (k : κ) (v : α) (h : klookup m k = some v) : (k, v) ∈ m := by
  induction m with
  | nil => simp [klookup] at h
  | cons e es ih =>
    by_cases he : e.1 = k
    · rw [klookup_cons_eq e es k he] at h
      simp only [Option.some.injEq] at h
      rw [← he, ← h]; exact List.mem_cons_self ..
    · rw [klookup_cons_ne e es k he] at h
      exact List.mem_cons_of_mem _ (ih h)

theorem klookup_eq_none_iff (m : List (κ × α)) (k : κ) : klookup m k = none ↔ k ∉ m.map (·.1) := by
  induction m with
  | nil => simp [klookup]
  | cons e es ih =>
    by_cases he : e.1 = k
    · rw [klookup_cons_eq e es k he]; simp [he]
    · rw [klookup_cons_ne e es k he, ih]
      simp only [List.map_cons, List.mem_cons, not_or]
      exact ⟨fun h => ⟨fun hc => he hc.symm, h⟩, fun h => h.2⟩

theorem klookup_isSome_of_mem (m : List (κ × α)) (e : κ × α) (h : e ∈ m) : (klookup m e.1).isSome = true := by
  cases hl : klookup m e.1 with
  | some v => rfl
  | none => exact absurd (List.mem_map.2 ⟨e, h, rfl⟩) ((klookup_eq_none_iff m e.1).1 hl)

/-- with duplicate-free keys `Get` returns exactly the stored entries -/
theorem klookup_eq_some_iff (m : List (κ × α)) (hn : (m.map (·.1)).Nodup) (k : κ) (v : α) :
    klookup m k = some v ↔ (k, v) ∈ m := by
  refine ⟨mem_of_klookup m k v, fun h => ?_⟩
  cases hl : klookup m k with
  | none => exact absurd (List.mem_map.2 ⟨(k, v), h, rfl⟩) ((klookup_eq_none_iff m k).1 hl)
  | some w => rw [C18.assoc_unique m hn k w v (mem_of_klookup m k w hl) h]

/-- association lists with duplicate-free keys and the same entries denote the same map -/
theorem klookup_ext (m m' : List (κ × α)) (hn : (m.map (·.1)).Nodup) (hn' : (m'.map (·.1)).Nodup)
    (hm : ∀ e, e ∈ m' ↔ e ∈ m) (k : κ) : klookup m' k = klookup m k := by
  cases hl : klookup m k with
  | some v => exact (klookup_eq_some_iff m' hn' k v).2 ((hm _).2 (mem_of_klookup m k v hl))
  | none =>
    cases hl' : klookup m' k with
    | none => rfl
    | some w =>
      have := (klookup_eq_some_iff m hn k w).2 ((hm _).1 (mem_of_klookup m' k w hl'))
      rw [hl] at this; cases this

/-- … and conversely -/
theorem mem_iff_of_klookup (m m' : List (κ × α)) (hn : (m.map (·.1)).Nodup) (hn' : (m'.map (·.1)).Nodup)
    (h : ∀ k, klookup m' k = klookup m k) (e : κ × α) : e ∈ m' ↔ e ∈ m := by
  obtain ⟨k, v⟩ := e
  rw [← klookup_eq_some_iff m hn, ← klookup_eq_some_iff m' hn', h]

theorem kinsert_fresh (m : List (κ × α)) (k : κ) (v : α) (h : k ∉ m.map (·.1)) : kinsert m k v = m ++ [(k, v)] := by
  have : m.any (fun e => e.1 == k) = false := by
    rw [List.any_eq_false]
    intro e he hc
    exact h (List.mem_map.2 ⟨e, he, by simpa using hc⟩)
  simp [kinsert, this]

/-- `Set` over entries with fresh, distinct keys appends them -/
theorem kinsert_fold_fresh : ∀ (l acc : List (κ × α)), (acc.map (·.1) ++ l.map (·.1)).Nodup →
    l.foldl (fun m e => kinsert m e.1 e.2) acc = acc ++ l
  | [], acc, _ => by simp
  | e :: es, acc, hn => by
    have hfresh : e.1 ∉ acc.map (·.1) := by
      intro hm
      rw [List.nodup_append] at hn
      exact hn.2.2 _ hm _ (by simp) rfl
    rw [List.foldl_cons, kinsert_fresh acc e.1 e.2 hfresh, kinsert_fold_fresh es]
    · simp
    · simpa [List.append_assoc] using hn

theorem kinsert_keys (m : List (κ × α)) (k : κ) (v : α) :
    (kinsert m k v).map (·.1) = if k ∈ m.map (·.1) then m.map (·.1) else m.map (·.1) ++ [k] := by
  by_cases h : k ∈ m.map (·.1)
  · have hany : m.any (fun e => e.1 == k) = true := by
      obtain ⟨e, he, hk⟩ := List.mem_map.1 h
      exact List.any_eq_true.2 ⟨e, he, by simp [hk]⟩
    rw [if_pos h]
    simp only [kinsert, hany, if_true, List.map_map]
    apply List.map_congr_left
    intro e _
    by_cases hek : e.1 = k
    · simp [hek]
    · have : (e.1 == k) = false := by simpa using hek
      simp [this]
  · rw [if_neg h, kinsert_fresh m k v h]; simp

/-- `Set` never creates a second entry for a key -/
theorem kinsert_nodup (m : List (κ × α)) (k : κ) (v : α) (hn : (m.map (·.1)).Nodup) :
    ((kinsert m k v).map (·.1)).Nodup := by
  rw [kinsert_keys]
  by_cases h : k ∈ m.map (·.1)
  · rw [if_pos h]; exact hn
  · rw [if_neg h, List.nodup_append]
    refine ⟨hn, by simp, ?_⟩
    intro a ha b hb
    simp only [List.mem_singleton] at hb
    rw [hb]; intro hc; exact h (hc ▸ ha)

theorem kinsert_fold_nodup {β} (f : β → κ) (g : β → α) : ∀ (l : List β) (acc : List (κ × α)), (acc.map (·.1)).Nodup →
    ((l.foldl (fun m e => kinsert m (f e) (g e)) acc).map (·.1)).Nodup
  | [], _, hn => hn
  | e :: es, acc, hn => by
    rw [List.foldl_cons]
    exact kinsert_fold_nodup f g es _ (kinsert_nodup acc (f e) (g e) hn)

theorem mapEq_iff [BEq α] [LawfulBEq α] (m m' : List (κ × α)) :
    mapEq m m' = true ↔ ∀ k, klookup m' k = klookup m k := by
  unfold mapEq
  rw [List.all_eq_true]
  constructor
  · intro h k
    by_cases hk : k ∈ (m ++ m').map (·.1)
    · obtain ⟨e, he, rfl⟩ := List.mem_map.1 hk
      simpa using h e he
    · simp only [List.map_append, List.mem_append, not_or] at hk
      rw [(klookup_eq_none_iff m k).2 hk.1, (klookup_eq_none_iff m' k).2 hk.2]
  · intro h e _
    simp [h e.1]

end maps

/-! ## strict total orders on keys, and the iteration order of the export -/

/-- a strict total order given as a Boolean test -/
structure StrictOrder {κ : Type} (lt : κ → κ → Bool) : Prop where
  irrefl : ∀ a, lt a a = false
  trans : ∀ a b c, lt a b = true → lt b c = true → lt a c = true
  tri : ∀ a b, lt a b = true ∨ a = b ∨ lt b a = true

theorem StrictOrder.asymm {κ : Type} {lt : κ → κ → Bool} (h : StrictOrder lt) (a b : κ) (hab : lt a b = true) :
    lt b a = false := by
  cases hba : lt b a with
  | false => rfl
  | true => have := h.trans a b a hab hba; rw [h.irrefl] at this; cases this

theorem strict_natLt : StrictOrder natLt :=
  ⟨fun a => by simp [natLt], fun a b c => by simp only [natLt, decide_eq_true_eq]; omega,
   fun a b => by simp only [natLt, decide_eq_true_eq]; omega⟩

theorem strict_natGt : StrictOrder natGt :=
  ⟨fun a => by simp [natGt], fun a b c => by simp only [natGt, decide_eq_true_eq]; omega,
   fun a b => by simp only [natGt, decide_eq_true_eq]; omega⟩

theorem bytesLt_tri : ∀ a b : Bytes, bytesLt a b = true ∨ a = b ∨ bytesLt b a = true
  | [], [] => Or.inr (Or.inl rfl)
  | [], _ :: _ => Or.inl (by simp [bytesLt])
  | _ :: _, [] => Or.inr (Or.inr (by simp [bytesLt]))
  | x :: xs, y :: ys => by
    unfold bytesLt
    by_cases h1 : x < y
    · simp [h1]
    · by_cases h2 : y < x
      · simp [h2]
      · have e : x = y := UInt8.le_antisymm (UInt8.not_lt.1 h2) (UInt8.not_lt.1 h1)
        subst e
        simp only [h1, if_false]
        rcases bytesLt_tri xs ys with h | h | h
        · exact Or.inl h
        · exact Or.inr (Or.inl (by rw [h]))
        · exact Or.inr (Or.inr h)

theorem strict_bytesLt : StrictOrder bytesLt :=
  ⟨C18.bytesLt_irrefl, fun a b c hab hbc => by
    rcases C18.bytesLt_cotrans a b c hab with h | h
    · rw [C18.bytesLt_asymm b c hbc] at h; cases h
    · exact h, bytesLt_tri⟩

theorem strict_lex {α β : Type} [BEq α] [LawfulBEq α] {lt1 : α → α → Bool} {lt2 : β → β → Bool}
    (h1 : StrictOrder lt1) (h2 : StrictOrder lt2) : StrictOrder (lexLt lt1 lt2) := by
  refine ⟨?_, ?_, ?_⟩
  · intro a
    simp [lexLt, h1.irrefl, h2.irrefl]
  · intro a b c hab hbc
    simp only [lexLt, Bool.or_eq_true, Bool.and_eq_true, beq_iff_eq] at hab hbc ⊢
    rcases hab with hab | ⟨eab, hab⟩
    · rcases hbc with hbc | ⟨ebc, _⟩
      · exact Or.inl (h1.trans _ _ _ hab hbc)
      · exact Or.inl (ebc ▸ hab)
    · rcases hbc with hbc | ⟨ebc, hbc⟩
      · exact Or.inl (eab ▸ hbc)
      · exact Or.inr ⟨eab.trans ebc, h2.trans _ _ _ hab hbc⟩
  · intro a b
    simp only [lexLt, Bool.or_eq_true, Bool.and_eq_true, beq_iff_eq]
    rcases h1.tri a.1 b.1 with h | h | h
    · exact Or.inl (Or.inl h)
    · rcases h2.tri a.2 b.2 with h' | h' | h'
      · exact Or.inl (Or.inr ⟨h, h'⟩)
      · exact Or.inr (Or.inl (Prod.ext h h'))
      · exact Or.inr (Or.inr (Or.inr ⟨h.symm, h'⟩))
    · exact Or.inr (Or.inr (Or.inl h))

theorem strict_pullback {κ κ' : Type} (f : κ → κ') (hf : ∀ a b, f a = f b → a = b) {lt : κ' → κ' → Bool}
    (h : StrictOrder lt) : StrictOrder (fun a b => lt (f a) (f b)) :=
  ⟨fun a => h.irrefl _, fun a b c => h.trans _ _ _, fun a b => by
    rcases h.tri (f a) (f b) with h' | h' | h'
    · exact Or.inl h'
    · exact Or.inr (Or.inl (hf a b h'))
    · exact Or.inr (Or.inr h')⟩

/-- the store order of `Deposited` keys is a strict total order -/
theorem strict_depLt : StrictOrder depLt :=
  strict_pullback depKeyOf (fun a b h => by
    simp only [depKeyOf, Prod.mk.injEq] at h
    exact Prod.ext h.2.1 h.2.2) (strict_lex strict_natLt (strict_lex strict_bytesLt strict_natLt))

section sorting
variable {κ α : Type} {lt : κ → κ → Bool}

theorem sortBy_cons (x : κ × α) (l : List (κ × α)) : sortBy lt (x :: l) = insertBy lt x (sortBy lt l) := rfl

theorem insertBy_perm (x : κ × α) : ∀ l : List (κ × α), (insertBy lt x l).Perm (x :: l)
  | [] => List.Perm.refl _
  | y :: ys => by
    unfold insertBy
    by_cases h : lt x.1 y.1 = true
    · rw [if_pos h]
    · rw [if_neg h]
      exact ((insertBy_perm x ys).cons y).trans (List.Perm.swap x y ys)

/-- the export lists every entry exactly once -/
theorem sortBy_perm : ∀ l : List (κ × α), (sortBy lt l).Perm l
  | [] => List.Perm.refl _
  | x :: xs => by
    rw [sortBy_cons]
    exact (insertBy_perm x _).trans ((sortBy_perm xs).cons x)

theorem sortBy_keys_nodup (l : List (κ × α)) (hn : (l.map (·.1)).Nodup) : ((sortBy lt l).map (·.1)).Nodup :=
  (((sortBy_perm l).map _).nodup_iff).2 hn

theorem insertBy_sorted (h : StrictOrder lt) (x : κ × α) : ∀ l : List (κ × α),
    l.Pairwise (fun a b => lt b.1 a.1 = false) → (insertBy lt x l).Pairwise (fun a b => lt b.1 a.1 = false)
  | [], _ => by simp [insertBy]
  | y :: ys, hs => by
    rw [List.pairwise_cons] at hs
    unfold insertBy
    by_cases hxy : lt x.1 y.1 = true
    · rw [if_pos hxy, List.pairwise_cons]
      refine ⟨?_, List.pairwise_cons.2 hs⟩
      intro z hz
      rcases List.mem_cons.1 hz with hz | hz
      · rw [hz]; exact h.asymm _ _ hxy
      · cases hzx : lt z.1 x.1 with
        | false => rfl
        | true =>
          have := h.trans _ _ _ hzx hxy
          rw [hs.1 z hz] at this; cases this
    · rw [if_neg hxy, List.pairwise_cons]
      refine ⟨?_, insertBy_sorted h x ys hs.2⟩
      intro z hz
      rcases List.mem_cons.1 ((insertBy_perm x ys).mem_iff.1 hz) with hz | hz
      · rw [hz]; simpa using hxy
      · exact hs.1 z hz

theorem sortBy_sorted (h : StrictOrder lt) : ∀ l : List (κ × α), (sortBy lt l).Pairwise (fun a b => lt b.1 a.1 = false)
  | [] => List.Pairwise.nil
  | x :: xs => by rw [sortBy_cons]; exact insertBy_sorted h x _ (sortBy_sorted h xs)

/-- with duplicate-free keys the exported list is strictly increasing in the iteration order -/
theorem sortBy_strict (h : StrictOrder lt) (l : List (κ × α)) (hn : (l.map (·.1)).Nodup) :
    (sortBy lt l).Pairwise (fun a b => lt a.1 b.1 = true) := by
  have hn' := sortBy_keys_nodup (lt := lt) l hn
  rw [List.Nodup, List.pairwise_map] at hn'
  refine ((sortBy_sorted h l).and hn').imp ?_
  rintro a b ⟨h1, h2⟩
  rcases h.tri a.1 b.1 with h' | h' | h'
  · exact h'
  · exact absurd h' h2
  · rw [h1] at h'; cases h'

/-- a list already in iteration order is exported as it stands -/
theorem sortBy_id : ∀ l : List (κ × α), l.Pairwise (fun a b => lt a.1 b.1 = true) → sortBy lt l = l
  | [], _ => rfl
  | x :: xs, hs => by
    rw [List.pairwise_cons] at hs
    rw [sortBy_cons, sortBy_id xs hs.2]
    cases xs with
    | nil => rfl
    | cons y ys => unfold insertBy; rw [if_pos (hs.1 y (List.mem_cons_self ..))]

theorem sortBy_idem (h : StrictOrder lt) (l : List (κ × α)) (hn : (l.map (·.1)).Nodup) :
    sortBy lt (sortBy lt l) = sortBy lt l := sortBy_id _ (sortBy_strict h l hn)

theorem nodup_of_strict (h : StrictOrder lt) (l : List (κ × α)) (hs : l.Pairwise (fun a b => lt a.1 b.1 = true)) :
    (l.map (·.1)).Nodup := by
  rw [List.Nodup, List.pairwise_map]
  exact hs.imp (fun hlt heq => by rw [heq, h.irrefl] at hlt; cases hlt)

/-- the exported list depends only on the map, not on the order of the association list -/
theorem sortBy_ext (h : StrictOrder lt) (l l' : List (κ × α)) (hn : (l.map (·.1)).Nodup) (hn' : (l'.map (·.1)).Nodup)
    (hm : ∀ e, e ∈ l' ↔ e ∈ l) : sortBy lt l' = sortBy lt l := by
  apply C18.sorted_ext (fun a b : κ × α => lt a.1 b.1 = true)
    (fun a ha => by rw [h.irrefl] at ha; cases ha)
    (fun a b hab hba => by rw [h.asymm _ _ hab] at hba; cases hba)
    _ _ (sortBy_strict h l' hn') (sortBy_strict h l hn)
  intro x
  rw [(sortBy_perm l').mem_iff, (sortBy_perm l).mem_iff, hm]

end sorting

/-! ## block hashes: the downward walk of the export, the upward loop of the import -/

/-- the `BlockHashes` map written by the import loop for tip `n - 1`: the i-th hash at height
    `n - 1 - i` -/
def stampN : Nat → List Bytes → List (Nat × Bytes)
  | _, [] => []
  | 0, _ :: _ => []
  | n + 1, h :: r => (n, h) :: stampN n r

theorem stampN_nil (n : Nat) : stampN n [] = [] := by cases n <;> rfl

theorem stampN_keys_lt : ∀ (hs : List Bytes) (n : Nat), ∀ e ∈ stampN n hs, e.1 < n
  | [], n, e, he => by rw [stampN_nil] at he; cases he
  | _ :: _, 0, e, he => by simp [stampN] at he
  | h :: r, n + 1, e, he => by
    simp only [stampN, List.mem_cons] at he
    rcases he with he | he
    · rw [he]; exact Nat.lt_succ_self n
    · exact Nat.lt_succ_of_lt (stampN_keys_lt r n e he)

theorem stampN_keys_nodup : ∀ (hs : List Bytes) (n : Nat), ((stampN n hs).map (·.1)).Nodup
  | [], n => by rw [stampN_nil]; exact List.nodup_nil
  | _ :: _, 0 => by simp [stampN]
  | h :: r, n + 1 => by
    simp only [stampN, List.map_cons, List.nodup_cons]
    refine ⟨?_, stampN_keys_nodup r n⟩
    intro hm
    obtain ⟨e, he, hk⟩ := List.mem_map.1 hm
    have := stampN_keys_lt r n e he
    omega

theorem nlookup_stampN_ge (hs : List Bytes) (n k : Nat) (h : n ≤ k) : nlookup (stampN n hs) k = none := by
  rw [nlookup_eq, klookup_eq_none_iff]
  intro hm
  obtain ⟨e, he, hk⟩ := List.mem_map.1 hm
  have := stampN_keys_lt hs n e he
  omega

theorem exportHashes_zero (m : List (Nat × Bytes)) : exportHashes m 0 = [] := rfl
theorem exportHashes_succ_none (m : List (Nat × Bytes)) (i : Nat) (h : nlookup m i = none) :
    exportHashes m (i + 1) = [] := by simp [exportHashes, h]
theorem exportHashes_succ_some (m : List (Nat × Bytes)) (i : Nat) (x : Bytes) (h : nlookup m i = some x) :
    exportHashes m (i + 1) = x :: exportHashes m i := by simp [exportHashes, h]

/-- the walk reads only heights below its starting point -/
theorem exportHashes_congr (m m' : List (Nat × Bytes)) : ∀ n, (∀ k, k < n → nlookup m k = nlookup m' k) →
    exportHashes m n = exportHashes m' n
  | 0, _ => rfl
  | i + 1, h => by
    have hi := h i (Nat.lt_succ_self i)
    cases hl : nlookup m' i with
    | none => rw [exportHashes_succ_none m i (hi.trans hl), exportHashes_succ_none m' i hl]
    | some x =>
      rw [exportHashes_succ_some m i x (hi.trans hl), exportHashes_succ_some m' i x hl,
        exportHashes_congr m m' i (fun k hk => h k (Nat.lt_succ_of_lt hk))]

theorem exportHashes_length_le (m : List (Nat × Bytes)) : ∀ n, (exportHashes m n).length ≤ n
  | 0 => Nat.le_refl 0
  | i + 1 => by
    cases hl : nlookup m i with
    | none => rw [exportHashes_succ_none m i hl]; exact Nat.zero_le _
    | some x =>
      rw [exportHashes_succ_some m i x hl]
      exact Nat.succ_le_succ (exportHashes_length_le m i)

/-- every exported hash is a stored one -/
theorem exportHashes_mem (m : List (Nat × Bytes)) : ∀ n, ∀ x ∈ exportHashes m n, ∃ k, k < n ∧ (k, x) ∈ m
  | 0, x, hx => by cases hx
  | i + 1, x, hx => by
    cases hl : nlookup m i with
    | none => rw [exportHashes_succ_none m i hl] at hx; cases hx
    | some y =>
      rw [exportHashes_succ_some m i y hl] at hx
      rcases List.mem_cons.1 hx with hx | hx
      · exact ⟨i, Nat.lt_succ_self i, hx ▸ mem_of_klookup m i y hl⟩
      · obtain ⟨k, hk, hm⟩ := exportHashes_mem m i x hx
        exact ⟨k, Nat.lt_succ_of_lt hk, hm⟩

/-- shape of the walk: it covers a block of present heights right below its start and ends either
    at height 0 or at a missing height -/
theorem exportHashes_spec (m : List (Nat × Bytes)) : ∀ n,
    (∀ j, n ≤ j + (exportHashes m n).length → j < n → (nlookup m j).isSome = true) ∧
    ((exportHashes m n).length < n → nlookup m (n - (exportHashes m n).length - 1) = none)
  | 0 => ⟨fun j _ hj => absurd hj (Nat.not_lt_zero j), fun h => absurd h (Nat.not_lt_zero _)⟩
  | i + 1 => by
    cases hl : nlookup m i with
    | none =>
      rw [exportHashes_succ_none m i hl]
      refine ⟨fun j h1 h2 => ?_, fun _ => ?_⟩
      · simp only [List.length_nil, Nat.add_zero] at h1; omega
      · simpa using hl
    | some x =>
      rw [exportHashes_succ_some m i x hl]
      obtain ⟨ih1, ih2⟩ := exportHashes_spec m i
      simp only [List.length_cons]
      refine ⟨fun j h1 h2 => ?_, fun h => ?_⟩
      · by_cases hji : j = i
        · rw [hji, hl]; rfl
        · exact ih1 j (by omega) (by omega)
      · have e : i + 1 - ((exportHashes m i).length + 1) - 1 = i - (exportHashes m i).length - 1 := by omega
        rw [e]; exact ih2 (by omega)

/-- export after import returns the imported hashes -/
theorem exportHashes_stampN : ∀ (hs : List Bytes) (n : Nat), hs.length ≤ n → exportHashes (stampN n hs) n = hs
  | [], n, _ => by
    rw [stampN_nil]
    cases n with
    | zero => rfl
    | succ i => exact exportHashes_succ_none [] i rfl
  | _ :: _, 0, h => by simp at h
  | x :: r, n + 1, h => by
    have hl : nlookup (stampN (n + 1) (x :: r)) n = some x := by
      rw [nlookup_eq]; exact klookup_cons_eq (n, x) _ n rfl
    rw [exportHashes_succ_some _ n x hl]
    congr 1
    rw [exportHashes_congr (stampN (n + 1) (x :: r)) (stampN n r) n]
    · exact exportHashes_stampN r n (by simpa using h)
    · intro k hk
      rw [nlookup_eq, nlookup_eq]
      exact klookup_cons_ne (n, x) _ k (by simp only; omega)

/-- re-import of the walk: heights reached by the walk keep their hash -/
theorem nlookup_stamp_export_some (m : List (Nat × Bytes)) : ∀ (n k : Nat), k < n →
    (∀ j, k ≤ j → j < n → (nlookup m j).isSome = true) → nlookup (stampN n (exportHashes m n)) k = nlookup m k
  | 0, k, hk, _ => absurd hk (Nat.not_lt_zero k)
  | i + 1, k, hk, hall => by
    cases hl : nlookup m i with
    | none => have := hall i (by omega) (Nat.lt_succ_self i); rw [hl] at this; cases this
    | some x =>
      rw [exportHashes_succ_some m i x hl]
      by_cases hki : i = k
      · rw [← hki, hl, nlookup_eq]; exact klookup_cons_eq (i, x) _ i rfl
      · have : nlookup (stampN (i + 1) (x :: exportHashes m i)) k = nlookup (stampN i (exportHashes m i)) k := by
          rw [nlookup_eq, nlookup_eq]; exact klookup_cons_ne (i, x) _ k hki
        rw [this]
        exact nlookup_stamp_export_some m i k (by omega) (fun j h1 h2 => hall j h1 (Nat.lt_succ_of_lt h2))

/-- re-import of the walk: nothing at or below a missing height survives -/
theorem nlookup_stamp_export_none (m : List (Nat × Bytes)) : ∀ (n k j : Nat), k ≤ j → j < n → nlookup m j = none →
    nlookup (stampN n (exportHashes m n)) k = none
  | 0, _, j, _, hj, _ => absurd hj (Nat.not_lt_zero j)
  | i + 1, k, j, hkj, hj, hnone => by
    cases hl : nlookup m i with
    | none => rw [exportHashes_succ_none m i hl, stampN_nil]; rfl
    | some x =>
      rw [exportHashes_succ_some m i x hl]
      have hji : j ≠ i := by intro e; rw [e, hl] at hnone; cases hnone
      have : nlookup (stampN (i + 1) (x :: exportHashes m i)) k = nlookup (stampN i (exportHashes m i)) k := by
        rw [nlookup_eq, nlookup_eq]; exact klookup_cons_ne (i, x) _ k (by simp only; omega)
      rw [this]
      exact nlookup_stamp_export_none m i k j hkj (by omega) hnone

/-- the import loop in closed form; `acc` holds only heights the loop will not write again -/
theorem initHashes_ok_iff_gen (tip : Nat) : ∀ (hs : List Bytes) (idx : Nat) (acc r : List (Nat × Bytes)),
    (∀ e ∈ acc, tip + 1 ≤ e.1 + idx) →
    (initHashes tip hs idx acc = .ok r ↔
      (∀ h ∈ hs, h.length = 32) ∧ (hs ≠ [] → idx + hs.length ≤ tip + 1) ∧ r = acc ++ stampN (tip + 1 - idx) hs)
  | [], idx, acc, r, _ => by
    simp only [initHashes, Outcome.ok.injEq, List.not_mem_nil, false_implies, implies_true, ne_eq,
      not_true_eq_false, true_and, stampN_nil, List.append_nil]
    exact eq_comm
  | h :: rest, idx, acc, r, hacc => by
    unfold initHashes
    by_cases hlen : h.length ≠ 32
    · rw [if_pos hlen]
      constructor
      · intro hc; cases hc
      · intro hc; exact absurd (hc.1 h (List.mem_cons_self ..)) hlen
    · rw [if_neg hlen]
      have hlen' : h.length = 32 := by omega
      by_cases hidx : tip < idx
      · rw [if_pos hidx]
        constructor
        · intro hc; cases hc
        · intro hc
          have := hc.2.1 (by simp)
          simp only [List.length_cons] at this; omega
      · rw [if_neg hidx]
        have hfresh : tip - idx ∉ acc.map (·.1) := by
          intro hm
          obtain ⟨e, he, hk⟩ := List.mem_map.1 hm
          have := hacc e he
          omega
        rw [ninsert_eq, kinsert_fresh acc (tip - idx) h hfresh]
        rw [initHashes_ok_iff_gen tip rest (idx + 1) (acc ++ [(tip - idx, h)]) r (by
          intro e he
          rcases List.mem_append.1 he with he | he
          · have := hacc e he; omega
          · simp only [List.mem_singleton] at he; rw [he]; simp only; omega)]
        have e1 : tip + 1 - idx = (tip - idx) + 1 := by omega
        have e2 : tip + 1 - (idx + 1) = tip - idx := by omega
        rw [e1, e2]
        simp only [stampN, List.mem_cons, forall_eq_or_imp, hlen', true_and, ne_eq, reduceCtorEq,
          not_false_eq_true, List.length_cons, true_implies, List.append_assoc, List.singleton_append]
        constructor
        · rintro ⟨a, b, c⟩
          refine ⟨a, ?_, c⟩
          cases rest with
          | nil => simp; omega
          | cons y ys => have := b (by simp); simp only [List.length_cons] at this ⊢; omega
        · rintro ⟨a, b, c⟩
          exact ⟨a, fun _ => by omega, c⟩

/-- the import loop: what it demands and what it writes -/
theorem initHashes_ok_iff (tip : Nat) (hs : List Bytes) (r : List (Nat × Bytes)) :
    initHashes tip hs 0 [] = .ok r ↔
      (∀ h ∈ hs, h.length = 32) ∧ (hs ≠ [] → hs.length ≤ tip + 1) ∧ r = stampN (tip + 1) hs := by
  rw [initHashes_ok_iff_gen tip hs 0 [] r (fun e he => by cases he)]
  simp

/-- the import loop never reports an ordinary error -/
theorem initHashes_not_err (tip : Nat) : ∀ (hs : List Bytes) (idx : Nat) (acc : List (Nat × Bytes)) (e : String),
    initHashes tip hs idx acc ≠ .err e
  | [], _, _, _ => by simp [initHashes]
  | h :: rest, idx, acc, e => by
    unfold initHashes
    split
    · simp
    · split
      · simp
      · exact initHashes_not_err tip rest _ _ e

/-! ## x/bitcoin import: what it demands, what it writes -/

/-- the store written by a successful InitGenesis -/
def importedState (g : BGenesis) (pk : PubKey) : State :=
  { params := g.params, pubkey := pk, tip := g.tip, hashes := stampN (g.tip + 1) g.hashes,
    deposited := g.deposits.foldl (fun m d => kinsert m d.1 d.2) [], nonce := g.nonce,
    withdrawals := g.withdrawals.foldl (fun m w => ninsert m w.1 w.2) [], processId := g.processId,
    processing := g.processing.foldl (fun m p => ninsert m p.1 p.2) [], queue := g.queue }

/-- everything InitGenesis checks (each failure is a panic of InitChain) -/
structure ImportDemands (rel : Relayer.State) (g : BGenesis) (pk : PubKey) : Prop where
  /-- `Params.Validate` -/
  params : paramsValidate g.params = true
  /-- the key pointer is not nil (dereferenced in MustHasKey) -/
  pubkey : g.pubkey = some pk
  /-- `PublicKey.Validate` -/
  keyValid : pk.validate = true
  /-- "no block hash provided in the genesis state" -/
  nonempty : g.hashes ≠ []
  /-- "invalid block hash length" -/
  hashLen : ∀ h ∈ g.hashes, h.length = 32
  /-- "invalid block hash length for block tip": no more hashes than heights 0 … tip -/
  hashCount : g.hashes.length ≤ g.tip + 1
  /-- MustHasKey: the relayer module knows the encoded key -/
  known : pk.encode ∈ rel.pubkeys
  /-- `Deposited.Set`: the key codec refuses txids longer than 255 bytes -/
  depKeys : ∀ d ∈ g.deposits, d.1.1.length ≤ 255

/-- the four outcomes of `GenesisState.Validate` -/
theorem genesisValidate_cases (g : BGenesis) :
    (genesisValidate g = .ok () ∧ paramsValidate g.params = true ∧ (∀ pk, g.pubkey = some pk → pk.validate = true) ∧
      g.hashes ≠ []) ∨
    (genesisValidate g = .err "params" ∧ paramsValidate g.params = false) ∨
    (genesisValidate g = .err "pubkey" ∧ ∃ pk, g.pubkey = some pk ∧ pk.validate = false) ∨
    (genesisValidate g = .err "no-block-hash" ∧ g.hashes = []) := by
  unfold genesisValidate
  cases hp : paramsValidate g.params with
  | false => exact Or.inr (Or.inl ⟨by simp, rfl⟩)
  | true =>
    cases hk : g.pubkey with
    | none =>
      cases hh : g.hashes with
      | nil => exact Or.inr (Or.inr (Or.inr ⟨by simp, rfl⟩))
      | cons x xs => exact Or.inl ⟨by simp, rfl, by simp, by simp⟩
    | some pk =>
      cases hv : pk.validate with
      | false => exact Or.inr (Or.inr (Or.inl ⟨by simp [hv], pk, rfl, hv⟩))
      | true =>
        cases hh : g.hashes with
        | nil => exact Or.inr (Or.inr (Or.inr ⟨by simp [hv], rfl⟩))
        | cons x xs => exact Or.inl ⟨by simp [hv], rfl, by intro q hq; cases hq; exact hv, by simp⟩

/-- **InitGenesis succeeds exactly when the demands hold, and then writes `importedState`.** -/
theorem initGenesis_ok_iff (rel : Relayer.State) (g : BGenesis) (s' : State) :
    initGenesis rel g = .ok s' ↔ ∃ pk, ImportDemands rel g pk ∧ s' = importedState g pk := by
  constructor
  · intro h
    unfold initGenesis at h
    rcases genesisValidate_cases g with c | c | c | c
    · obtain ⟨c0, c1, c2, c3⟩ := c
      simp only [c0] at h
      cases hh : initHashes g.tip g.hashes 0 [] with
      | err e => simp only [hh] at h; cases h
      | panic e => simp only [hh] at h; cases h
      | ok hs =>
        simp only [hh] at h
        obtain ⟨d1, d2, d3⟩ := (initHashes_ok_iff _ _ _).1 hh
        cases hp : g.pubkey with
        | none => simp only [hp] at h; cases h
        | some pk =>
          simp only [hp] at h
          by_cases hk : rel.pubkeys.contains pk.encode = true
          · by_cases hd : g.deposits.all (fun d => depKeyOk d.1) = true
            · simp only [hk, hd, Bool.not_true, Bool.false_eq_true, if_false, Outcome.ok.injEq] at h
              refine ⟨pk, ⟨c1, hp, c2 pk hp, c3, d1, d2 c3, by simpa using hk, ?_⟩, ?_⟩
              · intro d hdm
                have := List.all_eq_true.1 hd d hdm
                simpa [depKeyOk] using this
              · rw [← h, d3]; rfl
            · have hd' : g.deposits.all (fun d => depKeyOk d.1) = false := by simpa using hd
              simp only [hk, hd', Bool.not_true, Bool.not_false, Bool.false_eq_true, if_false, if_true] at h
              cases h
          · have hk' : rel.pubkeys.contains pk.encode = false := by simpa using hk
            simp only [hk', Bool.not_false, if_true] at h
            cases h
    · simp only [c.1] at h; cases h
    · simp only [c.1] at h; cases h
    · simp only [c.1] at h; cases h
  · rintro ⟨pk, d, rfl⟩
    have hv : genesisValidate g = .ok () := by
      rcases genesisValidate_cases g with c | c | c | c
      · exact c.1
      · rw [d.params] at c; cases c.2
      · obtain ⟨_, q, hq, hq'⟩ := c
        rw [d.pubkey] at hq; cases hq
        rw [d.keyValid] at hq'; cases hq'
      · exact absurd c.2 d.nonempty
    have hh : initHashes g.tip g.hashes 0 [] = .ok (stampN (g.tip + 1) g.hashes) :=
      (initHashes_ok_iff _ _ _).2 ⟨d.hashLen, fun _ => d.hashCount, rfl⟩
    have hk : rel.pubkeys.contains pk.encode = true := by simpa using d.known
    have hd : g.deposits.all (fun d => depKeyOk d.1) = true := by
      rw [List.all_eq_true]; intro e he; simpa [depKeyOk] using d.depKeys e he
    unfold initGenesis
    simp only [hv, hh, d.pubkey, hk, hd, Bool.not_true, Bool.false_eq_true, if_false]
    rfl

/-- the import reads the relayer store only through the membership test of MustHasKey -/
theorem initGenesis_congr_rel (rel rel' : Relayer.State) (g : BGenesis)
    (h : ∀ k, k ∈ rel'.pubkeys ↔ k ∈ rel.pubkeys) : initGenesis rel' g = initGenesis rel g := by
  have : ∀ k, rel'.pubkeys.contains k = rel.pubkeys.contains k := by
    intro k
    cases h1 : rel.pubkeys.contains k with
    | true => simpa using (h k).2 (by simpa using h1)
    | false =>
      cases h2 : rel'.pubkeys.contains k with
      | false => rfl
      | true => have := (h k).1 (by simpa using h2); simp [this] at h1
  unfold initGenesis
  simp only [this]

/-- a store written by InitGenesis never has two entries for a key -/
theorem importedState_nodup (g : BGenesis) (pk : PubKey) :
    ((importedState g pk).hashes.map (·.1)).Nodup ∧ ((importedState g pk).deposited.map (·.1)).Nodup ∧
    ((importedState g pk).withdrawals.map (·.1)).Nodup ∧ ((importedState g pk).processing.map (·.1)).Nodup :=
  ⟨stampN_keys_nodup _ _, kinsert_fold_nodup (fun d : (Bytes × Nat) × Nat => d.1) (·.2) _ [] List.nodup_nil,
   kinsert_fold_nodup (fun d : Nat × Withdrawal => d.1) (·.2) _ [] List.nodup_nil,
   kinsert_fold_nodup (fun d : Nat × Processing => d.1) (·.2) _ [] List.nodup_nil⟩

/-- a valid key is not the "no key stored" marker -/
theorem kind_of_valid (pk : PubKey) (h : pk.validate = true) : pk.kind ≠ 2 := by
  intro hk
  simp [PubKey.validate, hk] at h

/-! ## 1. import, then export -/

/-- **export ∘ import.**  For every genesis that InitGenesis accepts (`ImportDemands`, by
    `initGenesis_ok_iff`) whose deposit keys, withdrawal ids and processing ids are duplicate-free and
    whose tip is not the largest uint64, exporting the imported store returns the genesis with the
    three lists in store iteration order; every other field verbatim (in particular the block hashes
    and the tip). -/
theorem btc_import_export (rel : Relayer.State) (g : BGenesis) (s' : State) (h : initGenesis rel g = .ok s')
    (htip : g.tip + 1 < two64) (hd : (g.deposits.map (·.1)).Nodup) (hw : (g.withdrawals.map (·.1)).Nodup)
    (hp : (g.processing.map (·.1)).Nodup) :
    exportGenesis s' = .ok { g with deposits := sortDeposits g.deposits, withdrawals := sortDesc g.withdrawals,
                                    processing := sortDesc g.processing } := by
  obtain ⟨pk, d, rfl⟩ := (initGenesis_ok_iff rel g s').1 h
  have e1 : g.deposits.foldl (fun m d => kinsert m d.1 d.2) [] = g.deposits := by
    rw [kinsert_fold_fresh g.deposits [] (by simpa using hd)]; rfl
  have e2 : g.withdrawals.foldl (fun m w => ninsert m w.1 w.2) [] = g.withdrawals := by
    have := kinsert_fold_fresh g.withdrawals [] (by simpa using hw)
    simpa [ninsert_eq] using this
  have e3 : g.processing.foldl (fun m w => ninsert m w.1 w.2) [] = g.processing := by
    have := kinsert_fold_fresh g.processing [] (by simpa using hp)
    simpa [ninsert_eq] using this
  have e4 : (g.tip + 1) % two64 = g.tip + 1 := Nat.mod_eq_of_lt htip
  unfold exportGenesis
  have hkind : (importedState g pk).pubkey.kind ≠ 2 := kind_of_valid pk d.keyValid
  rw [if_neg hkind]
  simp only [importedState, e1, e2, e3, e4, exportHashes_stampN g.hashes (g.tip + 1) d.hashCount, d.pubkey]

/-- a genesis in export form: the three lists strictly in store iteration order -/
def CanonGenesis (g : BGenesis) : Prop :=
  g.deposits.Pairwise (fun a b => depLt a.1 b.1 = true) ∧ g.withdrawals.Pairwise (fun a b => natGt a.1 b.1 = true) ∧
  g.processing.Pairwise (fun a b => natGt a.1 b.1 = true)

instance (g : BGenesis) : Decidable (CanonGenesis g) := by unfold CanonGenesis; infer_instance

/-- **export ∘ import, exactly.**  A genesis in export form that InitGenesis accepts is returned
    verbatim by the next export. -/
theorem btc_import_export_exact (rel : Relayer.State) (g : BGenesis) (s' : State) (h : initGenesis rel g = .ok s')
    (htip : g.tip + 1 < two64) (hc : CanonGenesis g) : exportGenesis s' = .ok g := by
  obtain ⟨c1, c2, c3⟩ := hc
  rw [btc_import_export rel g s' h htip (nodup_of_strict strict_depLt _ c1) (nodup_of_strict strict_natGt _ c2)
    (nodup_of_strict strict_natGt _ c3)]
  simp only [sortDeposits, sortDesc, sortBy_id _ c1, sortBy_id _ c2, sortBy_id _ c3]

/-! ## 2. export, then import -/

/-- **Well-formedness of a bridge store** (what the running chain maintains):
    the run-time parameters pass `Params.Validate`; the current key passes `PublicKey.Validate` and is
    registered in the relayer module; the tip is not the largest uint64; every stored block hash has
    32 bytes; the heights that carry a hash are exactly a range `lo … tip` (gap-free, ending at the tip
    and containing it — what `C06.blockhashes_gapfree` preserves); deposit txids fit the key codec;
    no map has two entries for a key. -/
structure BWf (rel : Relayer.State) (s : State) : Prop where
  params : paramsValidate s.params = true
  keyValid : s.pubkey.validate = true
  known : s.pubkey.encode ∈ rel.pubkeys
  tipRange : s.tip + 1 < two64
  hashLen : ∀ e ∈ s.hashes, e.2.length = 32
  gapfree : ∃ lo, lo ≤ s.tip ∧ ∀ k, (nlookup s.hashes k).isSome = true ↔ (lo ≤ k ∧ k ≤ s.tip)
  depKeys : ∀ e ∈ s.deposited, e.1.1.length ≤ 255
  nodupH : (s.hashes.map (·.1)).Nodup
  nodupD : (s.deposited.map (·.1)).Nodup
  nodupW : (s.withdrawals.map (·.1)).Nodup
  nodupP : (s.processing.map (·.1)).Nodup

/-- `s'` reproduces `s`: the items and sequences are equal and the four maps answer every `Get`
    alike (equal as finite maps). -/
structure BReproduces (s s' : State) : Prop where
  params : s'.params = s.params
  pubkey : s'.pubkey = s.pubkey
  tip : s'.tip = s.tip
  nonce : s'.nonce = s.nonce
  processId : s'.processId = s.processId
  queue : s'.queue = s.queue
  hashes : ∀ k, nlookup s'.hashes k = nlookup s.hashes k
  deposited : ∀ k, klookup s'.deposited k = klookup s.deposited k
  withdrawals : ∀ k, nlookup s'.withdrawals k = nlookup s.withdrawals k
  processing : ∀ k, nlookup s'.processing k = nlookup s.processing k

/-- the genesis ExportGenesis builds when the `Pubkey` item exists -/
def exportedOf (s : State) : BGenesis :=
  { params := s.params, tip := s.tip, pubkey := some s.pubkey,
    hashes := exportHashes s.hashes ((s.tip + 1) % two64), nonce := s.nonce, queue := s.queue,
    deposits := sortDeposits s.deposited, withdrawals := sortDesc s.withdrawals, processId := s.processId,
    processing := sortDesc s.processing }

/-- ExportGenesis panics exactly on a missing `Pubkey` item -/
theorem exportGenesis_ok_iff (s : State) (g : BGenesis) :
    exportGenesis s = .ok g ↔ s.pubkey.kind ≠ 2 ∧ g = exportedOf s := by
  unfold exportGenesis
  by_cases h : s.pubkey.kind = 2
  · rw [if_pos h]
    exact ⟨fun hc => (by cases hc), fun hc => absurd h hc.1⟩
  · rw [if_neg h]
    simp only [Outcome.ok.injEq, ne_eq, h, not_false_eq_true, true_and]
    exact ⟨fun hc => hc.symm, fun hc => hc.symm⟩

/-- the store with its maps listed in store iteration order (hashes from the tip downwards) -/
def canonState (s : State) : State :=
  { s with hashes := stampN (s.tip + 1) (exportHashes s.hashes (s.tip + 1)), deposited := sortDeposits s.deposited,
           withdrawals := sortDesc s.withdrawals, processing := sortDesc s.processing }

/-- a sorted copy of a map with duplicate-free keys answers every `Get` alike -/
theorem klookup_sortBy {κ α : Type} [BEq κ] [LawfulBEq κ] (lt : κ → κ → Bool) (l : List (κ × α))
    (hn : (l.map (·.1)).Nodup) (k : κ) : klookup (sortBy lt l) k = klookup l k :=
  klookup_ext l (sortBy lt l) hn (sortBy_keys_nodup l hn) (fun _ => (sortBy_perm l).mem_iff) k

/-- the block hashes of the re-imported store under the gap-freeness clause -/
theorem hashes_reproduced (m : List (Nat × Bytes)) (tip lo : Nat)
    (hg : ∀ k, (nlookup m k).isSome = true ↔ (lo ≤ k ∧ k ≤ tip)) (k : Nat) :
    nlookup (stampN (tip + 1) (exportHashes m (tip + 1))) k = nlookup m k := by
  have hnone : ∀ j, ¬ (lo ≤ j ∧ j ≤ tip) → nlookup m j = none := by
    intro j hj
    cases hl : nlookup m j with
    | none => rfl
    | some x => exact absurd ((hg j).1 (by rw [hl]; rfl)) hj
  by_cases h1 : k ≤ tip
  · by_cases h2 : lo ≤ k
    · exact nlookup_stamp_export_some m (tip + 1) k (by omega) (fun j hj1 hj2 => (hg j).2 ⟨by omega, by omega⟩)
    · rw [nlookup_stamp_export_none m (tip + 1) k k (Nat.le_refl k) (by omega) (hnone k (by omega)),
        hnone k (by omega)]
  · rw [nlookup_stampN_ge _ _ _ (by omega), hnone k (by omega)]

/-- **import ∘ export.**  For every well-formed store: ExportGenesis does not panic, InitGenesis
    accepts the exported genesis, the imported store reproduces the original (and is the original with
    its maps listed in store iteration order), and exporting the imported store gives the very same
    genesis. -/
theorem btc_export_import (rel : Relayer.State) (s : State) (wf : BWf rel s) :
    ∃ g s', exportGenesis s = .ok g ∧ initGenesis rel g = .ok s' ∧ BReproduces s s' ∧ s' = canonState s ∧
      exportGenesis s' = .ok g := by
  have hkind := kind_of_valid s.pubkey wf.keyValid
  have hmod : (s.tip + 1) % two64 = s.tip + 1 := Nat.mod_eq_of_lt wf.tipRange
  have hexp : exportGenesis s = .ok (exportedOf s) := (exportGenesis_ok_iff s _).2 ⟨hkind, rfl⟩
  obtain ⟨lo, hlo, hg⟩ := wf.gapfree
  have hnd : ((sortDeposits s.deposited).map (·.1)).Nodup := sortBy_keys_nodup _ wf.nodupD
  have hnw : ((sortDesc s.withdrawals).map (·.1)).Nodup := sortBy_keys_nodup _ wf.nodupW
  have hnp : ((sortDesc s.processing).map (·.1)).Nodup := sortBy_keys_nodup _ wf.nodupP
  have dem : ImportDemands rel (exportedOf s) s.pubkey := by
    refine ⟨wf.params, rfl, wf.keyValid, ?_, ?_, ?_, wf.known, ?_⟩
    · show exportHashes s.hashes ((s.tip + 1) % two64) ≠ []
      rw [hmod]
      cases hl : nlookup s.hashes s.tip with
      | none =>
        have := (hg s.tip).2 ⟨hlo, Nat.le_refl _⟩
        rw [hl] at this; cases this
      | some x => rw [exportHashes_succ_some _ _ x hl]; exact List.cons_ne_nil _ _
    · intro h hh
      obtain ⟨k, _, hm⟩ := exportHashes_mem s.hashes _ h hh
      exact wf.hashLen (k, h) hm
    · show (exportHashes s.hashes ((s.tip + 1) % two64)).length ≤ s.tip + 1
      rw [hmod]; exact exportHashes_length_le _ _
    · intro d hd
      exact wf.depKeys d ((sortBy_perm _).mem_iff.1 hd)
  have hinit := (initGenesis_ok_iff rel (exportedOf s) _).2 ⟨s.pubkey, dem, rfl⟩
  have e1 : (sortDeposits s.deposited).foldl (fun m d => kinsert m d.1 d.2) [] = sortDeposits s.deposited := by
    rw [kinsert_fold_fresh _ [] (by simpa using hnd)]; rfl
  have e2 : (sortDesc s.withdrawals).foldl (fun m w => ninsert m w.1 w.2) [] = sortDesc s.withdrawals := by
    have := kinsert_fold_fresh (sortDesc s.withdrawals) [] (by simpa using hnw)
    simpa [ninsert_eq] using this
  have e3 : (sortDesc s.processing).foldl (fun m w => ninsert m w.1 w.2) [] = sortDesc s.processing := by
    have := kinsert_fold_fresh (sortDesc s.processing) [] (by simpa using hnp)
    simpa [ninsert_eq] using this
  have hcanon : importedState (exportedOf s) s.pubkey = canonState s := by
    simp only [importedState, exportedOf, canonState, e1, e2, e3, hmod]
  refine ⟨exportedOf s, importedState (exportedOf s) s.pubkey, hexp, hinit, ?_, hcanon, ?_⟩
  · rw [hcanon]
    refine ⟨rfl, rfl, rfl, rfl, rfl, rfl, hashes_reproduced s.hashes s.tip lo hg, ?_, ?_, ?_⟩
    · exact klookup_sortBy depLt s.deposited wf.nodupD
    · intro k; rw [nlookup_eq, nlookup_eq]; exact klookup_sortBy natGt s.withdrawals wf.nodupW k
    · intro k; rw [nlookup_eq, nlookup_eq]; exact klookup_sortBy natGt s.processing wf.nodupP k
  · rw [btc_import_export rel (exportedOf s) _ hinit wf.tipRange hnd hnw hnp]
    simp only [exportedOf, sortDeposits, sortDesc, sortBy_idem strict_depLt _ wf.nodupD,
      sortBy_idem strict_natGt _ wf.nodupW, sortBy_idem strict_natGt _ wf.nodupP]

/-- equal finite maps without repeated keys have the same entries and the same exported list -/
theorem BReproduces.content {s s' : State} (r : BReproduces s s')
    (hH : (s.hashes.map (·.1)).Nodup) (hD : (s.deposited.map (·.1)).Nodup) (hW : (s.withdrawals.map (·.1)).Nodup)
    (hP : (s.processing.map (·.1)).Nodup)
    (hH' : (s'.hashes.map (·.1)).Nodup) (hD' : (s'.deposited.map (·.1)).Nodup)
    (hW' : (s'.withdrawals.map (·.1)).Nodup) (hP' : (s'.processing.map (·.1)).Nodup) :
    (∀ e, e ∈ s'.hashes ↔ e ∈ s.hashes) ∧ (∀ e, e ∈ s'.deposited ↔ e ∈ s.deposited) ∧
    (∀ e, e ∈ s'.withdrawals ↔ e ∈ s.withdrawals) ∧ (∀ e, e ∈ s'.processing ↔ e ∈ s.processing) ∧
    sortDeposits s'.deposited = sortDeposits s.deposited ∧ sortDesc s'.withdrawals = sortDesc s.withdrawals ∧
    sortDesc s'.processing = sortDesc s.processing := by
  have m1 := mem_iff_of_klookup s.hashes s'.hashes hH hH' r.hashes
  have m2 := mem_iff_of_klookup s.deposited s'.deposited hD hD' r.deposited
  have m3 := mem_iff_of_klookup s.withdrawals s'.withdrawals hW hW' r.withdrawals
  have m4 := mem_iff_of_klookup s.processing s'.processing hP hP' r.processing
  exact ⟨m1, m2, m3, m4, sortBy_ext strict_depLt _ _ hD hD' m2, sortBy_ext strict_natGt _ _ hW hW' m3,
    sortBy_ext strict_natGt _ _ hP hP' m4⟩

/-! ## 3. what the round trip loses or refuses -/

/-- **Block hashes of the re-imported store.**  Whatever the store looks like: after export and
    import, (i) a height reached by the downward walk keeps its hash, (ii) every height at or below a
    missing height `j ≤ tip` has *no* hash — stored hashes below a gap are silently dropped —, and
    (iii) heights above the tip have no hash. -/
theorem reimported_hashes (rel : Relayer.State) (s : State) (g : BGenesis) (s' : State)
    (he : exportGenesis s = .ok g) (hi : initGenesis rel g = .ok s') (htip : s.tip + 1 < two64) :
    (∀ k, k ≤ s.tip → (∀ j, k ≤ j → j ≤ s.tip → (nlookup s.hashes j).isSome = true) →
      nlookup s'.hashes k = nlookup s.hashes k) ∧
    (∀ j k, k ≤ j → j ≤ s.tip → nlookup s.hashes j = none → nlookup s'.hashes k = none) ∧
    (∀ k, s.tip < k → nlookup s'.hashes k = none) := by
  obtain ⟨_, rfl⟩ := (exportGenesis_ok_iff s g).1 he
  obtain ⟨pk, _, rfl⟩ := (initGenesis_ok_iff rel _ s').1 hi
  have hmod : (s.tip + 1) % two64 = s.tip + 1 := Nat.mod_eq_of_lt htip
  simp only [importedState, exportedOf, hmod]
  refine ⟨fun k hk hall => ?_, fun j k hkj hj hn => ?_, fun k hk => ?_⟩
  · exact nlookup_stamp_export_some s.hashes (s.tip + 1) k (by omega) (fun j h1 h2 => hall j h1 (by omega))
  · exact nlookup_stamp_export_none s.hashes (s.tip + 1) k j hkj (by omega) hn
  · exact nlookup_stampN_ge _ _ _ (by omega)

/-- **Stored hashes below a gap are lost.**  If height `j ≤ tip` carries no hash, the export stops
    above `j`: the exported genesis has at most `tip - j` hashes and no height `k ≤ j` has a hash in the
    re-imported store, whether or not the original store had one. -/
theorem hashes_below_gap_are_lost (rel : Relayer.State) (s : State) (g : BGenesis) (s' : State)
    (he : exportGenesis s = .ok g) (hi : initGenesis rel g = .ok s') (htip : s.tip + 1 < two64)
    (j : Nat) (hj : j ≤ s.tip) (hgap : nlookup s.hashes j = none) :
    g.hashes.length ≤ s.tip - j ∧ ∀ k, k ≤ j → nlookup s'.hashes k = none := by
  refine ⟨?_, fun k hk => (reimported_hashes rel s g s' he hi htip).2.1 j k hk hj hgap⟩
  obtain ⟨_, rfl⟩ := (exportGenesis_ok_iff s g).1 he
  have hmod : (s.tip + 1) % two64 = s.tip + 1 := Nat.mod_eq_of_lt htip
  simp only [exportedOf, hmod]
  obtain ⟨h1, _⟩ := exportHashes_spec s.hashes (s.tip + 1)
  have hlen := exportHashes_length_le s.hashes (s.tip + 1)
  apply Classical.byContradiction
  intro hc
  have := h1 j (by omega) (by omega)
  rw [hgap] at this; cases this

/-- a store without a hash at its tip exports no hash at all, and the import refuses that -/
theorem tip_hash_missing_blocks_import (rel : Relayer.State) (s : State) (hp : paramsValidate s.params = true)
    (hk : s.pubkey.validate = true) (htip : s.tip + 1 < two64) (hm : nlookup s.hashes s.tip = none) :
    ∃ g, exportGenesis s = .ok g ∧ g.hashes = [] ∧ initGenesis rel g = .panic "no-block-hash" := by
  have hmod : (s.tip + 1) % two64 = s.tip + 1 := Nat.mod_eq_of_lt htip
  have hh : (exportedOf s).hashes = [] := by
    simp only [exportedOf, hmod]; exact exportHashes_succ_none _ _ hm
  refine ⟨exportedOf s, (exportGenesis_ok_iff s _).2 ⟨kind_of_valid _ hk, rfl⟩, hh, ?_⟩
  unfold initGenesis
  rcases genesisValidate_cases (exportedOf s) with c | c | c | c
  · exact absurd hh c.2.2.2
  · have : paramsValidate s.params = false := c.2
    rw [hp] at this; cases this
  · obtain ⟨_, q, hq, hq'⟩ := c
    have : some s.pubkey = some q := hq
    cases this
    rw [hk] at hq'; cases hq'
  · simp only [c.1]

/-- **The import needs valid parameters** (finding F7c in general form): a store whose run-time
    parameters fail `Params.Validate` is exported without complaint, and InitGenesis panics on the
    exported genesis — whatever else the store contains. -/
theorem import_needs_valid_params (rel : Relayer.State) (s : State) (g : BGenesis) (he : exportGenesis s = .ok g)
    (hp : paramsValidate s.params = false) : initGenesis rel g = .panic "params" := by
  obtain ⟨_, rfl⟩ := (exportGenesis_ok_iff s g).1 he
  unfold initGenesis
  rcases genesisValidate_cases (exportedOf s) with c | c | c | c
  · have : paramsValidate s.params = true := c.2.1
    rw [hp] at this; cases this
  · simp only [c.1]
  · have : genesisValidate (exportedOf s) = .err "params" := by
      unfold genesisValidate
      have : paramsValidate (exportedOf s).params = false := hp
      simp [this]
    have h0 := c.1
    rw [this] at h0
    simp at h0
  · have : genesisValidate (exportedOf s) = .err "params" := by
      unfold genesisValidate
      have : paramsValidate (exportedOf s).params = false := hp
      simp [this]
    have h0 := c.1
    rw [this] at h0
    simp at h0

/-- the three ways in which tax parameters fail `Params.Validate` -/
theorem tax_params_invalid (p : Params) :
    (p.taxRate = 0 ∧ p.maxTax > 0) ∨ (p.taxRate > 0 ∧ p.maxTax = 0) ∨ p.maxTax > 100000000 →
    paramsValidate p = false := by
  intro h
  unfold paramsValidate
  by_cases h1 : p.minDeposit < 1000
  · simp [h1]
  · by_cases h2 : p.magic.length ≠ 4
    · simp [h2]
    · by_cases h3 : p.confirmations = 0
      · simp [h3]
      · by_cases h4 : p.taxRate > 0
        · simp only [h1, h2, h3, h4, if_false, if_true]
          by_cases h5 : p.maxTax = 0 ∨ p.taxRate ≥ 10000
          · simp [h5]
          · rw [if_neg h5]
            have : p.maxTax > 100000000 := by omega
            simp [this]
        · simp only [h1, h2, h3, h4, if_false]
          have : p.maxTax ≠ 0 := by omega
          simp [this]

/-- F7c in general form: whatever else a store contains, tax parameters of one of the three classes
    make the import of its export panic -/
theorem tax_params_block_import (rel : Relayer.State) (s : State) (g : BGenesis) (he : exportGenesis s = .ok g)
    (ht : (s.params.taxRate = 0 ∧ s.params.maxTax > 0) ∨ (s.params.taxRate > 0 ∧ s.params.maxTax = 0) ∨
      s.params.maxTax > 100000000) : initGenesis rel g = .panic "params" :=
  import_needs_valid_params rel s g he (tax_params_invalid s.params ht)

/-! ## 4. the executable checks are the theorems' statements -/

theorem gapFreeOk_iff (s : State) :
    gapFreeOk s = true ↔ ∃ lo, lo ≤ s.tip ∧ ∀ k, (nlookup s.hashes k).isSome = true ↔ (lo ≤ k ∧ k ≤ s.tip) := by
  obtain ⟨h1, h2⟩ := exportHashes_spec s.hashes (s.tip + 1)
  have hlen := exportHashes_length_le s.hashes (s.tip + 1)
  simp only [gapFreeOk, Bool.and_eq_true, decide_eq_true_eq, List.all_eq_true]
  constructor
  · rintro ⟨hpos, hall⟩
    refine ⟨s.tip + 1 - (exportHashes s.hashes (s.tip + 1)).length, by omega, fun k => ⟨fun hk => ?_, fun hk => ?_⟩⟩
    · cases hl : nlookup s.hashes k with
      | none => rw [hl] at hk; cases hk
      | some x =>
        have := hall (k, x) (mem_of_klookup s.hashes k x hl)
        simp only at this
        omega
    · exact h1 k (by omega) (by omega)
  · rintro ⟨lo, hlo, hg⟩
    have hpos : 0 < (exportHashes s.hashes (s.tip + 1)).length := by
      apply Classical.byContradiction
      intro hc
      have hz : (exportHashes s.hashes (s.tip + 1)).length = 0 := by omega
      have := h2 (by omega)
      rw [hz] at this
      have e : s.tip + 1 - 0 - 1 = s.tip := by omega
      rw [e] at this
      have h3 := (hg s.tip).2 ⟨hlo, Nat.le_refl _⟩
      rw [this] at h3; cases h3
    refine ⟨hpos, fun e he => ?_⟩
    have hb := (hg e.1).1 (klookup_isSome_of_mem s.hashes e he)
    refine ⟨?_, hb.2⟩
    by_cases hfull : (exportHashes s.hashes (s.tip + 1)).length < s.tip + 1
    · have hn := h2 hfull
      have : ¬ (lo ≤ s.tip + 1 - (exportHashes s.hashes (s.tip + 1)).length - 1 ∧
          s.tip + 1 - (exportHashes s.hashes (s.tip + 1)).length - 1 ≤ s.tip) := by
        intro hc
        have := (hg _).2 hc
        rw [hn] at this; cases this
      omega
    · omega

/-- `bwfOk` decides `BWf` -/
theorem bwfOk_iff (rel : Relayer.State) (s : State) : bwfOk rel s = true ↔ BWf rel s := by
  constructor
  · intro h
    simp only [bwfOk, keysNodup, Bool.and_eq_true, decide_eq_true_eq, List.all_eq_true, beq_iff_eq] at h
    obtain ⟨⟨⟨⟨⟨⟨⟨⟨⟨⟨h1, h2⟩, h3⟩, h4⟩, h5⟩, h6⟩, h7⟩, h8⟩, h9⟩, h10⟩, h11⟩ := h
    exact ⟨h1, h2, by simpa using h3, h4, h5, (gapFreeOk_iff s).1 h6,
      fun e he => by simpa [depKeyOk] using h7 e he, h8, h9, h10, h11⟩
  · intro wf
    simp only [bwfOk, keysNodup, Bool.and_eq_true, decide_eq_true_eq, List.all_eq_true, beq_iff_eq]
    exact ⟨⟨⟨⟨⟨⟨⟨⟨⟨⟨wf.params, wf.keyValid⟩, by simpa using wf.known⟩, wf.tipRange⟩, wf.hashLen⟩,
      (gapFreeOk_iff s).2 wf.gapfree⟩, fun e he => by simpa [depKeyOk] using wf.depKeys e he⟩, wf.nodupH⟩, wf.nodupD⟩,
      wf.nodupW⟩, wf.nodupP⟩

instance (rel : Relayer.State) (s : State) : Decidable (BWf rel s) := decidable_of_iff _ (bwfOk_iff rel s)

/-- **The executable check is the theorem's conclusion**: `btcRoundTripOk rel s` evaluates to `true`
    exactly when the export succeeds, the import of the exported genesis succeeds, the imported store
    reproduces `s`, and the second export equals the first. -/
theorem btcRoundTripOk_iff (rel : Relayer.State) (s : State) :
    btcRoundTripOk rel s = true ↔
      ∃ g s', exportGenesis s = .ok g ∧ initGenesis rel g = .ok s' ∧ BReproduces s s' ∧ exportGenesis s' = .ok g := by
  unfold btcRoundTripOk
  cases he : exportGenesis s with
  | err e => simp
  | panic e => simp
  | ok g =>
    dsimp only
    cases hi : initGenesis rel g with
    | err e => simp [hi]
    | panic e => simp [hi]
    | ok s' =>
      dsimp only
      simp only [Bool.and_eq_true, beq_iff_eq, mapEq_iff]
      constructor
      · rintro ⟨⟨⟨⟨⟨⟨⟨⟨⟨⟨a1, a2⟩, a3⟩, a4⟩, a5⟩, a6⟩, a7⟩, a8⟩, a9⟩, a10⟩, a11⟩
        exact ⟨g, s', rfl, hi, ⟨a1, a2, a3, a4, a5, a6, a7, a8, a9, a10⟩, a11⟩
      · rintro ⟨g', s'', hg, hs, r, h2⟩
        cases hg
        rw [hi] at hs
        cases hs
        exact ⟨⟨⟨⟨⟨⟨⟨⟨⟨⟨r.params, r.pubkey⟩, r.tip⟩, r.nonce⟩, r.processId⟩, r.queue⟩, r.hashes⟩, r.deposited⟩,
          r.withdrawals⟩, r.processing⟩, h2⟩

/-- **Well-formed stores pass the executable check.** -/
theorem btcRoundTripOk_of (rel : Relayer.State) (s : State) (wf : BWf rel s) : btcRoundTripOk rel s = true := by
  obtain ⟨g, s', h1, h2, h3, _, h5⟩ := btc_export_import rel s wf
  exact (btcRoundTripOk_iff rel s).2 ⟨g, s', h1, h2, h3, h5⟩

/-- a store that passes the check was imported into a store without repeated keys that has the same
    entries in every map — provided the original has no repeated keys either -/
theorem btcRoundTripOk_content (rel : Relayer.State) (s : State) (h : btcRoundTripOk rel s = true)
    (hH : (s.hashes.map (·.1)).Nodup) (hD : (s.deposited.map (·.1)).Nodup) (hW : (s.withdrawals.map (·.1)).Nodup)
    (hP : (s.processing.map (·.1)).Nodup) :
    ∃ g s', exportGenesis s = .ok g ∧ initGenesis rel g = .ok s' ∧
      (∀ e, e ∈ s'.hashes ↔ e ∈ s.hashes) ∧ (∀ e, e ∈ s'.deposited ↔ e ∈ s.deposited) ∧
      (∀ e, e ∈ s'.withdrawals ↔ e ∈ s.withdrawals) ∧ (∀ e, e ∈ s'.processing ↔ e ∈ s.processing) := by
  obtain ⟨g, s', h1, h2, r, _⟩ := (btcRoundTripOk_iff rel s).1 h
  obtain ⟨pk, _, rfl⟩ := (initGenesis_ok_iff rel g s').1 h2
  obtain ⟨n1, n2, n3, n4⟩ := importedState_nodup g pk
  obtain ⟨m1, m2, m3, m4, _⟩ := r.content hH hD hW hP n1 n2 n3 n4
  exact ⟨g, _, h1, h2, m1, m2, m3, m4⟩

/-! ## 5. x/goat -/
section goat
open Goat.App

/-- ExportGenesis (x/goat) succeeds exactly on a store with all three items, and returns them -/
theorem exportGoatStore_ok_iff (st : GStore) (g : GGenesis) :
    exportGoatStore st = .ok g ↔
      st = { params := some (), block := some g.ethBlock, beaconRoot := some g.beaconRoot } := by
  obtain ⟨p, b, r⟩ := st
  cases p <;> cases b <;> cases r <;> simp [exportGoatStore]
  constructor
  · intro h; rw [← h]; exact ⟨rfl, rfl⟩
  · rintro ⟨h1, h2⟩; rw [h1, h2]

/-- ExportGenesis (x/goat) panics exactly when an item was never set (e.g. on a fresh store) -/
theorem exportGoatStore_panics_iff (st : GStore) :
    (∃ e, exportGoatStore st = .panic e) ↔ (st.params = none ∨ st.block = none ∨ st.beaconRoot = none) := by
  obtain ⟨p, b, r⟩ := st
  cases p <;> cases b <;> cases r <;> simp [exportGoatStore]

/-- **import ∘ export (x/goat).**  For every state of the module: the export succeeds and carries
    the recorded execution head and beacon root, the import of that genesis succeeds and yields the
    very same state, and the second export equals the first. -/
theorem goat_export_import (s : GState) :
    ∃ g, exportGoatGenesis s = .ok g ∧ g = { ethBlock := s.head, beaconRoot := s.beaconRoot } ∧
      initGoatGenesis g = .ok s ∧ ∀ s', initGoatGenesis g = .ok s' → exportGoatGenesis s' = .ok g := by
  refine ⟨{ ethBlock := s.head, beaconRoot := s.beaconRoot }, rfl, rfl, rfl, ?_⟩
  intro s' h
  cases h
  rfl

/-- **export ∘ import (x/goat).**  Every genesis is accepted (nothing is validated), the imported
    state holds exactly the given head and beacon root, and exporting it returns the genesis verbatim. -/
theorem goat_import_export (g : GGenesis) :
    ∃ s, initGoatGenesis g = .ok s ∧ s.head = g.ethBlock ∧ s.beaconRoot = g.beaconRoot ∧
      exportGoatGenesis s = .ok g ∧ goatGenesisValidate g = .ok () :=
  ⟨{ head := g.ethBlock, beaconRoot := g.beaconRoot }, rfl, rfl, rfl, rfl, rfl⟩

/-- the same on the level of the store -/
theorem goat_store_round_trip (g : GGenesis) (st : GStore) :
    exportGoatStore (initGoatStore g) = .ok g ∧
    (exportGoatStore st = .ok g → initGoatStore g = st) := by
  refine ⟨rfl, fun h => ?_⟩
  rw [(exportGoatStore_ok_iff st g).1 h]; rfl

/-- **The executable check is the theorem's conclusion (x/goat).** -/
theorem goatRoundTripOk_iff (s : GState) :
    goatRoundTripOk s = true ↔
      ∃ g s', exportGoatGenesis s = .ok g ∧ initGoatGenesis g = .ok s' ∧ s' = s ∧ exportGoatGenesis s' = .ok g := by
  unfold goatRoundTripOk
  cases he : exportGoatGenesis s with
  | err e => simp
  | panic e => simp
  | ok g =>
    dsimp only
    cases hi : initGoatGenesis g with
    | err e => simp [hi]
    | panic e => simp [hi]
    | ok s' =>
      dsimp only
      simp only [Bool.and_eq_true, beq_iff_eq]
      constructor
      · rintro ⟨a1, a2⟩
        exact ⟨g, s', rfl, hi, a1, a2⟩
      · rintro ⟨g', s'', hg, hs, a1, a2⟩
        cases hg
        rw [hi] at hs
        cases hs
        exact ⟨a1, a2⟩

/-- … and it holds for every state: the goat module's genesis round trip cannot fail -/
theorem goatRoundTripOk_true (s : GState) : goatRoundTripOk s = true := by
  obtain ⟨g, h1, _, h3, h4⟩ := goat_export_import s
  exact (goatRoundTripOk_iff s).2 ⟨g, s, h1, h3, rfl, h4 s h3⟩

end goat

/-! ## the order used for `Deposited` is the byte order of the raw store keys -/

theorem u8_lt (x y : Nat) : (UInt8.ofNat x < UInt8.ofNat y) ↔ x % 256 < y % 256 := by
  rw [UInt8.lt_iff_toNat_lt]; simp

theorem bytesLt_cons (x y : UInt8) (xs ys : Bytes) :
    bytesLt (x :: xs) (y :: ys) = if x < y then true else if y < x then false else bytesLt xs ys := by
  rw [bytesLt]

theorem bytesLt_nil_nil : bytesLt [] [] = false := by rw [bytesLt]

/-- big-endian 4-byte encodings compare like the numbers -/
theorem bytesLt_be32 (a b : Nat) (ha : a < 4294967296) (hb : b < 4294967296) :
    bytesLt (be32 a) (be32 b) = natLt a b := by
  simp only [be32, bytesLt_cons, bytesLt_nil_nil, u8_lt, natLt]
  by_cases h : a < b
  · simp only [h, decide_true]
    repeat' split
    all_goals first | rfl | (exfalso; omega)
  · simp only [h, decide_false]
    repeat' split
    all_goals first | rfl | (exfalso; omega)

/-- equal-length prefixes are compared first -/
theorem bytesLt_append : ∀ (xs ys p q : Bytes), xs.length = ys.length →
    bytesLt (xs ++ p) (ys ++ q) = (bytesLt xs ys || (xs == ys && bytesLt p q))
  | [], [], p, q, _ => by simp [bytesLt_nil_nil]
  | [], _ :: _, _, _, h => by simp at h
  | _ :: _, [], _, _, h => by simp at h
  | x :: xs, y :: ys, p, q, h => by
    have ih := bytesLt_append xs ys p q (by simpa using h)
    simp only [List.cons_append, bytesLt_cons, ih]
    by_cases h1 : x < y
    · simp [h1]
    · by_cases h2 : y < x
      · have hne : x ≠ y := by intro e; rw [e] at h2; exact UInt8.lt_irrefl _ h2
        simp [h1, h2, hne]
      · have e : x = y := UInt8.le_antisymm (UInt8.not_lt.1 h2) (UInt8.not_lt.1 h1)
        subst e
        simp [h1]

/-- **`depLt` is the store order**: for txids that fit the key codec (≤ 255 bytes) and uint32 output
    indices, comparing two `Deposited` keys with `depLt` is comparing their raw store keys
    (`depKeyBytes`) byte by byte — the order in which `Deposited.Iterate` yields them. -/
theorem depLt_is_store_order (a b : Bytes × Nat) (ha : a.1.length ≤ 255) (hb : b.1.length ≤ 255)
    (ha2 : a.2 < 4294967296) (hb2 : b.2 < 4294967296) :
    bytesLt (depKeyBytes a) (depKeyBytes b) = depLt a b := by
  simp only [depKeyBytes, depLt, depKeyOf, lexLt, bytesLt_cons, u8_lt, natLt]
  have e1 : a.1.length % 256 = a.1.length := Nat.mod_eq_of_lt (by omega)
  have e2 : b.1.length % 256 = b.1.length := Nat.mod_eq_of_lt (by omega)
  rw [e1, e2]
  by_cases h1 : a.1.length < b.1.length
  · simp [h1]
  · by_cases h2 : b.1.length < a.1.length
    · have hne : a.1.length ≠ b.1.length := by omega
      simp [h1, h2, hne]
    · have e : a.1.length = b.1.length := by omega
      rw [bytesLt_append a.1 b.1 _ _ e, bytesLt_be32 a.2 b.2 ha2 hb2]
      simp [e, natLt]
      rfl

/-! ## the block-hash clauses of `BWf` are maintained by `NewBlockHashes` (cf. `C06.blockhashes_gapfree`) -/

theorem mem_kinsert {κ α : Type} [BEq κ] [LawfulBEq κ] (m : List (κ × α)) (k : κ) (v : α) (e : κ × α)
    (h : e ∈ kinsert m k v) : e ∈ m ∨ e = (k, v) := by
  unfold kinsert at h
  split at h
  · obtain ⟨x, hx, rfl⟩ := List.mem_map.1 h
    by_cases hxk : (x.1 == k) = true
    · right; rw [if_pos hxk]
    · left; rw [if_neg hxk]; exact hx
  · rcases List.mem_append.1 h with h | h
    · exact Or.inl h
    · exact Or.inr (by simpa using h)

/-- the storing loop of `NewBlockHashes` -/
theorem hashFold_spec : ∀ (hs : List Bytes) (m : List (Nat × Bytes)) (t : Nat),
    let res := hs.foldl (fun (acc : List (Nat × Bytes) × Nat) h => (ninsert acc.1 (acc.2 + 1) h, acc.2 + 1)) (m, t)
    res.2 = t + hs.length ∧
    (∀ j, (j ≤ t ∨ t + hs.length < j) → nlookup res.1 j = nlookup m j) ∧
    (∀ j, t < j → j ≤ t + hs.length → (nlookup res.1 j).isSome = true) ∧
    (∀ e ∈ res.1, e ∈ m ∨ e.2 ∈ hs) ∧
    ((m.map (·.1)).Nodup → (res.1.map (·.1)).Nodup) := by
  intro hs
  induction hs with
  | nil =>
    intro m t
    simp only [List.foldl_nil, List.length_nil, Nat.add_zero, List.not_mem_nil, or_false, imp_self, implies_true, true_and]
    exact ⟨fun j h1 h2 => absurd h1 (by omega), trivial⟩
  | cons x xs ih =>
    intro m t
    simp only [List.foldl_cons]
    obtain ⟨i1, i2, i3, i4, i5⟩ := ih (ninsert m (t + 1) x) (t + 1)
    refine ⟨by rw [i1]; simp; omega, ?_, ?_, ?_, ?_⟩
    · intro j hj
      rw [i2 j (by simp only [List.length_cons] at hj; omega)]
      exact nlookup_ninsert_other _ _ _ _ (by simp only [List.length_cons] at hj; omega)
    · intro j h1 h2
      by_cases hj : j = t + 1
      · rw [hj, i2 (t + 1) (Or.inl (Nat.le_refl _)), nlookup_ninsert_same]; rfl
      · exact i3 j (by omega) (by simp only [List.length_cons] at h2; omega)
    · intro e he
      rcases i4 e he with h | h
      · rcases mem_kinsert m (t + 1) x e h with h | h
        · exact Or.inl h
        · right; rw [h]; exact List.mem_cons_self ..
      · exact Or.inr (List.mem_cons_of_mem _ h)
    · intro hn
      exact i5 (kinsert_nodup m (t + 1) x hn)

/-- **`NewBlockHashes` keeps the block-hash part of `BWf`**: after a successful vote every stored
    hash still has 32 bytes, the heights carrying a hash are still exactly a range ending at the (new)
    tip — the same lower end, no gap —, and no height has two entries. -/
theorem newBlockHashes_keeps_hash_clauses (rc : Relayer.Crypto) (chainId : String) (rel : Relayer.State) (s : State)
    (vote : Relayer.VoteMsg) (hv : Bool) (start : Nat) (hashes : List Bytes) (r : Relayer.State × State)
    (h : newBlockHashes rc chainId rel s vote hv start hashes = .ok r)
    (hl : ∀ e ∈ s.hashes, e.2.length = 32) (hn : (s.hashes.map (·.1)).Nodup)
    (lo : Nat) (hlo : lo ≤ s.tip) (hg : ∀ k, (nlookup s.hashes k).isSome = true ↔ (lo ≤ k ∧ k ≤ s.tip)) :
    (∀ e ∈ r.2.hashes, e.2.length = 32) ∧ (r.2.hashes.map (·.1)).Nodup ∧ lo ≤ r.2.tip ∧
    (∀ k, (nlookup r.2.hashes k).isSome = true ↔ (lo ≤ k ∧ k ≤ r.2.tip)) := by
  unfold newBlockHashes at h
  repeat (split at h; · cases h)
  rename_i _ _ _ hlen _ _
  dsimp only at h
  split at h
  · cases h
  · cases h
  · cases h
    obtain ⟨k1, k2, k3, k4, k5⟩ := hashFold_spec hashes s.hashes s.tip
    simp only at k1 k2 k3 k4 k5 ⊢
    have hlen' : ∀ x ∈ hashes, x.length = 32 := by
      intro x hx
      apply Classical.byContradiction
      intro hc
      exact hlen (List.any_eq_true.2 ⟨x, hx, by simpa using hc⟩)
    refine ⟨?_, k5 hn, by rw [k1]; omega, ?_⟩
    · intro e he
      rcases k4 e he with h' | h'
      · exact hl e h'
      · exact hlen' _ h'
    · intro k
      rw [k1]
      by_cases c1 : k ≤ s.tip
      · rw [k2 k (Or.inl c1), hg k]
        constructor
        · rintro ⟨a, _⟩; exact ⟨a, by omega⟩
        · rintro ⟨a, _⟩; exact ⟨a, c1⟩
      · by_cases c2 : k ≤ s.tip + hashes.length
        · rw [k3 k (by omega) c2]
          simp only [true_iff]
          exact ⟨by omega, c2⟩
        · rw [k2 k (Or.inr (by omega)), hg k]
          constructor
          · rintro ⟨_, b⟩; omega
          · rintro ⟨_, b⟩; omega

/-! ## `BWf` is also necessary: the executable check fails on every store that violates it -/

theorem mem_stampN_val : ∀ (hs : List Bytes) (n : Nat), ∀ e ∈ stampN n hs, e.2 ∈ hs
  | [], n, e, he => by rw [stampN_nil] at he; cases he
  | _ :: _, 0, e, he => by simp [stampN] at he
  | h :: r, n + 1, e, he => by
    simp only [stampN, List.mem_cons] at he
    rcases he with he | he
    · rw [he]; exact List.mem_cons_self ..
    · exact List.mem_cons_of_mem _ (mem_stampN_val r n e he)

/-- the import writes exactly the heights `n - len … n - 1` -/
theorem nlookup_stampN_isSome : ∀ (hs : List Bytes) (n k : Nat), hs.length ≤ n →
    ((nlookup (stampN n hs) k).isSome = true ↔ (n ≤ k + hs.length ∧ k < n))
  | [], n, k, _ => by
    rw [stampN_nil]
    simp only [List.length_nil, Nat.add_zero]
    constructor
    · intro h; cases h
    · intro h; omega
  | _ :: _, 0, _, h => by simp at h
  | x :: r, n + 1, k, h => by
    by_cases hk : n = k
    · have : nlookup (stampN (n + 1) (x :: r)) k = some x := by
        rw [nlookup_eq]; exact klookup_cons_eq (n, x) _ k hk
      rw [this]
      simp only [List.length_cons, Option.isSome_some, true_iff]
      omega
    · have : nlookup (stampN (n + 1) (x :: r)) k = nlookup (stampN n r) k := by
        rw [nlookup_eq, nlookup_eq]; exact klookup_cons_ne (n, x) _ k hk
      rw [this, nlookup_stampN_isSome r n k (by simpa using h)]
      simp only [List.length_cons]
      omega

/-- **Only well-formed stores pass.**  For a store whose tip is a uint64 and whose hash list has no
    repeated height: if the executable check says `true`, the store satisfies `BWf`.  (Without the
    second premise a shadowed, never-read entry of the association list could violate `hashLen` /
    `nodupH` unnoticed; a real KV store has no such entries.) -/
theorem btcRoundTripOk_only_if (rel : Relayer.State) (s : State) (htip : s.tip < two64)
    (hn : (s.hashes.map (·.1)).Nodup) (h : btcRoundTripOk rel s = true) : BWf rel s := by
  obtain ⟨g, s', h1, h2, r, h3⟩ := (btcRoundTripOk_iff rel s).1 h
  obtain ⟨_, rfl⟩ := (exportGenesis_ok_iff s g).1 h1
  obtain ⟨pk, d, rfl⟩ := (initGenesis_ok_iff rel _ s').1 h2
  have hpk : s.pubkey = pk := by
    have : some s.pubkey = some pk := d.pubkey
    exact Option.some.inj this
  subst hpk
  have hmod0 : (s.tip + 1) % two64 ≠ 0 := by
    intro hc
    apply d.nonempty
    show exportHashes s.hashes ((s.tip + 1) % two64) = []
    rw [hc]; rfl
  have htip' : s.tip + 1 < two64 := by
    by_cases hc : s.tip + 1 = two64
    · rw [hc, Nat.mod_self] at hmod0; exact absurd rfl hmod0
    · omega
  have hmod : (s.tip + 1) % two64 = s.tip + 1 := Nat.mod_eq_of_lt htip'
  obtain ⟨_, h4⟩ := (exportGenesis_ok_iff _ _).1 h3
  obtain ⟨_, n2, n3, n4⟩ := importedState_nodup (exportedOf s) s.pubkey
  have hD : sortDeposits s.deposited = sortDeposits (importedState (exportedOf s) s.pubkey).deposited :=
    congrArg BGenesis.deposits h4
  have hW : sortDesc s.withdrawals = sortDesc (importedState (exportedOf s) s.pubkey).withdrawals :=
    congrArg BGenesis.withdrawals h4
  have hP : sortDesc s.processing = sortDesc (importedState (exportedOf s) s.pubkey).processing :=
    congrArg BGenesis.processing h4
  have nd : (s.deposited.map (·.1)).Nodup := by
    have := sortBy_keys_nodup (lt := depLt) _ n2
    rw [← sortDeposits, ← hD] at this
    exact (((sortBy_perm s.deposited).map _).nodup_iff).1 this
  have nw : (s.withdrawals.map (·.1)).Nodup := by
    have := sortBy_keys_nodup (lt := natGt) _ n3
    rw [← sortDesc, ← hW] at this
    exact (((sortBy_perm s.withdrawals).map _).nodup_iff).1 this
  have np : (s.processing.map (·.1)).Nodup := by
    have := sortBy_keys_nodup (lt := natGt) _ n4
    rw [← sortDesc, ← hP] at this
    exact (((sortBy_perm s.processing).map _).nodup_iff).1 this
  have hhs : (importedState (exportedOf s) s.pubkey).hashes = stampN (s.tip + 1) (exportHashes s.hashes (s.tip + 1)) := by
    simp only [importedState, exportedOf, hmod]
  have hlenle := exportHashes_length_le s.hashes (s.tip + 1)
  have hne : exportHashes s.hashes (s.tip + 1) ≠ [] := by
    have := d.nonempty
    simp only [exportedOf, hmod] at this
    exact this
  have hpos : 0 < (exportHashes s.hashes (s.tip + 1)).length := List.length_pos_iff.2 hne
  refine ⟨d.params, d.keyValid, d.known, htip', ?_, ?_, ?_, hn, nd, nw, np⟩
  · intro e he
    have h5 : nlookup s.hashes e.1 = some e.2 := by
      rw [nlookup_eq]; exact (klookup_eq_some_iff s.hashes hn e.1 e.2).2 he
    have h6 := r.hashes e.1
    rw [h5, hhs] at h6
    have h7 := mem_stampN_val _ _ _ (mem_of_klookup _ _ _ h6)
    have h8 := d.hashLen e.2
    simp only [exportedOf, hmod] at h8
    exact h8 h7
  · refine ⟨s.tip + 1 - (exportHashes s.hashes (s.tip + 1)).length, by omega, fun k => ?_⟩
    rw [← r.hashes k, hhs, nlookup_stampN_isSome _ _ _ hlenle]
    omega
  · intro e he
    exact d.depKeys e ((sortBy_perm (lt := depLt) s.deposited).mem_iff.2 he)

/-- **Exactness.**  On stores with a uint64 tip and without repeated heights in the hash list, the
    executable round-trip check and the executable well-formedness check agree: `BWf` is precisely
    the condition under which import ∘ export succeeds and reproduces the store. -/
theorem btcRoundTripOk_iff_BWf (rel : Relayer.State) (s : State) (htip : s.tip < two64)
    (hn : (s.hashes.map (·.1)).Nodup) : btcRoundTripOk rel s = true ↔ BWf rel s :=
  ⟨btcRoundTripOk_only_if rel s htip hn, btcRoundTripOk_of rel s⟩

/-! ## 6. the hypotheses are satisfiable, the checks are not vacuous -/

deriving instance DecidableEq for Goat.Bitcoin.State

namespace Example

def h32 (b : UInt8) : Bytes := List.replicate 32 b
def key33 : Bytes := 2 :: List.replicate 32 7
/-- a compressed secp256k1 key -/
def pk0 : PubKey := { kind := 0, key := key33 }

/-- a relayer store that knows the key -/
def rel0 : Relayer.State :=
  { params := { electingPeriod := 600, acceptProposerTimeout := 0 }, proposer := "a", voters := [], epoch := 0,
    lastElected := 0, accepted := true, seq := 0, randao := [], recs := [], onBoarding := [], offBoarding := [],
    pubkeys := [pk0.encode] }

def wd (amount : Nat) (st : WStatus) (r : Option Receipt) : Withdrawal :=
  { address := "bcrt1q", requestAmount := amount, maxTxPrice := 10, status := st, receipt := r }

/-- a bridge store as a running chain leaves it: hashes for the heights 5, 6, 7 (tip 7), listed out of
    order; three recorded deposits; three withdrawals with ids out of order; two processing entries;
    a non-empty hand-over queue; tax parameters set -/
def s0 : State :=
  { params := { minDeposit := 10000, confirmations := 6, taxRate := 2, maxTax := 1000, magic := [71, 84, 84, 48] },
    pubkey := pk0, tip := 7,
    hashes := [(5, h32 5), (7, h32 7), (6, h32 6)],
    deposited := [((h32 9, 1), 5000), ((h32 3, 0), 7000), ((h32 9, 0), 100)],
    nonce := 4,
    withdrawals := [(2, wd 5000 .processing (some { txid := h32 1, txout := 0, amount := 4900 })),
                    (9, wd 7000 .pending none), (1, wd 6000 .paid (some { txid := h32 2, txout := 1, amount := 5900 }))],
    processId := 3,
    processing := [(0, { txids := [h32 2], outputs := [[5900]], withdrawals := [1], fee := 100 }),
                   (2, { txids := [h32 1], outputs := [[4900]], withdrawals := [2], fee := 100 })],
    queue := { blockNumber := 6, deposits := [{ address := List.replicate 20 1, txid := h32 9, txout := 1, amount := 4999, tax := 1 }],
               paid := [(1, { txid := h32 2, txout := 1, amount := 5900 })], rejected := [4] } }

example : BWf rel0 s0 := by decide
/-- the association lists are not in export order -/
example : sortDesc s0.withdrawals ≠ s0.withdrawals ∧ sortDeposits s0.deposited ≠ s0.deposited := by decide

/-- the exported genesis: hashes from the tip downwards, deposits in key order, ids descending -/
def g0 : BGenesis :=
  { params := s0.params, tip := 7, hashes := [h32 7, h32 6, h32 5], nonce := 4, queue := s0.queue, pubkey := some pk0,
    deposits := [((h32 3, 0), 7000), ((h32 9, 0), 100), ((h32 9, 1), 5000)],
    withdrawals := [(9, wd 7000 .pending none),
                    (2, wd 5000 .processing (some { txid := h32 1, txout := 0, amount := 4900 })),
                    (1, wd 6000 .paid (some { txid := h32 2, txout := 1, amount := 5900 }))],
    processing := [(2, { txids := [h32 1], outputs := [[4900]], withdrawals := [2], fee := 100 }),
                   (0, { txids := [h32 2], outputs := [[5900]], withdrawals := [1], fee := 100 })],
    processId := 3 }

theorem s0_export : exportGenesis s0 = .ok g0 := by decide
example : CanonGenesis g0 := by decide

/-- the executable check on the concrete store, by evaluation … -/
theorem s0_check : btcRoundTripOk rel0 s0 = true := by decide
/-- … and by the theorem -/
example : btcRoundTripOk rel0 s0 = true := btcRoundTripOk_of rel0 s0 (by decide)
example := btc_export_import rel0 s0 (by decide)
example : ∃ s', initGenesis rel0 g0 = .ok s' ∧ exportGenesis s' = .ok g0 :=
  ⟨importedState g0 pk0, by decide, by decide⟩

/-- **A gap loses data.**  The same store without a hash at height 5 (heights 7, 6, 4 remain): not
    well-formed; the export carries only the hashes of 7 and 6; the import succeeds; the re-imported
    store has no hash at height 4 although the original has one; the executable check says `false`. -/
def sGap : State := { s0 with hashes := [(7, h32 7), (6, h32 6), (4, h32 4)] }

theorem gap_loses_data :
    ¬ BWf rel0 sGap ∧ nlookup sGap.hashes 4 = some (h32 4) ∧
    exportGenesis sGap = .ok { g0 with hashes := [h32 7, h32 6] } ∧
    initGenesis rel0 { g0 with hashes := [h32 7, h32 6] } = .ok (importedState { g0 with hashes := [h32 7, h32 6] } pk0) ∧
    nlookup (importedState { g0 with hashes := [h32 7, h32 6] } pk0).hashes 4 = none ∧
    btcRoundTripOk rel0 sGap = false := by decide

/-- the general theorem applied to the concrete store -/
example (g : BGenesis) (s' : State) (he : exportGenesis sGap = .ok g) (hi : initGenesis rel0 g = .ok s') :
    nlookup s'.hashes 4 = none :=
  (hashes_below_gap_are_lost rel0 sGap g s' he hi (by decide) 5 (by decide) (by decide)).2 4 (by decide)

/-- other violations of `BWf` the check detects: a repeated withdrawal id, a 31-byte hash, an
    unregistered key, a missing tip hash -/
example : btcRoundTripOk rel0 { s0 with withdrawals := (9, wd 1 .pending none) :: s0.withdrawals } = false := by decide
example : btcRoundTripOk rel0 { s0 with hashes := [(7, List.replicate 31 0)] } = false := by decide
example : btcRoundTripOk { rel0 with pubkeys := [] } s0 = false := by decide
example : btcRoundTripOk rel0 { s0 with tip := 8 } = false := by decide

/-- a store without the `Pubkey` item cannot be exported; one holding an empty key is exported and
    refused by the import -/
example : exportGenesis { s0 with pubkey := { kind := 2, key := [] } } = .panic "pubkey-not-found" := by decide
example : ∃ g, exportGenesis { s0 with pubkey := { kind := 3, key := [] } } = .ok g ∧ initGenesis rel0 g = .panic "pubkey" :=
  ⟨{ g0 with pubkey := some { kind := 3, key := [] } }, by decide, by decide⟩

/-- the panic classes of InitGenesis in the order of the Go code -/
example : initGenesis rel0 { g0 with hashes := [] } = .panic "no-block-hash" := by decide
example : initGenesis rel0 { g0 with hashes := [h32 7, [1, 2]] } = .panic "block-hash-length" := by decide
example : initGenesis rel0 { g0 with tip := 1 } = .panic "block-hash-count" := by decide
example : initGenesis rel0 { g0 with pubkey := none } = .panic "nil-pubkey" := by decide
example : initGenesis { rel0 with pubkeys := [] } g0 = .panic "key-not-found" := by decide
set_option maxRecDepth 4096 in
example : initGenesis rel0 { g0 with deposits := [((List.replicate 256 0, 0), 1)] } = .panic "deposit-key" := by decide

end Example

/-! ## findings (counterexamples, proved by evaluation) -/
namespace Finding
open Example

def crypto : Crypto :=
  { sha256 := id, dsha256 := id, hash160 := id, tweak := fun _ _ => none, tweakNoScript := fun _ => none,
    decodeAddr := fun _ => none }

/-- `s0` after an execution-layer request that sets the deposit tax to (rate, max) -/
def taxed (rate max : Nat) : State := { s0 with params := { s0.params with taxRate := rate, maxTax := max } }

/-! ### F7c  run-time tax parameters that `Params.Validate` rejects block the import

  `ProcessBridgeRequest` stores whatever `(rate, max)` the execution layer sends (only `rate ≥ 10000`
  is ignored).  `InitGenesis` validates the parameters and panics on (rate 0, max > 0),
  (rate > 0, max 0) and max > 1e8.  Which side is right is outside /repo; the export of such a store
  cannot start a chain. -/
theorem runtime_tax_params_block_import :
    BWf rel0 s0 ∧
    processBridgeRequest crypto s0 { depositTax := [(0, 5)] } = .ok (taxed 0 5) ∧
    processBridgeRequest crypto s0 { depositTax := [(5, 0)] } = .ok (taxed 5 0) ∧
    processBridgeRequest crypto s0 { depositTax := [(5, 200000000)] } = .ok (taxed 5 200000000) ∧
    ∀ s1 ∈ [taxed 0 5, taxed 5 0, taxed 5 200000000],
      (exportGenesis s1).isOk = true ∧ (∀ g, exportGenesis s1 = .ok g → initGenesis rel0 g = .panic "params") ∧
      btcRoundTripOk rel0 s1 = false := by
  refine ⟨by decide, by decide, by decide, by decide, ?_⟩
  intro s1 hs1
  simp only [List.mem_cons, List.not_mem_nil, or_false] at hs1
  rcases hs1 with rfl | rfl | rfl
  · exact ⟨by decide, fun g hg => import_needs_valid_params rel0 _ g hg (by decide), by decide⟩
  · exact ⟨by decide, fun g hg => import_needs_valid_params rel0 _ g hg (by decide), by decide⟩
  · exact ⟨by decide, fun g hg => import_needs_valid_params rel0 _ g hg (by decide), by decide⟩

/-! ### the wish "import ∘ export succeeds for every store" is false of the model

  The three classes above, as the negation of the unrestricted statement. -/
theorem export_import_needs_BWf :
    ¬ ∀ (rel : Relayer.State) (s : State), ∃ g s', exportGenesis s = .ok g ∧ initGenesis rel g = .ok s' := by
  intro h
  obtain ⟨g, s', h1, h2⟩ := h rel0 (taxed 0 5)
  have := import_needs_valid_params rel0 _ g h1 (by decide)
  rw [this] at h2; cases h2

/-! ### InitGenesis accepts repeated ids silently

  Unlike x/relayer, the bridge import has no "seen" set: of two genesis entries with the same
  withdrawal id (or deposit key) the later one wins, and the next export has one entry fewer.  Hence
  the duplicate-freeness hypothesis of `btc_import_export`. -/
def gDup : BGenesis := { g0 with withdrawals := (9, wd 1 .canceled none) :: g0.withdrawals }

theorem duplicate_ids_accepted_silently :
    initGenesis rel0 gDup = .ok (importedState gDup pk0) ∧
    nlookup (importedState gDup pk0).withdrawals 9 = some (wd 7000 .pending none) ∧
    exportGenesis (importedState gDup pk0) = .ok g0 ∧ g0 ≠ gDup := by decide

/-! ### the largest uint64 tip cannot be re-exported

  `for i := genesis.BlockTip + 1; i > 0; i--` does not run when `BlockTip + 1` wraps to 0: a chain
  imported with tip 2^64-1 exports no block hash, and that genesis is refused.  (Unreachable by
  voting: `NewBlockHashes` demands `start = tip + 1 ≠ 0`.)  Hence `tip + 1 < 2^64` in `BWf`. -/
def gMax : BGenesis := { g0 with tip := 18446744073709551615, hashes := [h32 7] }

theorem max_tip_cannot_be_reexported :
    initGenesis rel0 gMax = .ok (importedState gMax pk0) ∧
    exportGenesis (importedState gMax pk0) = .ok { gMax with hashes := [] } ∧
    initGenesis rel0 { gMax with hashes := [] } = .panic "no-block-hash" := by decide

end Finding

/-! ## bundle -/

/-- **C18 for x/bitcoin and x/goat.**  For every bridge store satisfying `BWf` (with the relayer
    store of the same application) and every state of the goat module: both modules export without
    panic, both imports accept the exported genesis, the imported bridge store answers every `Get`
    like the original (and is the original in store order), the imported goat state is the original,
    and both second exports equal the first. -/
theorem c18b_round_trip (rel : Relayer.State) (s : State) (gs : App.GState) (wf : BWf rel s) :
    (∃ g s', exportGenesis s = .ok g ∧ initGenesis rel g = .ok s' ∧ BReproduces s s' ∧ s' = canonState s ∧
      exportGenesis s' = .ok g) ∧
    (∃ g, exportGoatGenesis gs = .ok g ∧ initGoatGenesis g = .ok gs) ∧
    btcRoundTripOk rel s = true ∧ goatRoundTripOk gs = true ∧ genesisRoundTripOk rel s gs = true := by
  obtain ⟨g, h1, _, h3, _⟩ := goat_export_import gs
  exact ⟨btc_export_import rel s wf, ⟨g, h1, h3⟩, btcRoundTripOk_of rel s wf, goatRoundTripOk_true gs,
    by simp [genesisRoundTripOk, btcRoundTripOk_of rel s wf, goatRoundTripOk_true gs]⟩

/-
  ## Reading of every theorem (one line each)

  finite maps / order / sorting (infrastructure)
    nlookup_eq, ninsert_eq        `Bitcoin.nlookup/ninsert` are `klookup/kinsert` at key type Nat
    klookup_cons_eq/_ne, mem_of_klookup, klookup_eq_none_iff, klookup_isSome_of_mem, klookup_eq_some_iff
                                  `Get` on an association list: hit, miss, returns a stored entry, exact with distinct keys
    klookup_ext, mem_iff_of_klookup   with distinct keys: same entries ⇔ same `Get` answers
    kinsert_fresh, kinsert_fold_fresh, kinsert_keys, kinsert_nodup, kinsert_fold_nodup, mem_kinsert
                                  `Set` appends a fresh key, never duplicates a key, adds only the new entry
    mapEq_iff                     `mapEq m m' = true` ⇔ both lists answer every `Get` alike
    StrictOrder, strict_natLt/natGt/bytesLt/lex/pullback/depLt, bytesLt_tri
                                  the iteration orders are strict total orders
    sortBy_perm, sortBy_sorted, sortBy_strict, sortBy_id, sortBy_idem, sortBy_ext, sortBy_keys_nodup, nodup_of_strict
                                  the export lists every entry once, in order; sorted input is unchanged; the
                                  result depends only on the map, not on the list order
    u8_lt, bytesLt_cons, bytesLt_nil_nil, bytesLt_be32, bytesLt_append, depLt_is_store_order
                                  `depLt` = byte-wise order of `len ‖ txid ‖ BE32(txout)` (txid ≤ 255 bytes, txout < 2^32)
  block hashes
    stampN_*, nlookup_stampN_ge, nlookup_stampN_isSome, mem_stampN_val
                                  the map the import loop writes: the i-th hash at height tip - i
    exportHashes_zero/_succ_none/_succ_some/_congr/_length_le/_mem/_spec
                                  the downward walk: reads only lookups, ≤ tip+1 hashes, all stored, covers a
                                  block of present heights and stops at height 0 or at a missing height
    exportHashes_stampN           walking an imported map returns the imported hashes
    nlookup_stamp_export_some/_none   after re-import: heights reached by the walk keep their hash; nothing at or
                                  below a missing height survives
    initHashes_ok_iff(_gen), initHashes_not_err   the import loop succeeds iff all hashes have 32 bytes and there are
                                  at most tip+1 of them; it then writes `stampN (tip+1) hashes`
    hashFold_spec, newBlockHashes_keeps_hash_clauses   NewBlockHashes keeps "32 bytes, gap-free range ending at the tip,
                                  no repeated height"
  x/bitcoin
    genesisValidate_cases         the four outcomes of GenesisState.Validate
    initGenesis_ok_iff            InitGenesis returns a store iff `ImportDemands` holds; the store is `importedState`
    initGenesis_congr_rel         the import reads the relayer store only through "is this key registered"
    importedState_nodup           an imported store has no repeated keys
    kind_of_valid                 a key that passes Validate is a stored key
    btc_import_export             accepted genesis, distinct keys, tip < 2^64-1 ⇒ the next export is the genesis in store order
    btc_import_export_exact       … verbatim if the genesis lists were in store order
    exportGenesis_ok_iff          ExportGenesis panics exactly on a missing Pubkey item; otherwise returns `exportedOf`
    klookup_sortBy, hashes_reproduced   sorted copies / re-imported hashes answer every `Get` alike
    btc_export_import             `BWf s` ⇒ export ok, import ok, `BReproduces s s'`, `s' = canonState s`, second export = first
    BReproduces.content           equal finite maps without repeated keys: same entries, same exported lists
    reimported_hashes             which block hashes the re-imported store has, for ANY store
    hashes_below_gap_are_lost     a missing height j ≤ tip: ≤ tip - j hashes exported, none at heights ≤ j re-imported
    tip_hash_missing_blocks_import   no hash at the tip ⇒ nothing exported ⇒ InitGenesis panics "no-block-hash"
    import_needs_valid_params     parameters failing Params.Validate ⇒ export ok, InitGenesis panics "params"
    tax_params_invalid, tax_params_block_import   the three F7c classes fail Params.Validate, hence block the import
    gapFreeOk_iff, bwfOk_iff      the Boolean checks decide the gap-freeness clause / `BWf` (so `BWf` is `decide`-able)
    btcRoundTripOk_iff            `btcRoundTripOk rel s = true` ⇔ export ok ∧ import ok ∧ BReproduces ∧ second export = first
    btcRoundTripOk_of             `BWf` ⇒ the check says true
    btcRoundTripOk_content        check true + distinct keys ⇒ the imported maps have exactly the original entries
    btcRoundTripOk_only_if, btcRoundTripOk_iff_BWf   (uint64 tip, no repeated height) check true ⇒ `BWf`; hence ⇔
  x/goat
    exportGoatStore_ok_iff, exportGoatStore_panics_iff   ExportGenesis succeeds iff all three items exist
    goat_export_import            every state: export ok, import gives the same state back, second export = first
    goat_import_export            every genesis is accepted; the state holds its head and root; export returns it
    goat_store_round_trip         the same on the level of the three store items
    goatRoundTripOk_iff, goatRoundTripOk_true   the executable check is that statement, and it is always true
  examples / findings / bundle
    Example.s0_export, s0_check, gap_loses_data; Finding.runtime_tax_params_block_import,
    export_import_needs_BWf, duplicate_ids_accepted_silently, max_tip_cannot_be_reexported; c18b_round_trip

  ## Go behaviour modelled (GoatModel/GenesisBtc.lean)

  x/bitcoin InitGenesis: `genState.Validate()` (Params.Validate; PublicKey.Validate when the pointer is
    non-nil; "no block hash provided"), panic on its error; the block-hash loop with both panics (length ≠ 32;
    more hashes than tip+1) and `BlockHashes.Set(tip - idx, hash)`; `MustHasKey` (nil pointer dereference
    = panic; key not registered in the relayer module = panic); `Deposited.Set` failing for txids longer
    than 255 bytes (key codec of collections v0.4.0); `Set` semantics for repeated keys (later entry wins);
    all items and sequences copied.  The order of the checks is the order of the Go code (the panic class
    is observable).
  x/bitcoin ExportGenesis: `Pubkey.Get` panicking on a missing item (model: `pubkey.kind = 2`); the
    block-hash loop `for i := tip+1; i > 0; i--` in uint64 with `break` at the first missing height;
    `Deposited.Iterate` in store-key order (length byte, txid, BE32 txout); Withdrawals / Processing in
    descending id order; items and sequences copied.
  x/bitcoin DefaultGenesis (reference; it has no key and cannot be imported as it stands).
  x/goat InitGenesis (three `Item.Set`, nothing validated), ExportGenesis (three `Item.Get`, each
    panicking on a missing item), GenesisState.Validate (accepts everything).

  ## Left out

  - JSON / protobuf (de)serialisation of the genesis file (values are carried as they are); the
    `ValidateGenesis` entry point of the module manager (same `Validate` function).
  - `Params.NetworkName` and its lookup in `BitcoinNetworks` (not part of the model's `Params`; the name
    is copied verbatim and cannot change at run time); the empty `Params` of x/goat; the fields of the
    recorded `ExecutionPayload` other than block hash, number and parent hash (all copied alike).
  - Range of the protobuf integer types (uint64 / uint32) except for the wrap of `tip + 1`.
  - `Params.Get`, `EthTxQueue.Get`, `Block.Get` … failing on a bridge store that was never initialised
    (the model's bridge state always holds these items; for x/goat the missing items are modelled).
  - Store/codec errors other than the key-size check (value encoding cannot fail for these types).
  - The module initialisation order (relayer before bitcoin) is an assumption: `initGenesis` takes the
    relayer store as a parameter.  Neither function emits events or logs.
-/

end Goat.C18B
