/-
  C14H — history-level theorems for C14 (downtime jails and slashes once; double-signing tombstones
  for good), over the locking model `GoatModel/Locking.lean`.

  Property C14 (verbatim): "An active validator absent for the configured number of blocks within a
  signing window is demoted, loses its voting power, is slashed by the downtime fraction exactly once
  for that offence and stays out until the jail time has passed and it again meets every token
  threshold. A validator with unexpired double-sign or light-client-attack evidence is slashed by the
  double-sign fraction and tombstoned permanently: it never regains voting power or validator-set
  membership, whatever is locked to it later. Validators that are not active are not counted for
  downtime, and evidence older than both age limits is ignored."

  Histories are lists of `C11H.Op` (processRequests, beginBlock, endBlocker, dequeue); `runS` is the
  state component of `C11H.run` (`Lemmas/LockingHist.lean`, `runS_eq_run`); a failing operation leaves
  the state unchanged.

  (a) `Tomb s a`  — tombstoned, power 0, not ranked, not indexed.
      `evidence_establishes_tomb`   handleEvidence establishes it (from `Link`, a conjunct of C18.Derived:
                                     `link_of_derived`)
      `tombstone_permanent`         any history keeps it, and keeps the validator out of the recorded set
      `tombstone_leaves_valset`     after the first successful EndBlocker it is out of the recorded set, for good
      `tombstone_step`              the same for one operation
      `beginBlock_tombstones`       at the level of the entry point; `tombstoned_forever_from_genesis`: no hypothesis
                                    on the state (`Link` is an invariant: `Goat.Locking.reachable_linked`)
  (b) `Jailed s a J` — Downgrade, jailed until `J`, power 0, not ranked, not indexed.
      `downtime_establishes_jailed` the demoting vote record establishes it with `J = now + downtimeJail`
      `jailed_stays_out`            any history whose block times are ≤ J keeps it out (never Active/Pending,
                                     power 0, not in the recorded set after an EndBlocker)
      `rejoin_only_after_jail`      when it is Active/Pending again after an operation, that operation is a
                                     request batch at a time > J with a `lockOne` that found every threshold met
      `lockOne_jailed_exact`        the exact condition in `lockOne`
      `beginBlock_jails`, `jailed_from_genesis`   at the level of the entry point / from genesis
  (c) `slashed_once_per_offence`, `activation_only_by_endBlocker`, `demotion_only_by_beginBlock`,
      `reactivation_resets` — see the section (c).
-/
import GoatProofs.Lemmas.LockingHist
import GoatProofs.C14
import GoatProofs.C18
namespace Goat.C14H
open Goat Goat.Locking
open Goat.C11H (Op)

/-! ## (a) tombstoned for good -/

/-- **The invariant of a tombstoned validator**: it has a record with status Tombstoned and power 0,
    no ranking entry and no entry in the per-token locking index. -/
def Tomb (s : State) (a : Bytes) : Prop := ∃ v, OutRec s a v ∧ v.status = .tombstoned

/-- `Tomb` spelled out -/
theorem tomb_iff (s : State) (a : Bytes) :
    Tomb s a ↔ ∃ v, vget s a = some v ∧ v.status = .tombstoned ∧ v.power = 0 ∧
      (∀ p, (p, a) ∉ s.ranking) ∧ (∀ d x, ((d, a), x) ∉ s.lockingIdx) := by
  constructor
  · rintro ⟨v, ho, hs⟩
    exact ⟨v, ho.vrec, hs, ho.power, ho.unranked, ho.unindexed⟩
  · rintro ⟨v, h1, h2, h3, h4, h5⟩
    exact ⟨v, ⟨h1, by rw [h2]; decide, h3, h4, h5⟩, h2⟩

/-- the hypothesis `Link` of the establishing theorems is a consequence of `C18.Derived` (the relation
    between primary and derived data at committed states) for distinct validator addresses -/
theorem link_of_derived (s : State) (hd : C18.Derived s) (hn : (s.validators.map (·.1)).Nodup) (a : Bytes) (v : Validator)
    (hv : vget s a = some v) : Link s a v := by
  constructor
  · intro p hp
    obtain ⟨v', hm, _, hpw, _⟩ := (hd.rank_mem p a).mp hp
    have := C18.vget_of_mem s hn a v' hm
    rw [hv] at this
    cases this
    exact hpw.symm
  · intro d x hp
    obtain ⟨v', hm, _, hl⟩ := (hd.idx_mem d a x).mp hp
    have := C18.vget_of_mem s hn a v' hm
    rw [hv] at this
    cases this
    exact List.mem_map.mpr ⟨(d, x), hl, rfl⟩

/-- **handleEvidence establishes `Tomb`**: unexpired duplicate-vote / light-client-attack evidence
    against a validator that is not yet tombstoned slashes its holding by the double-sign fraction and
    leaves it `Tomb`; the recorded set is not touched by this step (the next EndBlocker removes it:
    `tombstone_leaves_valset`). -/
theorem evidence_establishes_tomb (s s' : State) (now height : Int) (maxAge : Option (Int × Int)) (e : Evidence)
    (v : Validator) (hk : e.kind = 1 ∨ e.kind = 2) (hfresh : isStale now height maxAge e = false)
    (hv : vget s e.address = some v) (hs : v.status ≠ .tombstoned) (hl : Link s e.address v)
    (hok : handleEvidence s now height maxAge e = .ok s') :
    Tomb s' e.address ∧ s'.valset = s.valset ∧
    ∃ v', vget s' e.address = some v' ∧
      v'.locking = (slashAll (rankRemove s v.power e.address) e.address v s.params.slashDoubleSign).2 := by
  obtain ⟨v', ho, h1, _, h3, h4, _⟩ := handleEvidence_establishes s s' now height maxAge e v hk hfresh hv hs hl hok
  exact ⟨⟨v', ho, h1⟩, h4, v', ho.vrec, h3⟩

/-- second evidence against a tombstoned validator: nothing happens (not slashed again) -/
theorem tomb_not_slashed_again (s : State) (a : Bytes) (h : Tomb s a) (now height : Int) (maxAge : Option (Int × Int))
    (e : Evidence) (he : e.address = a) : handleEvidence s now height maxAge e = .ok s := by
  obtain ⟨v, ho, hs⟩ := h
  exact C14.tombstoned_not_slashed_again s now height maxAge e v (he ▸ ho.vrec) hs

theorem noRejoin_of_tombstoned {v : Validator} (hs : v.status = .tombstoned) (ops : List Op) : NoRejoin v ops :=
  Or.inl (by rw [hs]; decide)

/-- **Tombstoning is permanent (one operation)**: whatever the operation — requests that create, lock
    to, unlock from or claim for the validator, weight changes, votes, further evidence, EndBlocker,
    hand-over — the validator is still `Tomb` afterwards, does not enter the recorded set, and a
    successful EndBlocker leaves it outside the recorded set. -/
theorem tombstone_step (s : State) (a : Bytes) (op : Op) (h : Tomb s a) :
    Tomb (step s op) a ∧ (a ∉ s.valset.map (·.1) → a ∉ (step s op).valset.map (·.1)) ∧
    (∀ s' ups, op = .endBlocker → endBlocker s = .ok (s', ups) → a ∉ (step s op).valset.map (·.1)) := by
  obtain ⟨v, ho, hs⟩ := h
  rcases step_out s op a v ho with h1 | ⟨now, _, h1⟩
  · obtain ⟨v', o, l, _, m1, m2⟩ := h1
    exact ⟨⟨v', o, l.tombstoned hs⟩, m1, m2⟩
  · have := h1.1; rw [hs] at this; cases this

/-- **Tombstoning is permanent (any history)**: from a state in which `a` is `Tomb`, after any finite
    history of operations `a` is still tombstoned with power 0, not ranked, not indexed — whatever is
    locked to it later — and if it was outside the recorded set it still is. -/
theorem tombstone_permanent (s : State) (a : Bytes) (ops : List Op) (h : Tomb s a) :
    Tomb (runS s ops) a ∧ (a ∉ s.valset.map (·.1) → a ∉ (runS s ops).valset.map (·.1)) := by
  obtain ⟨v, ho, hs⟩ := h
  obtain ⟨v', o, l, _, m⟩ := runS_out a ops s v ho (noRejoin_of_tombstoned hs ops)
  exact ⟨⟨v', o, l.tombstoned hs⟩, m⟩

/-- the same, spelled out -/
theorem tombstone_permanent' (s : State) (a : Bytes) (ops : List Op) (h : Tomb s a) :
    ∃ v, vget (runS s ops) a = some v ∧ v.status = .tombstoned ∧ v.power = 0 ∧
      (∀ p, (p, a) ∉ (runS s ops).ranking) ∧ (∀ d x, ((d, a), x) ∉ (runS s ops).lockingIdx) :=
  (tomb_iff _ _).mp (tombstone_permanent s a ops h).1

/-- **Out of the recorded set after the next EndBlocker, forever**: once an EndBlocker has succeeded
    after the tombstoning, the validator is not in the recorded set at any later point. -/
theorem tombstone_leaves_valset (s : State) (a : Bytes) (xs ys : List Op) (h : Tomb s a) (s1 : State) (ups : List Update)
    (hend : endBlocker (runS s xs) = .ok (s1, ups)) :
    a ∉ (runS s (xs ++ .endBlocker :: ys)).valset.map (·.1) := by
  obtain ⟨v, ho, hs⟩ := h
  exact runS_out_valset a xs ys s v ho (noRejoin_of_tombstoned hs _) s1 ups hend

/-- the same when the EndBlocker is the very next operation -/
theorem tombstone_leaves_valset_next (s : State) (a : Bytes) (ys : List Op) (h : Tomb s a) (s1 : State) (ups : List Update)
    (hend : endBlocker s = .ok (s1, ups)) : a ∉ (runS s (.endBlocker :: ys)).valset.map (·.1) :=
  tombstone_leaves_valset s a [] ys h s1 ups hend

/-! ## (b) jailed for downtime -/

/-- a validator demoted for downtime: Downgrade, jailed until `J`, power 0, not ranked, not indexed -/
def Jailed (s : State) (a : Bytes) (J : Int) : Prop := ∃ v, OutRec s a v ∧ v.status = .downgrade ∧ v.jailedUntil = J

/-- **The demoting vote record establishes `Jailed`** with `J = now + downtimeJail`; the holding is
    slashed by the downtime fraction in this very step. -/
theorem downtime_establishes_jailed (s s' : State) (now : Int) (vi : VoteInfo) (v : Validator)
    (hv : vget s vi.address = some v) (hs : v.status = .active) (hl : Link s vi.address v)
    (hdown : ((if vi.absent then v.missed + 1 else v.missed : Nat) : Int) ≥ s.params.maxMissed)
    (hok : handleVote s now vi = .ok s') :
    Jailed s' vi.address (now + s.params.downtimeJail) ∧ s'.valset = s.valset := by
  obtain ⟨v', ho, h1, h2, _, h4, _⟩ := handleVote_establishes s s' now vi v hv hs hl hdown hok
  exact ⟨⟨v', ho, h1, h2⟩, h4⟩

/-- **A jailed validator stays out while the block times are within its jail time.**  After any
    history all of whose block times are ≤ `J` the validator is neither Active nor Pending (it is
    Downgrade with the same jail time, or has become Inactive or Tombstoned), has power 0, is neither
    ranked nor indexed, and has not entered the recorded set. -/
theorem jailed_stays_out (s : State) (a : Bytes) (J : Int) (ops : List Op) (h : Jailed s a J)
    (ht : ∀ op ∈ ops, ∀ now, opTime op = some now → now ≤ J) :
    ∃ v', OutRec (runS s ops) a v' ∧ v'.jailedUntil = J ∧
      (v'.status = .downgrade ∨ v'.status = .inactive ∨ v'.status = .tombstoned) ∧
      (a ∉ s.valset.map (·.1) → a ∉ (runS s ops).valset.map (·.1)) := by
  obtain ⟨v, ho, _, hj⟩ := h
  obtain ⟨v', o, l, _, m⟩ := runS_out a ops s v ho (Or.inr (by rw [hj]; exact ht))
  refine ⟨v', o, l.jail.trans hj, ?_, m⟩
  have := o.out
  cases hs : v'.status <;> rw [hs] at this <;> simp [outLevel] at this ⊢

/-- … and it is out of the recorded set once an EndBlocker has succeeded -/
theorem jailed_leaves_valset (s : State) (a : Bytes) (J : Int) (xs ys : List Op) (h : Jailed s a J)
    (ht : ∀ op ∈ xs ++ .endBlocker :: ys, ∀ now, opTime op = some now → now ≤ J) (s1 : State) (ups : List Update)
    (hend : endBlocker (runS s xs) = .ok (s1, ups)) :
    a ∉ (runS s (xs ++ .endBlocker :: ys)).valset.map (·.1) := by
  obtain ⟨v, ho, _, hj⟩ := h
  exact runS_out_valset a xs ys s v ho (Or.inr (by rw [hj]; exact ht)) s1 ups hend

/-- **Back only after the jail time, with every threshold met.**  If a jailed validator is Active or
    Pending after an operation, that operation is a request batch with block time `now > J`, in which a
    `lockOne` for it made it Pending and found `isAllGTE holdings thresholds`. -/
theorem rejoin_only_after_jail (s : State) (a : Bytes) (J : Int) (op : Op) (h : Jailed s a J) (v' : Validator)
    (hv' : vget (step s op) a = some v') (hap : v'.status = .active ∨ v'.status = .pending) :
    ∃ now, opTime op = some now ∧ now > J ∧
      ∃ si coins sj vj, lockOne si now a coins = .ok sj ∧ vget sj a = some vj ∧ vj.status = .pending ∧
        isAllGTE vj.locking si.threshold = true := by
  obtain ⟨v, ho, _, hj⟩ := h
  rcases step_out s op a v ho with h1 | ⟨now, hn, h1⟩
  · obtain ⟨w, o, _⟩ := h1
    have := o.vrec
    rw [hv'] at this
    cases this
    rcases hap with hap | hap
    · exact absurd hap (out_ne_active o.out)
    · exact absurd hap (out_ne_pending o.out)
  · exact ⟨now, hn, hj ▸ h1.2.1, h1.2.2⟩

/-- **`lockOne` on a jailed validator, exactly**: the coins are credited in any case; it becomes
    Pending iff the block time is after the jail time and the new holding meets every token threshold;
    otherwise it stays Downgrade. -/
theorem lockOne_jailed_exact (s s' : State) (now : Int) (a : Bytes) (coins : Coins) (v : Validator)
    (hv : vget s a = some v) (hs : v.status = .downgrade) (hok : lockOne s now a coins = .ok s') :
    ∃ v', vget s' a = some v' ∧ v'.locking = addCoins v.locking coins ∧ v'.jailedUntil = v.jailedUntil ∧
      (v'.status = .pending ∨ v'.status = .downgrade) ∧
      (v'.status = .pending ↔ (now > v.jailedUntil ∧ isAllGTE (addCoins v.locking coins) s.threshold = true)) := by
  unfold lockOne at hok
  rw [hv] at hok
  dsimp only at hok
  split at hok
  · cases hok
  · simp only [hs] at hok
    split at hok
    · rename_i hcond
      split at hok
      · cases hok
      · cases hok
      · cases hok
        exact ⟨_, vget_vset_same _ _ _, rfl, rfl, Or.inl rfl, fun _ => hcond, fun _ => rfl⟩
    · rename_i hcond
      cases hok
      refine ⟨_, vget_vset_same _ _ _, rfl, rfl, Or.inr rfl, ?_, ?_⟩
      · intro h; cases h
      · intro h; exact absurd h hcond

/-! ## (a), (b) at the level of the entry point: BeginBlock -/

theorem foldlM_append_ok {α β : Type} (f : β → α → Outcome β) : ∀ (l l' : List α) (b b' : β),
    (l ++ l').foldlM f b = .ok b' → ∃ b1, l.foldlM f b = .ok b1 ∧ l'.foldlM f b1 = .ok b' := by
  intro l
  induction l with
  | nil => intro l' b b' h; exact ⟨b, rfl, h⟩
  | cons x xs ih =>
    intro l' b b' h
    rw [List.cons_append] at h
    obtain ⟨b0, h0, h1⟩ := foldlM_cons_ok f x (xs ++ l') b b' h
    obtain ⟨b1, h2, h3⟩ := ih l' b0 b' h1
    refine ⟨b1, ?_, h3⟩
    rw [List.foldlM_cons]
    exact (bind_eq_ok _ _ _).mpr ⟨b0, h0, h2⟩

/-- **A block with fresh double-sign evidence tombstones for good.**  If `a` is not yet tombstoned and
    its ranking / index entries are the ones its record accounts for (`Link`; true at committed states:
    `link_of_derived`), then a successful BeginBlock carrying unexpired duplicate-vote or
    light-client-attack evidence against `a` ends with `a` in `Tomb` — whatever else the block contains
    (rewards, other votes and evidence, also a downtime demotion of `a` earlier in the same block). -/
theorem beginBlock_tombstones (s s' : State) (height now : Int) (votes : List VoteInfo) (maxAge : Option (Int × Int))
    (evs : List Evidence) (a : Bytes) (v : Validator) (hv : vget s a = some v) (hnt : v.status ≠ .tombstoned)
    (hl : Link s a v) (e : Evidence) (he : e ∈ evs) (hea : e.address = a) (hk : e.kind = 1 ∨ e.kind = 2)
    (hfresh : isStale now height maxAge e = false) (hok : beginBlock s height now votes maxAge evs = .ok s') :
    Tomb s' a := by
  have ok : LinkedOK (fun w => w.status ≠ .tombstoned) (fun w => w.status = .tombstoned) (now + s.params.downtimeJail) :=
    ⟨fun v w h1 _ h2 => by rw [h1]; exact h2, fun v w l _ h => l.tombstoned h,
     fun v' h _ => Or.inl (by rw [h]; decide), fun v' h => h⟩
  unfold beginBlock at hok
  obtain ⟨s1, h1, hok⟩ := (bind_eq_ok _ _ _).mp hok
  obtain ⟨s3, h3, hok⟩ := (bind_eq_ok _ _ _).mp hok
  obtain ⟨l3, _⟩ := beginBlock_votes_linked ok s s1 s3 height now votes a rfl (Or.inl ⟨v, hv, hnt, hl⟩) h1 h3
  obtain ⟨pre, post, rfl⟩ := List.append_of_mem he
  obtain ⟨s4, h4, hok⟩ := foldlM_append_ok _ pre (e :: post) s3 s' hok
  obtain ⟨s5, h5, h6⟩ := foldlM_cons_ok _ e post s4 s' hok
  have l4 := evidences_linked ok now height maxAge a pre s3 s4 l3 h4
  have t5 : Tomb s5 a := by
    subst hea
    rcases l4 with ⟨w, w1, w2, w3⟩ | ⟨w, w1, w2⟩
    · obtain ⟨v', o, e1, _⟩ := handleEvidence_establishes s4 s5 now height maxAge e w hk hfresh w1 w2 w3 h5
      exact ⟨v', o, e1⟩
    · obtain ⟨w', o, l, _⟩ := handleEvidence_out s4 s5 now height maxAge e e.address w w1 h5
      exact ⟨w', o, l.tombstoned w2⟩
  obtain ⟨w, ow, hw⟩ := t5
  obtain ⟨w', o, l, _⟩ := stays_foldlM a w s5 _
    (fun b x b' u ou hstep => handleEvidence_out b b' now height maxAge x a u ou hstep) post s5 s' (Stays.refl ow) h6
  exact ⟨w', o, l.tombstoned hw⟩

/-- **A block that demotes for downtime jails.**  If `a` is Active (entries as its record accounts for)
    before a successful BeginBlock and Downgrade after it, then it is `Jailed` until the block time plus
    the jail duration: power 0, not ranked, not indexed, slashed in this block. -/
theorem beginBlock_jails (s s' : State) (height now : Int) (votes : List VoteInfo) (maxAge : Option (Int × Int))
    (evs : List Evidence) (a : Bytes) (v v' : Validator) (hv : vget s a = some v) (hs : v.status = .active)
    (hl : Link s a v) (hok : beginBlock s height now votes maxAge evs = .ok s')
    (hv' : vget s' a = some v') (hd : v'.status = .downgrade) :
    Jailed s' a (now + s.params.downtimeJail) := by
  have ok : LinkedOK (fun w => w.status = .active)
      (fun w => w.status = .downgrade → w.jailedUntil = now + s.params.downtimeJail) (now + s.params.downtimeJail) := by
    refine ⟨fun v w h1 _ h2 => by rw [h1]; exact h2, ?_, fun v' _ h => Or.inr (fun _ => h), fun v' h h' => by rw [h] at h'; cases h'⟩
    intro v w l hout h hw
    rw [l.jail]
    apply h
    have := l.level
    rw [hw] at this
    cases hs : v.status <;> rw [hs] at this hout <;> simp [outLevel] at this hout
  unfold beginBlock at hok
  obtain ⟨s1, h1, hok⟩ := (bind_eq_ok _ _ _).mp hok
  obtain ⟨s3, h3, hok⟩ := (bind_eq_ok _ _ _).mp hok
  obtain ⟨l3, _⟩ := beginBlock_votes_linked ok s s1 s3 height now votes a rfl (Or.inl ⟨v, hv, hs, hl⟩) h1 h3
  rcases evidences_linked ok now height maxAge a evs s3 s' l3 hok with ⟨w, w1, w2, _⟩ | ⟨w, w1, w2⟩
  · rw [hv'] at w1; cases w1
    rw [hd] at w2; cases w2
  · have := w1.vrec
    rw [hv'] at this; cases this
    exact ⟨v', w1, hd, w2 hd⟩

/-! ## (a), (b) from genesis: no hypothesis on the state

  `Link` is an invariant of the model: `Goat.Locking.reachable_linked` (every writer keeps `LA`, given
  slash fractions ≤ 1 as `Params.Validate` demands).  So for every state reached from the empty state by
  any history the establishing theorems apply without hypothesis on the state. -/

/-- **Tombstoned for good, from genesis.**  Start from the empty state (slash fractions ≤ 1), run any
    history `ops1`; if the next BeginBlock succeeds and carries unexpired duplicate-vote or
    light-client-attack evidence against a validator that is not yet tombstoned, then after any further
    history `ops2` that validator is tombstoned with power 0, not ranked, not indexed. -/
theorem tombstoned_forever_from_genesis (p : Params) (hp : p.slashDowntime ≤ e18 ∧ p.slashDoubleSign ≤ e18)
    (ops1 : List Op) (height now : Int) (votes : List VoteInfo) (maxAge : Option (Int × Int)) (evs : List Evidence)
    (e : Evidence) (he : e ∈ evs) (hk : e.kind = 1 ∨ e.kind = 2) (hfresh : isStale now height maxAge e = false)
    (v : Validator) (hv : vget (runS (C11H.genesis p) ops1) e.address = some v) (hnt : v.status ≠ .tombstoned)
    (s' : State) (hok : beginBlock (runS (C11H.genesis p) ops1) height now votes maxAge evs = .ok s') (ops2 : List Op) :
    Tomb (runS s' ops2) e.address :=
  (tombstone_permanent s' e.address ops2
    (beginBlock_tombstones _ s' height now votes maxAge evs e.address v hv hnt (reachable_linked p hp ops1 e.address v hv).link
      e he rfl hk hfresh hok)).1

/-- … and it is out of the recorded set from the next successful EndBlocker on -/
theorem tombstoned_leaves_valset_from_genesis (p : Params) (hp : p.slashDowntime ≤ e18 ∧ p.slashDoubleSign ≤ e18)
    (ops1 : List Op) (height now : Int) (votes : List VoteInfo) (maxAge : Option (Int × Int)) (evs : List Evidence)
    (e : Evidence) (he : e ∈ evs) (hk : e.kind = 1 ∨ e.kind = 2) (hfresh : isStale now height maxAge e = false)
    (v : Validator) (hv : vget (runS (C11H.genesis p) ops1) e.address = some v) (hnt : v.status ≠ .tombstoned)
    (s' : State) (hok : beginBlock (runS (C11H.genesis p) ops1) height now votes maxAge evs = .ok s')
    (xs ys : List Op) (s1 : State) (ups : List Update) (hend : endBlocker (runS s' xs) = .ok (s1, ups)) :
    e.address ∉ (runS s' (xs ++ .endBlocker :: ys)).valset.map (·.1) :=
  tombstone_leaves_valset s' e.address xs ys
    (beginBlock_tombstones _ s' height now votes maxAge evs e.address v hv hnt (reachable_linked p hp ops1 e.address v hv).link
      e he rfl hk hfresh hok) s1 ups hend

/-- **Jailed, from genesis.**  In any state reached from the empty state, a BeginBlock that turns an
    Active validator into a Downgrade one leaves it `Jailed` until block time + jail duration; hence
    (`jailed_stays_out`) it stays out while block times are within the jail time. -/
theorem jailed_from_genesis (p : Params) (hp : p.slashDowntime ≤ e18 ∧ p.slashDoubleSign ≤ e18)
    (ops1 : List Op) (height now : Int) (votes : List VoteInfo) (maxAge : Option (Int × Int)) (evs : List Evidence)
    (a : Bytes) (v v' : Validator) (hv : vget (runS (C11H.genesis p) ops1) a = some v) (hs : v.status = .active)
    (s' : State) (hok : beginBlock (runS (C11H.genesis p) ops1) height now votes maxAge evs = .ok s')
    (hv' : vget s' a = some v') (hd : v'.status = .downgrade) :
    Jailed s' a (now + p.downtimeJail) := by
  have := beginBlock_jails _ s' height now votes maxAge evs a v v' hv hs (reachable_linked p hp ops1 a v hv).link hok hv' hd
  rw [runS_params] at this
  exact this

/-! ## (c) slashed once per offence

  `handleVote` slashes (by the downtime fraction) exactly in the step in which it demotes an Active
  validator to Downgrade (`C14.downtime_exact`, `downtime_establishes_jailed`); a validator that is not
  Active is not counted and not slashed (`C14.non_active_not_counted`).  So "once per offence" is: every
  demotion is backed by `maxMissed` absences of its own.  Stated with a ghost counter: the number of
  absences reported for the validator since it last became Active (`crun`); the counter is reset when —
  and only when — EndBlocker (re-)activates the validator, which also resets both window counters
  (`activation_only_by_endBlocker`).  `slashed_once_per_offence`: whenever an operation demotes the
  validator, the ghost counter (including the absences of that operation) has reached `maxMissed`.
  Between two demotions there is an activation (the status has to come back to Active, only EndBlocker
  does that), hence the absences backing them are disjoint. -/

/-- the relation between the record of `a` before and after one operation -/
def OpRel (a : Bytes) (s : State) (v v' : Validator) : Op → Prop
  | .process _ _ _ _ _ => Quiet v v'
  | .beginBlock height now votes maxAge evs =>
    (∃ s', beginBlock s height now votes maxAge evs = .ok s') ∧ VoteRel s.params.maxMissed (absCount a votes) v v' ∨
    (¬ (∃ s', beginBlock s height now votes maxAge evs = .ok s')) ∧ v' = v
  | .endBlocker => ERel v v'
  | .dequeue => v' = v

/-- **Every operation, at the level of one record**: request batches keep counters and never
    activate / demote; BeginBlock moves the counters by at most the reported absences and demotes only
    when they reach the maximum; EndBlocker only lowers counters and activates with counters at zero. -/
theorem step_rel (s : State) (op : Op) (a : Bytes) (v : Validator) (hv : vget s a = some v) :
    ∃ v', vget (step s op) a = some v' ∧ OpRel a s v v' op := by
  cases op with
  | process hash160 hasAccount height now r =>
    cases hp : processRequests hash160 hasAccount s height now r with
    | ok p =>
      obtain ⟨s', accs⟩ := p
      obtain ⟨v', h1, h2⟩ := processRequests_quiet hash160 hasAccount s s' height now r accs a hp v hv
      exact ⟨v', by simp only [step, hp]; exact h1, h2⟩
    | err e => exact ⟨v, by simp only [step, hp]; exact hv, Quiet.refl v⟩
    | panic e => exact ⟨v, by simp only [step, hp]; exact hv, Quiet.refl v⟩
  | beginBlock height now votes maxAge evs =>
    cases hp : beginBlock s height now votes maxAge evs with
    | ok s' =>
      obtain ⟨v', h1, h2⟩ := beginBlock_rel s s' height now votes maxAge evs a hp v hv
      exact ⟨v', by simp only [step, hp]; exact h1, Or.inl ⟨⟨s', hp⟩, h2⟩⟩
    | err e =>
      refine ⟨v, by simp only [step, hp]; exact hv, Or.inr ⟨?_, rfl⟩⟩
      rintro ⟨s', h⟩; rw [hp] at h; cases h
    | panic e =>
      refine ⟨v, by simp only [step, hp]; exact hv, Or.inr ⟨?_, rfl⟩⟩
      rintro ⟨s', h⟩; rw [hp] at h; cases h
  | endBlocker =>
    cases hp : endBlocker s with
    | ok p =>
      obtain ⟨s', ups⟩ := p
      obtain ⟨v', h1, h2⟩ := endBlocker_rel s s' ups a hp v hv
      exact ⟨v', by simp only [step, hp]; exact h1, h2⟩
    | err e => exact ⟨v, by simp only [step, hp]; exact hv, ERel.refl v⟩
    | panic e => exact ⟨v, by simp only [step, hp]; exact hv, ERel.refl v⟩
  | dequeue =>
    exact ⟨v, (dequeue_keep s a).vrec.trans hv, rfl⟩

/-- **Only EndBlocker activates, and it resets the window counters**: if `a` is not Active before an
    operation and Active after it, the operation is EndBlocker and both counters are zero. -/
theorem activation_only_by_endBlocker (s : State) (op : Op) (a : Bytes) (v v' : Validator) (hv : vget s a = some v)
    (hs : v.status ≠ .active) (hv' : vget (step s op) a = some v') (hs' : v'.status = .active) :
    op = .endBlocker ∧ v'.missed = 0 ∧ v'.offset = 0 := by
  obtain ⟨w, hw, hr⟩ := step_rel s op a v hv
  rw [hv'] at hw; cases hw
  cases op with
  | process hash160 hasAccount height now r => exact absurd (hr.active hs') hs
  | beginBlock height now votes maxAge evs =>
    rcases hr with ⟨_, hr⟩ | ⟨_, hr⟩
    · exact absurd (hr.active hs').1 hs
    · rw [hr] at hs'; exact absurd hs' hs
  | endBlocker =>
    rcases hr.active hs' with h | h
    · exact absurd h hs
    · exact ⟨rfl, h⟩
  | dequeue => rw [hr] at hs'; exact absurd hs' hs

/-- **Only BeginBlock demotes, and only on `maxMissed` absences**: if `a` is not Downgrade before an
    operation and Downgrade after it, the operation is a successful BeginBlock, `a` was Active, and its
    missed-block counter plus the absences reported in this block reach the maximum. -/
theorem demotion_only_by_beginBlock (s : State) (op : Op) (a : Bytes) (v v' : Validator) (hv : vget s a = some v)
    (hs : v.status ≠ .downgrade) (hv' : vget (step s op) a = some v') (hs' : v'.status = .downgrade) :
    ∃ height now votes maxAge evs s', op = .beginBlock height now votes maxAge evs ∧
      beginBlock s height now votes maxAge evs = .ok s' ∧ v.status = .active ∧
      s.params.maxMissed ≤ ((v.missed + absCount a votes : Nat) : Int) := by
  obtain ⟨w, hw, hr⟩ := step_rel s op a v hv
  rw [hv'] at hw; cases hw
  cases op with
  | process hash160 hasAccount height now r => exact absurd (hr.downgrade hs') hs
  | beginBlock height now votes maxAge evs =>
    rcases hr with ⟨⟨s', hok⟩, hr⟩ | ⟨_, hr⟩
    · rcases hr.downgrade hs' with h | ⟨h1, h2⟩
      · exact absurd h hs
      · exact ⟨height, now, votes, maxAge, evs, s', rfl, hok, h1, h2⟩
    · rw [hr] at hs'; exact absurd hs' hs
  | endBlocker => exact absurd (hr.downgrade hs') hs
  | dequeue => rw [hr] at hs'; exact absurd hs' hs

/-- the status of `a` -/
def statusAt (s : State) (a : Bytes) : Option Status := (vget s a).map (·.status)

/-- the absences of `a` reported by an operation that went through -/
def absStep (a : Bytes) (s : State) : Op → Nat
  | .beginBlock height now votes maxAge evs =>
    match beginBlock s height now votes maxAge evs with
    | .ok _ => absCount a votes
    | _ => 0
  | _ => 0

/-- state and ghost counter: the absences of `a` reported since it last became Active -/
def cstep (a : Bytes) (sn : State × Nat) (op : Op) : State × Nat :=
  (step sn.1 op,
   if statusAt sn.1 a ≠ some .active ∧ statusAt (step sn.1 op) a = some .active then 0
   else sn.2 + absStep a sn.1 op)

def crun (a : Bytes) (sn : State × Nat) (ops : List Op) : State × Nat := ops.foldl (cstep a) sn

theorem crun_fst (a : Bytes) (ops : List Op) : ∀ sn : State × Nat, (crun a sn ops).1 = runS sn.1 ops := by
  induction ops with
  | nil => intro sn; rfl
  | cons op ops ih => intro sn; exact ih (cstep a sn op)

/-- the validator exists and, while Active, its missed-block counter is at most the ghost counter -/
def Counted (a : Bytes) (sn : State × Nat) : Prop := ∃ v, vget sn.1 a = some v ∧ (v.status = .active → v.missed ≤ sn.2)

theorem counted_step (a : Bytes) (sn : State × Nat) (op : Op) (h : Counted a sn) : Counted a (cstep a sn op) := by
  obtain ⟨s, n⟩ := sn
  obtain ⟨v, hv, hc⟩ := h
  obtain ⟨v', hv', hr⟩ := step_rel s op a v hv
  refine ⟨v', hv', ?_⟩
  intro hs'
  have hst : statusAt s a = some v.status := by simp [statusAt, hv]
  have hst' : statusAt (step s op) a = some .active := by simp [statusAt, hv', hs']
  simp only [cstep, hst, hst']
  by_cases hs : v.status = .active
  · have hne : ¬ (some v.status ≠ some Status.active ∧ True) := by simp [hs]
    simp only [hs, ne_eq, not_true_eq_false, false_and, if_false]
    have hm := hc hs
    cases op with
    | process hash160 hasAccount height now r => rw [hr.missed]; simp only [absStep]; omega
    | beginBlock height now votes maxAge evs =>
      rcases hr with ⟨⟨s', hok⟩, hr⟩ | ⟨_, hr⟩
      · have := (hr.active hs').2
        simp only [absStep, hok]; omega
      · rw [hr]; omega
    | endBlocker => have := hr.missed; simp only [absStep]; omega
    | dequeue => rw [hr]; simp only [absStep]; omega
  · have hne : some v.status ≠ some Status.active := by simpa using hs
    simp only [ne_eq, hne, not_false_eq_true, and_self, if_true]
    obtain ⟨_, h0, _⟩ := activation_only_by_endBlocker s op a v v' hv hs hv' hs'
    omega

theorem counted_run (a : Bytes) (ops : List Op) : ∀ sn : State × Nat, Counted a sn → Counted a (crun a sn ops) := by
  induction ops with
  | nil => intro sn h; exact h
  | cons op ops ih => intro sn h; exact ih _ (counted_step a sn op h)

/-- **Slashed once per offence.**  Start anywhere with the ghost counter at least the validator's
    missed-block counter (e.g. right after its activation: both 0).  After any history, if the next
    operation demotes the validator (Active before, Downgrade after — the step in which `handleVote`
    slashes by the downtime fraction), then the absences reported for it since it last became Active,
    including those of this operation, have reached `maxMissed`. -/
theorem slashed_once_per_offence (a : Bytes) (sn0 : State × Nat) (ops : List Op) (h0 : Counted a sn0) (op : Op)
    (v v' : Validator) (hv : vget (crun a sn0 ops).1 a = some v) (hs : v.status = .active)
    (hv' : vget (step (crun a sn0 ops).1 op) a = some v') (hs' : v'.status = .downgrade) :
    (crun a sn0 ops).1.params.maxMissed ≤ (((crun a sn0 ops).2 + absStep a (crun a sn0 ops).1 op : Nat) : Int) := by
  obtain ⟨w, hw, hc⟩ := counted_run a ops sn0 h0
  rw [hv] at hw; cases hw
  have hm := hc hs
  obtain ⟨height, now, votes, maxAge, evs, s', rfl, hok, _, hle⟩ :=
    demotion_only_by_beginBlock _ op a v v' hv (by rw [hs]; decide) hv' hs'
  simp only [absStep, hok]
  push_cast at hle ⊢
  omega

/-- after the demotion the ghost counter is not reset until EndBlocker re-activates the validator with
    both window counters at zero: the next demotion needs `maxMissed` fresh absences -/
theorem reactivation_resets (a : Bytes) (sn : State × Nat) (op : Op) (v v' : Validator) (hv : vget sn.1 a = some v)
    (hs : v.status ≠ .active) (hv' : vget (step sn.1 op) a = some v') (hs' : v'.status = .active) :
    op = .endBlocker ∧ (cstep a sn op).2 = 0 ∧ v'.missed = 0 ∧ v'.offset = 0 := by
  obtain ⟨h1, h2, h3⟩ := activation_only_by_endBlocker sn.1 op a v v' hv hs hv' hs'
  refine ⟨h1, ?_, h2, h3⟩
  have hst : statusAt sn.1 a ≠ some .active := by simpa [statusAt, hv] using hs
  have hst' : statusAt (step sn.1 op) a = some .active := by simp [statusAt, hv', hs']
  simp only [cstep, hst', and_true]
  rw [if_pos hst]

/-! ## non-vacuity: concrete histories -/

namespace Example
open Goat.C11H (genesis)

def params : Params :=
  { unlockDuration := 10, exitingDuration := 20, downtimeJail := 5, maxValidators := 10, signedBlocksWindow := 100,
    maxMissed := 2, slashDoubleSign := 50000000000000000, slashDowntime := 10000000000000000,
    halvingInterval := 1000, initialReward := 0 }

def e18i : Int := 1000000000000000000

/-- t=50: token "btc" (weight 1, threshold 500), validator `[1]` created with 1000 btc; EndBlocker
    makes it Active with power 1000 and records it -/
def setup : List Op :=
  [ .process id (fun _ => false) 1 50
      { gas := [0], weights := [("btc", 1)], thresholds := [("btc", 500 * e18i)],
        creates := [{ validator := [1], compressed := [1] }],
        locks := [{ validator := [1], token := "btc", amount := 1000 * e18i }] },
    .endBlocker ]

def s1 : State := runS (genesis params) setup

/-- a comparable summary of a state: per validator (status, power, holding) and (missed, offset,
    jailedUntil); ranking; recorded set; size of the locking index -/
structure Snap where
  recs : List (Nat × Nat × Coins)
  counters : List (Nat × Nat × Int)
  ranking : List (Nat × Bytes)
  valset : List (Bytes × Nat)
  idx : Nat
  deriving DecidableEq, Repr

def snap (s : State) : Snap :=
  { recs := s.validators.map (fun e : Bytes × Validator => (e.2.status.toNat, e.2.power, e.2.locking)),
    counters := s.validators.map (fun e : Bytes × Validator => (e.2.missed, e.2.offset, e.2.jailedUntil)),
    ranking := s.ranking, valset := s.valset, idx := s.lockingIdx.length }

example : snap s1 = ⟨[(1, 1000, [("btc", 1000 * e18i)])], [(0, 0, 0)], [(1000, [1])], [([1], 1000)], 1⟩ := by decide +kernel

/-- executable check of `OutRec` with a given status -/
def outB (s : State) (a : Bytes) (st : Status) : Bool :=
  match vget s a with
  | some v => v.status == st && v.power == 0 && s.ranking.all (fun e => e.2 != a) && s.lockingIdx.all (fun e => e.1.2 != a)
  | none => false

theorem outB_sound (s : State) (a : Bytes) (st : Status) (hst : 0 < outLevel st) (h : outB s a st = true) :
    ∃ v, OutRec s a v ∧ v.status = st := by
  unfold outB at h
  cases hv : vget s a with
  | none => rw [hv] at h; cases h
  | some v =>
    rw [hv] at h
    simp only [Bool.and_eq_true, beq_iff_eq, List.all_eq_true, bne_iff_ne, ne_eq] at h
    obtain ⟨⟨⟨h1, h2⟩, h3⟩, h4⟩ := h
    refine ⟨v, ⟨hv, by rw [h1]; exact hst, h2, ?_, ?_⟩, h1⟩
    · intro p hp; exact h3 (p, a) hp rfl
    · intro d x hp; exact h4 ((d, a), x) hp rfl

/-! ### (a) -/

/-- t=60: BeginBlock with duplicate-vote evidence against `[1]` -/
def tombOps : List Op := setup ++ [ .beginBlock 3 60 [] none [{ kind := 1, address := [1], height := 2, time := 55 }] ]

def s2 : State := runS (genesis params) tombOps

/-- after the evidence: Tombstoned (status 3), power 0, holding slashed by 5 %, un-ranked, un-indexed — but
    still in the recorded set until EndBlocker runs -/
example : snap s2 = ⟨[(3, 0, [("btc", 950 * e18i)])], [(0, 0, 0)], [], [([1], 1000)], 0⟩ := by decide +kernel

theorem s2_tomb : Tomb s2 [1] :=
  outB_sound s2 [1] Status.tombstoned (by decide : 0 < outLevel Status.tombstoned) (by decide +kernel)

/-- hence after *any* further history it is tombstoned with power 0, not ranked, not indexed -/
example (ops : List Op) : Tomb (runS s2 ops) [1] := (tombstone_permanent s2 [1] ops s2_tomb).1

/-- … and out of the recorded set from the next EndBlocker on (which succeeds here) -/
theorem s2_endBlocker_ok : ∃ s' ups, endBlocker s2 = .ok (s', ups) := by
  have hok : (endBlocker s2).isOk = true := by decide +kernel
  generalize endBlocker s2 = r at hok
  cases r with
  | ok p => exact ⟨p.1, p.2, rfl⟩
  | err e => cases hok
  | panic e => cases hok

example (ys : List Op) : [1] ∉ (runS s2 (.endBlocker :: ys)).valset.map (·.1) := by
  obtain ⟨s', ups, h⟩ := s2_endBlocker_ok
  exact tombstone_leaves_valset_next s2 [1] ys s2_tomb s' ups h

/-- e.g.: EndBlocker, then the token weight is tripled and 7000 btc are locked to `[1]`, EndBlocker again:
    the coins are credited, the validator stays Tombstoned with power 0, outside ranking and recorded set -/
def moreOps : List Op :=
  [ .endBlocker,
    .process id (fun _ => false) 4 70
      { gas := [0], weights := [("btc", 3)], locks := [{ validator := [1], token := "btc", amount := 7000 * e18i }] },
    .endBlocker ]

example : snap (runS s2 moreOps) = ⟨[(3, 0, [("btc", 7950 * e18i)])], [(0, 0, 0)], [], [], 0⟩ := by decide +kernel

/-- `Link` holds in `s1` (and the validator is Active there) -/
theorem s1_link (v : Validator) (hv : vget s1 [1] = some v) : Link s1 [1] v ∧ v.status = .active := by
  have hr : s1.ranking = [(1000, [1])] := by decide +kernel
  have hi : s1.lockingIdx.map (·.1) = [("btc", [1])] := by decide +kernel
  have hp : v.power = 1000 ∧ v.locking.map (·.1) = ["btc"] ∧ v.status = .active := by
    have : (vget s1 [1]).map (fun v => (v.power, v.locking.map (·.1), v.status)) = some (1000, ["btc"], .active) := by
      decide +kernel
    rw [hv] at this
    simpa using this
  refine ⟨⟨?_, ?_⟩, hp.2.2⟩
  · intro p hp'
    rw [hr] at hp'
    simp only [List.mem_singleton, Prod.mk.injEq] at hp'
    rw [hp.1]; exact hp'.1
  · intro d x hp'
    have : (d, [1]) ∈ s1.lockingIdx.map (·.1) := List.mem_map.mpr ⟨_, hp', rfl⟩
    rw [hi] at this
    simp only [List.mem_singleton, Prod.mk.injEq] at this
    rw [hp.2.1, this.1]
    simp

/-- the establishing step on the example: `handleEvidence` in `s1` -/
example (s' : State) (h : handleEvidence s1 60 3 none { kind := 1, address := [1], height := 2, time := 55 } = .ok s') :
    Tomb s' [1] := by
  cases hv : vget s1 [1] with
  | none => exact absurd hv (by decide +kernel)
  | some v =>
    obtain ⟨hl, hs⟩ := s1_link v hv
    exact (evidence_establishes_tomb s1 s' 60 3 none _ v (Or.inl rfl) rfl hv (by rw [hs]; decide) hl h).1

/-- … and the whole BeginBlock (`beginBlock_tombstones`) -/
example (s' : State)
    (h : beginBlock s1 3 60 [] none [{ kind := 1, address := [1], height := 2, time := 55 }] = .ok s') : Tomb s' [1] := by
  cases hv : vget s1 [1] with
  | none => exact absurd hv (by decide +kernel)
  | some v =>
    obtain ⟨hl, hs⟩ := s1_link v hv
    exact beginBlock_tombstones s1 s' 3 60 [] none _ [1] v hv (by rw [hs]; decide) hl _ List.mem_cons_self rfl (Or.inl rfl) rfl h

/-- **`Link` is needed** (and what would happen in the Go code if the derived index ever disagreed with
    the holdings): with a stale index entry `("eth", [1])` the slash does not remove it, a later weight
    change of "eth" walks the index, gives the tombstoned validator power 5 and ranks it — and EndBlocker
    then fails (`status-in-ranking`). -/
def bad : State :=
  { s1 with tokens := s1.tokens ++ [("eth", { weight := 1, threshold := 0 })],
            lockingIdx := s1.lockingIdx ++ [(("eth", [1]), 5 * e18i)] }

def badOps : List Op :=
  [ .beginBlock 3 60 [] none [{ kind := 1, address := [1], height := 2, time := 55 }],
    .process id (fun _ => false) 4 70 { gas := [0], weights := [("eth", 2)] } ]

example : (snap (runS bad badOps)).recs = [(3, 5, [("btc", 950 * e18i)])] ∧ (snap (runS bad badOps)).ranking = [(5, [1])] ∧
    (endBlocker (runS bad badOps)).cls = "err:status-in-ranking" := by decide +kernel

/-! ### (b), (c) -/

/-- t=60 and t=70: `[1]` is reported absent twice (`maxMissed = 2`) -/
def jailOps : List Op :=
  setup ++ [ .beginBlock 3 60 [{ address := [1], power := 1000, absent := true }] none [],
             .beginBlock 4 70 [{ address := [1], power := 1000, absent := true }] none [] ]

def s3 : State := runS (genesis params) jailOps

/-- after the second absence: Downgrade (status 2), power 0, slashed by 1 %, jailed until 70 + 5 -/
example : snap s3 = ⟨[(2, 0, [("btc", 990 * e18i)])], [(2, 2, 75)], [], [([1], 1000)], 0⟩ := by decide +kernel

theorem s3_jailed : Jailed s3 [1] 75 := by
  obtain ⟨v, ho, hs⟩ := outB_sound s3 [1] Status.downgrade (by decide : 0 < outLevel Status.downgrade) (by decide +kernel)
  refine ⟨v, ho, hs, ?_⟩
  have : (vget s3 [1]).map (·.jailedUntil) = some 75 := by decide +kernel
  rw [ho.vrec] at this
  simpa using this

def lockAt (t : Int) : List Op :=
  [ .endBlocker,
    .process id (fun _ => false) 5 t { gas := [0], locks := [{ validator := [1], token := "btc", amount := 10 * e18i }] } ]

/-- a lock at time 75 (not after the jail time) leaves it Downgrade — by the theorem … -/
example : ∃ v', OutRec (runS s3 (lockAt 75)) [1] v' ∧ v'.jailedUntil = 75 := by
  obtain ⟨v', h1, h2, _⟩ := jailed_stays_out s3 [1] 75 (lockAt 75) s3_jailed (by
    intro op hop now hn
    simp only [lockAt, List.mem_cons, List.mem_nil_iff, or_false] at hop
    rcases hop with rfl | rfl
    · cases hn
    · simp only [opTime, Option.some.injEq] at hn; omega)
  exact ⟨v', h1, h2⟩

/-- … and by evaluation; a lock at time 76 lets it back in (Pending, then Active with fresh counters) -/
example : snap (runS s3 (lockAt 75)) = ⟨[(2, 0, [("btc", 1000 * e18i)])], [(2, 2, 75)], [], [], 0⟩ := by decide +kernel

example : snap (runS s3 (lockAt 76 ++ [.endBlocker]))
    = ⟨[(1, 1000, [("btc", 1000 * e18i)])], [(0, 0, 75)], [(1000, [1])], [([1], 1000)], 1⟩ := by decide +kernel

/-- (c) on the example: started at `s1` (just activated, counters 0) the ghost counter is 1 after the
    first absence, and the demoting BeginBlock brings it to `maxMissed = 2` -/
example : (crun [1] (s1, 0) [jailOps[2]]).2 = 1 ∧ (crun [1] (s1, 0) [jailOps[2], jailOps[3]]).2 = 2 := by decide +kernel

/-- the premises of `slashed_once_per_offence` on the example: Active before the second absence is
    processed, Downgrade after it -/
example : statusAt (crun [1] (s1, 0) [jailOps[2]]).1 [1] = some .active ∧
    statusAt (step (crun [1] (s1, 0) [jailOps[2]]).1 jailOps[3]) [1] = some .downgrade := by decide +kernel

theorem s1_counted : Counted [1] (s1, 0) := by
  cases hv : vget s1 [1] with
  | none => exact absurd hv (by decide +kernel)
  | some v =>
    refine ⟨v, hv, fun _ => ?_⟩
    have : (vget s1 [1]).map (·.missed) = some 0 := by decide +kernel
    rw [hv] at this
    simp only [Option.map_some, Option.some.injEq] at this
    omega

end Example

end Goat.C14H
