/-
  C15H — history-level theorems for C15 (unlocks are paid back after the unlock / exit period, once).

  Property C15 (verbatim): "An unlock is paid back no earlier than the unlock period after it was
  requested, or the longer exit period if the validator is exiting (already inactive or tombstoned, or
  dropping below a token's threshold), and is then released in maturity order exactly once. A validator
  that drops below a threshold leaves the candidate set immediately with zero power, and its remaining
  funds stay withdrawable through later unlocks."

  Histories are lists of `C11H.Op`; `grun` runs a history on a state together with a ghost log
  (`Ghost`): the block time of the latest operation (`clock`; `dequeue` carries no time of its own, it
  happens at the time of the block it is in), every unlock accepted by `unlockOne` with its request time,
  exiting flag and maturity key (`accepted`, computed by `unlockLog` from the very state in which
  `unlock` runs), and every unlock handed over by `dequeue` with the clock at that moment (`delivered`).
  `(grun sg ops).1 = runS sg.1 ops` (`grun_fst`).

  `Inv P s g` links state and log (`inv_grun`: kept along every history with non-decreasing block times,
  `Mono`; `inv_empty`: holds when nothing is queued and nothing logged).
  (d) `released_not_before_maturity`, `released_after_unlock_period`
  (e) `released_exactly_once` (multiset equation; with fresh ids: all ids distinct), `delivered_once`,
      `accepted_ids_nodup` (fresh request ids ⇒ distinct accepted ids), `released_in_maturity_order`
  (f) `exit_is_immediate`, `exited_unlock_exact`, `exited_unlock_queued`, `exited_stays_withdrawable`
  `Example`: a concrete history on which all hypotheses hold; the freshness and time hypotheses are needed.
-/
import GoatProofs.Lemmas.LockingHist
import GoatProofs.C15
import GoatProofs.C18
namespace Goat.C15H
open Goat Goat.Locking
open Goat.C11H (Op)

/-! ## the ghost log -/

/-- an accepted unlock: the record that was queued, the block time of the request, whether the
    validator was exiting at that moment, and the maturity key it was filed under -/
structure Acc where
  u : Unlock
  t0 : Int
  exiting : Bool
  due : Int

/-- the record `unlockOne` queues for request `r` with released amount `amt` -/
def recOf (r : UnlockReq) (amt : Int) : Unlock :=
  { id := r.id, token := r.tokenAddr, recipient := r.recipient, amount := amt }

theorem unlockOne_of_core (s s3 : State) (now : Int) (r : UnlockReq) (ex : Bool) (amt : Int)
    (h : unlockCore s r = .ok (s3, ex, amt)) :
    unlockOne s now r = .ok (enqueueUnlock s3 (unlockTime s.params now ex) (recOf r amt)) := by
  unfold unlockOne
  rw [h]
  rfl

theorem unlockOne_ok (s s' : State) (now : Int) (r : UnlockReq) (h : unlockOne s now r = .ok s') :
    ∃ s3 ex amt, unlockCore s r = .ok (s3, ex, amt) ∧ s' = enqueueUnlock s3 (unlockTime s.params now ex) (recOf r amt) := by
  unfold unlockOne at h
  split at h
  · cases h
  · cases h
  · rename_i s3 ex amt hcore
    cases h
    exact ⟨s3, ex, amt, hcore, rfl⟩

/-- the log of the unlocks accepted by `unlock s now reqs`, computed along the same fold -/
def unlockLog (s : State) (now : Int) : List UnlockReq → List Acc
  | [] => []
  | r :: rs =>
    match unlockCore s r with
    | .ok (s3, ex, amt) =>
      ⟨recOf r amt, now, ex, unlockTime s.params now ex⟩ ::
        unlockLog (enqueueUnlock s3 (unlockTime s.params now ex) (recOf r amt)) now rs
    | _ => []

/-- the state in which `unlock` runs inside `processRequests` -/
def preUnlock (hash160 : Bytes → Bytes) (hasAccount : Bytes → Bool) (s : State) (height now : Int) (r : Reqs) : Outcome State := do
  let s1 ← updateRewardPool s height r.gas r.grants
  let s2 ← updateTokens s1 r.weights r.thresholds
  let (s3, _) ← create hash160 hasAccount s2 r.creates
  lock s3 now r.locks

theorem processRequests_split (hash160 : Bytes → Bytes) (hasAccount : Bytes → Bool) (s s' : State) (height now : Int)
    (R : Reqs) (accs : List Bytes) (h : processRequests hash160 hasAccount s height now R = .ok (s', accs)) :
    ∃ s4 s5, preUnlock hash160 hasAccount s height now R = .ok s4 ∧ QFrame s s4 ∧
      unlock s4 now R.unlocks = .ok s5 ∧ claim s5 R.claims = .ok s' := by
  unfold processRequests at h
  obtain ⟨s1, h1, h⟩ := (bind_eq_ok _ _ _).mp h
  obtain ⟨s2, h2, h⟩ := (bind_eq_ok _ _ _).mp h
  obtain ⟨⟨s3, accs3⟩, h3, h⟩ := (bind_eq_ok _ _ _).mp h
  dsimp only at h
  obtain ⟨s4, h4, h⟩ := (bind_eq_ok _ _ _).mp h
  obtain ⟨s5, h5, h⟩ := (bind_eq_ok _ _ _).mp h
  obtain ⟨s6, h6, h⟩ := (bind_eq_ok _ _ _).mp h
  have h : (Outcome.ok (s6, accs3) : Outcome (State × List Bytes)) = .ok (s', accs) := h
  simp only [Outcome.ok.injEq, Prod.mk.injEq] at h
  obtain ⟨rfl, _⟩ := h
  refine ⟨s4, s5, ?_, ?_, h5, h6⟩
  · unfold preUnlock
    refine (bind_eq_ok _ _ _).mpr ⟨s1, h1, ?_⟩
    refine (bind_eq_ok _ _ _).mpr ⟨s2, h2, ?_⟩
    refine (bind_eq_ok _ _ _).mpr ⟨(s3, accs3), h3, ?_⟩
    exact h4
  · exact (((updateRewardPool_qf s s1 height R.gas R.grants h1).trans (updateTokens_qf s1 s2 _ _ h2)).trans
      (create_qf hash160 hasAccount s2 s3 _ accs3 h3)).trans (lock_qf s3 s4 now _ h4)

structure Ghost where
  clock : Int
  accepted : List Acc
  delivered : List (Unlock × Int)

/-- one operation on state and ghost log -/
def gstep (sg : State × Ghost) : Op → State × Ghost
  | .process hash160 hasAccount height now r =>
    match processRequests hash160 hasAccount sg.1 height now r, preUnlock hash160 hasAccount sg.1 height now r with
    | .ok (s', _), .ok s4 =>
      (s', { sg.2 with clock := now, accepted := sg.2.accepted ++ unlockLog s4 now r.unlocks })
    | _, _ => (step sg.1 (.process hash160 hasAccount height now r), { sg.2 with clock := now })
  | .beginBlock height now votes maxAge evs =>
    (step sg.1 (.beginBlock height now votes maxAge evs), { sg.2 with clock := now })
  | .endBlocker => (step sg.1 .endBlocker, sg.2)
  | .dequeue =>
    ((dequeue sg.1).1,
     { sg.2 with delivered := sg.2.delivered ++ (dequeue sg.1).2.2.1.map (fun u => (u, sg.2.clock)) })

def grun (sg : State × Ghost) (ops : List Op) : State × Ghost := ops.foldl gstep sg

@[simp] theorem grun_nil (sg : State × Ghost) : grun sg [] = sg := rfl
@[simp] theorem grun_cons (sg : State × Ghost) (op : Op) (ops : List Op) : grun sg (op :: ops) = grun (gstep sg op) ops := rfl

theorem gstep_fst (sg : State × Ghost) (op : Op) : (gstep sg op).1 = step sg.1 op := by
  cases op with
  | process hash160 hasAccount height now r =>
    simp only [gstep]
    split
    · rename_i s' accs s4 h1 h2
      simp only [step, h1]
    · rfl
  | beginBlock height now votes maxAge evs => rfl
  | endBlocker => rfl
  | dequeue => rfl

theorem grun_fst (ops : List Op) : ∀ sg : State × Ghost, (grun sg ops).1 = runS sg.1 ops := by
  induction ops with
  | nil => intro sg; rfl
  | cons op ops ih => intro sg; rw [grun_cons, ih, gstep_fst, runS_cons]

theorem gstep_clock (sg : State × Ghost) (op : Op) : (gstep sg op).2.clock = (opTime op).getD sg.2.clock := by
  cases op with
  | process hash160 hasAccount height now r =>
    simp only [gstep]
    split <;> rfl
  | beginBlock height now votes maxAge evs => rfl
  | endBlocker => rfl
  | dequeue => rfl

/-- block times never decrease along the history (`c`: the time of the latest operation before it) -/
def Mono : Int → List Op → Prop
  | _, [] => True
  | c, op :: ops =>
    match opTime op with
    | some now => c ≤ now ∧ Mono now ops
    | none => Mono c ops

/-! ## list facts -/

/-- all unlock records of a time queue -/
def queued (q : List (Int × List Unlock)) : List Unlock := (q.map (·.2)).flatten

theorem queued_cons (e : Int × List Unlock) (q : List (Int × List Unlock)) : queued (e :: q) = e.2 ++ queued q := by
  simp [queued]

theorem queued_append (a b : List (Int × List Unlock)) : queued (a ++ b) = queued a ++ queued b := by
  simp [queued]

theorem queued_perm {a b : List (Int × List Unlock)} (h : a.Perm b) : (queued a).Perm (queued b) :=
  (h.map (fun e : Int × List Unlock => e.2)).flatten

theorem mem_queued {q : List (Int × List Unlock)} {u : Unlock} : u ∈ queued q ↔ ∃ e ∈ q, u ∈ e.2 := by
  simp only [queued, List.mem_flatten, List.mem_map]
  constructor
  · rintro ⟨l, ⟨e, he, rfl⟩, hu⟩; exact ⟨e, he, hu⟩
  · rintro ⟨e, he, hu⟩; exact ⟨e.2, ⟨e, he, rfl⟩, hu⟩

/-- with distinct time keys the enqueue adds exactly the one record -/
theorem queued_enq (q : List (Int × List Unlock)) (t : Int) (u : Unlock) (hn : (q.map (·.1)).Nodup) :
    (queued (enq q t u)).Perm (queued q ++ [u]) := by
  unfold enq
  by_cases ha : q.any (·.1 == t) = true
  · rw [if_pos ha]
    have ht : t ∈ q.map (·.1) := (any_key_iff q t).mp ha
    clear ha
    induction q with
    | nil => simp at ht
    | cons e es ih =>
      rw [List.map_cons, List.nodup_cons] at hn
      by_cases he : e.1 = t
      · have h2 : (e.1 == t) = true := by simpa using he
        rw [List.map_cons, h2, if_pos rfl, enq_map_noop es t u (he ▸ hn.1), queued_cons, queued_cons]
        simp only [List.append_assoc]
        exact List.Perm.append_left e.2 List.perm_append_comm
      · have h2 : (e.1 == t) = false := by simpa using he
        have ht' : t ∈ es.map (·.1) := by
          rw [List.map_cons, List.mem_cons] at ht
          rcases ht with h3 | h3
          · exact absurd h3.symm he
          · exact h3
        rw [List.map_cons, h2, queued_cons, queued_cons]
        simp only [Bool.false_eq_true, if_false, List.append_assoc]
        exact List.Perm.append_left e.2 (ih hn.2 ht')
  · rw [if_neg ha, queued_append]
    simp [queued]

/-- where a record of the queue after an enqueue comes from: it is the new one under the new key, or
    it was there under the same key -/
theorem mem_enq_key (q : List (Int × List Unlock)) (t : Int) (u : Unlock) (e : Int × List Unlock) (x : Unlock)
    (he : e ∈ enq q t u) (hx : x ∈ e.2) : (x = u ∧ e.1 = t) ∨ ∃ e' ∈ q, e'.1 = e.1 ∧ x ∈ e'.2 := by
  unfold enq at he
  split at he
  · obtain ⟨e', he', rfl⟩ := List.mem_map.mp he
    by_cases hk : e'.1 = t
    · have h2 : (e'.1 == t) = true := by simpa using hk
      rw [h2] at hx ⊢
      simp only [if_true] at hx ⊢
      rcases List.mem_append.mp hx with h | h
      · exact Or.inr ⟨e', he', hk, h⟩
      · simp only [List.mem_singleton] at h; exact Or.inl ⟨h, trivial⟩
    · have h2 : (e'.1 == t) = false := by simpa using hk
      rw [h2] at hx ⊢
      exact Or.inr ⟨e', he', rfl, hx⟩
  · rcases List.mem_append.mp he with h | h
    · exact Or.inr ⟨e, h, rfl, hx⟩
    · simp only [List.mem_singleton] at h; subst h
      simp only [List.mem_singleton] at hx; exact Or.inl ⟨hx, rfl⟩

/-! ## the invariant linking state and ghost log -/

/-- what `unlockCore` reports: the released amount is the request clipped to the holding, and the
    exiting flag is exactly `exitingOf` (already inactive or tombstoned, or the remaining holding below
    the token's threshold) -/
theorem unlockCore_flags (s s3 : State) (r : UnlockReq) (ex : Bool) (amt : Int) (h : unlockCore s r = .ok (s3, ex, amt)) :
    ∃ v tok, vget s r.validator = some v ∧ tget s r.token = some tok ∧
      amt = unlockAmount (amountOf v.locking r.token) r.amount ∧
      ex = exitingOf v.status (amountOf v.locking r.token - amt) tok.threshold := by
  unfold unlockCore at h
  cases hv : vget s r.validator with
  | none => simp [hv] at h
  | some v =>
    simp only [hv] at h
    cases ht : tget (rankRemove s v.power r.validator) r.token with
    | none => simp [ht] at h
    | some tok =>
      simp only [ht] at h
      split at h
      · cases h
      · split at h
        · cases h
        · cases h
        · simp only [Outcome.ok.injEq, Prod.mk.injEq] at h
          obtain ⟨_, h2, h3⟩ := h
          exact ⟨v, tok, rfl, ht, h3.symm, by rw [← h3]; exact h2.symm⟩

/-- where a log entry comes from: an `unlockCore` (hence `unlockOne`) that succeeded in a state with the
    parameters `P`, at block time `t0`, reporting the entry's exiting flag and amount; the maturity key
    is `unlockTime P t0 exiting` -/
def Origin (P : Params) (acc : Acc) : Prop :=
  acc.due = unlockTime P acc.t0 acc.exiting ∧
  ∃ si r s3, si.params = P ∧ unlockCore si r = .ok (s3, acc.exiting, acc.u.amount) ∧ acc.u = recOf r acc.u.amount ∧
    unlockOne si acc.t0 r = .ok (enqueueUnlock s3 acc.due acc.u)

structure Inv (P : Params) (s : State) (g : Ghost) : Prop where
  params : s.params = P
  /-- the time keys of the queue are distinct (it is a map) -/
  times : (s.unlockQueue.map (·.1)).Nodup
  /-- queued + matured + delivered records are exactly the accepted ones, with multiplicity -/
  perm : (queued s.unlockQueue ++ s.qUnlocks ++ g.delivered.map (·.1)).Perm (g.accepted.map (·.u))
  /-- a queued record sits under the maturity key of an accepted unlock -/
  queue : ∀ e ∈ s.unlockQueue, ∀ u ∈ e.2, ∃ acc ∈ g.accepted, acc.u = u ∧ acc.due = e.1
  /-- a matured record belongs to an accepted unlock whose maturity has passed -/
  matured : ∀ u ∈ s.qUnlocks, ∃ acc ∈ g.accepted, acc.u = u ∧ acc.due ≤ g.clock
  /-- a delivered record belongs to an accepted unlock whose maturity had passed at hand-over -/
  delivered : ∀ x ∈ g.delivered, ∃ acc ∈ g.accepted, acc.u = x.1 ∧ acc.due ≤ x.2
  origin : ∀ acc ∈ g.accepted, Origin P acc

theorem inv_frame {P : Params} {s t : State} {g : Ghost} (h : Inv P s g) (f : QFrame s t) : Inv P t g := by
  refine ⟨f.params.trans h.params, ?_, ?_, ?_, ?_, h.delivered, h.origin⟩
  · rw [f.unlockQueue]; exact h.times
  · rw [f.unlockQueue, f.qUnlocks]; exact h.perm
  · rw [f.unlockQueue]; exact h.queue
  · rw [f.qUnlocks]; exact h.matured

theorem inv_clock {P : Params} {s : State} {g : Ghost} (h : Inv P s g) (c : Int) (hc : g.clock ≤ c) :
    Inv P s { g with clock := c } := by
  refine ⟨h.params, h.times, h.perm, h.queue, ?_, h.delivered, h.origin⟩
  intro u hu
  obtain ⟨acc, ha, h1, h2⟩ := h.matured u hu
  exact ⟨acc, ha, h1, by dsimp only; omega⟩

/-- **one accepted unlock**: the record enters the time queue under its maturity key and the log -/
theorem inv_unlockOne {P : Params} {s s3 : State} {g : Ghost} (h : Inv P s g) (now : Int) (r : UnlockReq) (ex : Bool)
    (amt : Int) (hc : unlockCore s r = .ok (s3, ex, amt)) :
    Inv P (enqueueUnlock s3 (unlockTime s.params now ex) (recOf r amt))
      { g with accepted := g.accepted ++ [⟨recOf r amt, now, ex, unlockTime s.params now ex⟩] } := by
  have f := unlockCore_qf s s3 r ex amt hc
  have hq : (enqueueUnlock s3 (unlockTime s.params now ex) (recOf r amt)).unlockQueue
      = enq s.unlockQueue (unlockTime s.params now ex) (recOf r amt) := by rw [← f.unlockQueue]; rfl
  have hu : (enqueueUnlock s3 (unlockTime s.params now ex) (recOf r amt)).qUnlocks = s.qUnlocks := f.qUnlocks
  refine ⟨f.params.trans h.params, ?_, ?_, ?_, ?_, ?_, ?_⟩
  · rw [hq]; exact enq_keys_nodup _ _ _ h.times
  · rw [hq, hu]
    dsimp only
    rw [List.map_append]
    simp only [List.map_cons, List.map_nil]
    have h1 := (queued_enq s.unlockQueue (unlockTime s.params now ex) (recOf r amt) h.times)
    -- (Q ++ [u]) ++ U ++ D ~ (Q ++ U ++ D) ++ [u]
    refine List.Perm.trans ((h1.append_right _).append_right _) ?_
    refine List.Perm.trans ?_ (h.perm.append_right _)
    simp only [List.append_assoc]
    refine List.Perm.append_left _ ?_
    refine List.Perm.trans List.perm_append_comm ?_
    simp only [List.append_assoc]
    exact List.Perm.refl _
  · intro e he u hue
    rw [hq] at he
    rcases mem_enq_key _ _ _ e u he hue with ⟨h1, h2⟩ | ⟨e', he', hk, hx⟩
    · exact ⟨_, List.mem_append_right _ (List.mem_singleton.mpr rfl), h1.symm, h2.symm⟩
    · obtain ⟨acc, ha, h1, h2⟩ := h.queue e' he' u hx
      exact ⟨acc, List.mem_append_left _ ha, h1, h2.trans hk⟩
  · intro u hu'
    rw [hu] at hu'
    obtain ⟨acc, ha, h1, h2⟩ := h.matured u hu'
    exact ⟨acc, List.mem_append_left _ ha, h1, h2⟩
  · intro x hx
    obtain ⟨acc, ha, h1, h2⟩ := h.delivered x hx
    exact ⟨acc, List.mem_append_left _ ha, h1, h2⟩
  · intro acc ha
    rcases List.mem_append.mp ha with ha | ha
    · exact h.origin acc ha
    · simp only [List.mem_singleton] at ha
      subst ha
      refine ⟨by dsimp only; rw [h.params], s, r, s3, h.params, hc, rfl, ?_⟩
      exact unlockOne_of_core s s3 now r ex amt hc

theorem ghost_accepted_append (g : Ghost) (a b : List Acc) :
    ({ ({ g with accepted := g.accepted ++ a } : Ghost) with accepted := (g.accepted ++ a) ++ b } : Ghost)
      = { g with accepted := g.accepted ++ (a ++ b) } := by
  simp [List.append_assoc]

/-- **`unlock`**: every request of a successful batch is accepted and logged -/
theorem inv_unlock {P : Params} (now : Int) (reqs : List UnlockReq) : ∀ (s s' : State) (g : Ghost), Inv P s g →
    unlock s now reqs = .ok s' → Inv P s' { g with accepted := g.accepted ++ unlockLog s now reqs } := by
  induction reqs with
  | nil =>
    intro s s' g h hu
    have := foldlM_nil_ok _ _ _ hu
    subst this
    simp only [unlockLog, List.append_nil]
    exact h
  | cons r rs ih =>
    intro s s' g h hu
    unfold unlock at hu
    obtain ⟨s1, h1, h2⟩ := foldlM_cons_ok _ r rs s s' hu
    obtain ⟨s3, ex, amt, hc, rfl⟩ := unlockOne_ok s s1 now r h1
    have hi := inv_unlockOne h now r ex amt hc
    have := ih _ s' _ hi h2
    simp only [unlockLog, hc]
    dsimp only at this
    rw [List.append_assoc] at this
    exact this

/-- **maturing**: the due entries move to the matured queue; the clock is the block time -/
theorem inv_dequeueMature {P : Params} {s : State} {g : Ghost} (h : Inv P s g) (now : Int) (hc : g.clock = now) :
    Inv P (dequeueMature s now) g := by
  have hp : (dequeueMature s now).params = s.params := by unfold dequeueMature; split <;> rfl
  refine ⟨hp.trans h.params, dequeueMature_keys_nodup s now h.times, ?_, ?_, ?_, h.delivered, h.origin⟩
  · unfold dequeueMature
    by_cases hd : (dueUnlocks s now).isEmpty = true
    · rw [if_pos hd]; exact h.perm
    · rw [if_neg hd]
      dsimp only
      refine List.Perm.trans ?_ h.perm
      refine List.Perm.append_right _ ?_
      have hsplit : (queued s.unlockQueue).Perm
          (queued (s.unlockQueue.filter (fun e => decide (e.1 ≤ now))) ++
            queued (s.unlockQueue.filter (fun e => !decide (e.1 ≤ now)))) := by
        rw [← queued_append]
        exact queued_perm (List.filter_append_perm (fun e : Int × List Unlock => decide (e.1 ≤ now)) s.unlockQueue).symm
      have hsort : (queued (dueUnlocks s now)).Perm (queued (s.unlockQueue.filter (fun e => decide (e.1 ≤ now)))) := by
        unfold dueUnlocks
        exact queued_perm (List.mergeSort_perm _ _)
      -- F2 ++ (U ++ FS) ~ (F1 ++ F2) ++ U
      refine List.Perm.trans ?_ (hsplit.symm.append_right _)
      show (queued (s.unlockQueue.filter (fun e => !decide (e.1 ≤ now))) ++ (s.qUnlocks ++ queued (dueUnlocks s now))).Perm _
      refine List.Perm.trans (List.Perm.append_left _ (List.Perm.append_left _ hsort)) ?_
      refine List.Perm.trans (List.Perm.append_left _ List.perm_append_comm) ?_
      rw [← List.append_assoc]
      exact List.Perm.append_right _ List.perm_append_comm
  · intro e he
    have : e ∈ s.unlockQueue := by
      unfold dequeueMature at he
      split at he
      · exact he
      · exact (List.mem_filter.mp he).1
    exact h.queue e this
  · intro u hu
    rcases C15.mature_only s now u hu with h1 | ⟨t, us, h1, h2, h3⟩
    · exact h.matured u h1
    · obtain ⟨acc, ha, h4, h5⟩ := h.queue (t, us) h1 u h3
      exact ⟨acc, ha, h4, by rw [h5, hc]; exact h2⟩

/-- **hand-over**: the first (at most 16) matured records leave, logged with the clock -/
theorem inv_dequeue {P : Params} {s : State} {g : Ghost} (h : Inv P s g) :
    Inv P (dequeue s).1 { g with delivered := g.delivered ++ (dequeue s).2.2.1.map (fun u => (u, g.clock)) } := by
  unfold dequeue
  split
  · simp only [List.map_nil, List.append_nil]
    exact h
  · dsimp only
    refine ⟨h.params, h.times, ?_, h.queue, ?_, ?_, h.origin⟩
    · rw [List.map_append, List.map_map]
      have hm : ((fun x : Unlock × Int => x.1) ∘ fun u => (u, g.clock)) = id := rfl
      rw [hm, List.map_id]
      refine List.Perm.trans ?_ h.perm
      generalize (min s.qUnlocks.length 16) = n
      have hu : s.qUnlocks = s.qUnlocks.take n ++ s.qUnlocks.drop n := (List.take_append_drop n _).symm
      rw [List.append_assoc, List.append_assoc]
      refine List.Perm.append_left _ ?_
      -- drop ++ (D ++ take) ~ (take ++ drop) ++ D
      show (List.drop n s.qUnlocks ++ (g.delivered.map (·.1) ++ List.take n s.qUnlocks)).Perm
        (s.qUnlocks ++ g.delivered.map (·.1))
      conv => rhs; rw [hu]
      refine List.Perm.trans List.perm_append_comm ?_
      rw [List.append_assoc]
      exact List.perm_append_comm
    · intro u hu
      exact h.matured u (List.mem_of_mem_drop hu)
    · intro x hx
      rcases List.mem_append.mp hx with hx | hx
      · exact h.delivered x hx
      · obtain ⟨u, hu, rfl⟩ := List.mem_map.mp hx
        exact h.matured u (List.mem_of_mem_take hu)

/-! ## histories -/

theorem inv_beginBlock {P : Params} {s s' : State} {g : Ghost} (h : Inv P s g) (height now : Int) (votes : List VoteInfo)
    (maxAge : Option (Int × Int)) (evs : List Evidence) (hc : g.clock ≤ now)
    (hb : beginBlock s height now votes maxAge evs = .ok s') : Inv P s' { g with clock := now } := by
  unfold beginBlock at hb
  obtain ⟨s1, h1, hb⟩ := (bind_eq_ok _ _ _).mp hb
  obtain ⟨s3, h3, hb⟩ := (bind_eq_ok _ _ _).mp hb
  have i1 : Inv P s1 { g with clock := now } := inv_frame (inv_clock h now hc) (distributeReward_qf s s1 height votes h1)
  have i2 := inv_dequeueMature i1 now rfl
  have i3 := inv_frame i2 (handleVotes_qf _ s3 now votes h3)
  refine inv_frame i3 ?_
  exact foldlM_inv (fun b => QFrame s3 b) _
    (fun b e b' hq hstep => hq.trans (handleEvidence_qf b b' now height maxAge e hstep)) evs s3 s' (QFrame.refl s3) hb

/-- **one operation keeps the invariant** (block times not decreasing) -/
theorem inv_gstep {P : Params} (sg : State × Ghost) (op : Op) (h : Inv P sg.1 sg.2)
    (hm : ∀ now, opTime op = some now → sg.2.clock ≤ now) : Inv P (gstep sg op).1 (gstep sg op).2 := by
  obtain ⟨s, g⟩ := sg
  cases op with
  | process hash160 hasAccount height now r =>
    have hc : g.clock ≤ now := hm now rfl
    simp only [gstep]
    split
    · rename_i s' accs s4 h1 h2
      dsimp only at h1 h2 ⊢
      obtain ⟨s4', s5, k1, k2, k3, k4⟩ := processRequests_split hash160 hasAccount s s' height now r accs h1
      rw [h2] at k1
      cases k1
      have i1 : Inv P s4 { g with clock := now } := inv_frame (inv_clock h now hc) k2
      have i2 := inv_unlock now r.unlocks s4 s5 _ i1 k3
      exact inv_frame i2 (claim_qf s5 s' r.claims k4)
    · rename_i hne
      dsimp only at hne ⊢
      cases hp : processRequests hash160 hasAccount s height now r with
      | ok p =>
        obtain ⟨s', accs⟩ := p
        obtain ⟨s4, _, k1, _⟩ := processRequests_split hash160 hasAccount s s' height now r accs hp
        exact (hne s' accs s4 hp k1).elim
      | err e => simp only [step, hp]; exact inv_clock h now hc
      | panic e => simp only [step, hp]; exact inv_clock h now hc
  | beginBlock height now votes maxAge evs =>
    have hc : g.clock ≤ now := hm now rfl
    simp only [gstep]
    cases hb : beginBlock s height now votes maxAge evs with
    | ok s' => simp only [step, hb]; exact inv_beginBlock h height now votes maxAge evs hc hb
    | err e => simp only [step, hb]; exact inv_clock h now hc
    | panic e => simp only [step, hb]; exact inv_clock h now hc
  | endBlocker =>
    simp only [gstep]
    cases hb : endBlocker s with
    | ok p => obtain ⟨s', ups⟩ := p; simp only [step, hb]; exact inv_frame h (endBlocker_qf s s' ups hb)
    | err e => simp only [step, hb]; exact h
    | panic e => simp only [step, hb]; exact h
  | dequeue => exact inv_dequeue h

/-- **the invariant holds along every history with non-decreasing block times** -/
theorem inv_grun {P : Params} (ops : List Op) : ∀ (sg : State × Ghost), Inv P sg.1 sg.2 → Mono sg.2.clock ops →
    Inv P (grun sg ops).1 (grun sg ops).2 := by
  induction ops with
  | nil => intro sg h _; exact h
  | cons op ops ih =>
    intro sg h hm
    rw [grun_cons]
    unfold Mono at hm
    cases ht : opTime op with
    | none =>
      rw [ht] at hm
      refine ih _ (inv_gstep sg op h (fun now hn => by rw [ht] at hn; cases hn)) ?_
      rw [gstep_clock, ht]; exact hm
    | some now =>
      rw [ht] at hm
      refine ih _ (inv_gstep sg op h (fun now' hn => by rw [ht] at hn; cases hn; exact hm.1)) ?_
      rw [gstep_clock, ht]; exact hm.2

/-- nothing queued, nothing logged: the invariant of a fresh chain -/
theorem inv_empty (s : State) (c : Int) (hq : s.unlockQueue = []) (hu : s.qUnlocks = []) : Inv s.params s ⟨c, [], []⟩ := by
  refine ⟨rfl, by rw [hq]; exact List.nodup_nil, by rw [hq, hu]; exact List.Perm.refl _, ?_, ?_, ?_, ?_⟩
  · intro e he; rw [hq] at he; cases he
  · intro u hu'; rw [hu] at hu'; cases hu'
  · intro x hx; cases hx
  · intro a ha; cases ha

/-! ## (d) released not before maturity -/

/-- **Released not before maturity.**  Along any history with non-decreasing block times, every unlock
    handed over by `dequeue` (at clock `t`) was accepted by an `unlockOne` at some block time `t0`
    (`Origin`: the very `unlockCore` / `unlockOne` call, in a state with the same parameters), and
    `t ≥ t0 + exitingDuration` if the validator was exiting at that moment (`exitingOf`: inactive or
    tombstoned, or its remaining holding below the token's threshold), `t ≥ t0 + unlockDuration`
    otherwise. -/
theorem released_not_before_maturity (P : Params) (sg : State × Ghost) (ops : List Op) (h : Inv P sg.1 sg.2)
    (hm : Mono sg.2.clock ops) (u : Unlock) (t : Int) (hd : (u, t) ∈ (grun sg ops).2.delivered) :
    ∃ acc ∈ (grun sg ops).2.accepted, acc.u = u ∧
      acc.t0 + (if acc.exiting then P.exitingDuration else P.unlockDuration) ≤ t ∧
      ∃ si r s3 v tok, si.params = P ∧ unlockOne si acc.t0 r = .ok (enqueueUnlock s3 acc.due acc.u) ∧
        u.id = r.id ∧ u.recipient = r.recipient ∧ u.token = r.tokenAddr ∧
        vget si r.validator = some v ∧ tget si r.token = some tok ∧
        u.amount = unlockAmount (amountOf v.locking r.token) r.amount ∧
        acc.exiting = exitingOf v.status (amountOf v.locking r.token - u.amount) tok.threshold := by
  have hi := inv_grun ops sg h hm
  obtain ⟨acc, ha, h1, h2⟩ := hi.delivered (u, t) hd
  have h1 : acc.u = u := h1
  have h2 : acc.due ≤ t := h2
  obtain ⟨h3, si, r, s3, h4, h5, h6, h7⟩ := hi.origin acc ha
  obtain ⟨v, tok, h8, h9, h10, h11⟩ := unlockCore_flags si s3 r acc.exiting acc.u.amount h5
  refine ⟨acc, ha, h1, ?_, si, r, s3, v, tok, h4, h7, ?_, ?_, ?_, h8, h9, ?_, ?_⟩
  · have : acc.due ≤ t := h2
    rw [h3, C15.unlock_time_exact] at this
    exact this
  · rw [← h1, h6]; rfl
  · rw [← h1, h6]; rfl
  · rw [← h1, h6]; rfl
  · rw [← h1]; exact h10
  · rw [← h1]; exact h11

/-- with validated parameters (`unlockDuration ≤ exitingDuration`) every hand-over is at least the
    unlock period after the request -/
theorem released_after_unlock_period (P : Params) (hP : P.unlockDuration ≤ P.exitingDuration) (sg : State × Ghost)
    (ops : List Op) (h : Inv P sg.1 sg.2) (hm : Mono sg.2.clock ops) (u : Unlock) (t : Int)
    (hd : (u, t) ∈ (grun sg ops).2.delivered) :
    ∃ acc ∈ (grun sg ops).2.accepted, acc.u = u ∧ acc.t0 + P.unlockDuration ≤ t := by
  obtain ⟨acc, ha, h1, h2, _⟩ := released_not_before_maturity P sg ops h hm u t hd
  refine ⟨acc, ha, h1, ?_⟩
  split at h2 <;> omega

/-! ## (e) released exactly once -/

/-- the ids of the unlock requests of a history, in order -/
def reqIds : List Op → List Nat
  | [] => []
  | .process _ _ _ _ r :: ops => r.unlocks.map (·.id) ++ reqIds ops
  | _ :: ops => reqIds ops

theorem unlockLog_ids (now : Int) (reqs : List UnlockReq) : ∀ s : State,
    ((unlockLog s now reqs).map (·.u.id)).Sublist (reqs.map (·.id)) := by
  induction reqs with
  | nil => intro s; exact List.Sublist.refl _
  | cons r rs ih =>
    intro s
    unfold unlockLog
    split
    · simp only [List.map_cons]
      exact (ih _).cons_cons _
    · exact List.nil_sublist _

theorem gstep_accepted_ids (sg : State × Ghost) (op : Op) :
    ∃ l, (gstep sg op).2.accepted = sg.2.accepted ++ l ∧ (l.map (·.u.id)).Sublist (reqIds [op]) := by
  cases op with
  | process hash160 hasAccount height now r =>
    simp only [gstep]
    split
    · rename_i s' accs s4 h1 h2
      refine ⟨unlockLog s4 now r.unlocks, rfl, ?_⟩
      simp only [reqIds, List.append_nil]
      exact unlockLog_ids now r.unlocks s4
    · exact ⟨[], (List.append_nil _).symm, List.nil_sublist _⟩
  | beginBlock height now votes maxAge evs => exact ⟨[], (List.append_nil _).symm, List.nil_sublist _⟩
  | endBlocker => exact ⟨[], (List.append_nil _).symm, List.nil_sublist _⟩
  | dequeue => exact ⟨[], (List.append_nil _).symm, List.nil_sublist _⟩

theorem reqIds_cons (op : Op) (ops : List Op) : reqIds (op :: ops) = reqIds [op] ++ reqIds ops := by
  cases op <;> simp [reqIds]

/-- the accepted ids are request ids of the history (in order, each request at most once) -/
theorem grun_accepted_ids (ops : List Op) : ∀ sg : State × Ghost,
    ∃ l, (grun sg ops).2.accepted = sg.2.accepted ++ l ∧ (l.map (·.u.id)).Sublist (reqIds ops) := by
  induction ops with
  | nil => intro sg; exact ⟨[], (List.append_nil _).symm, List.nil_sublist _⟩
  | cons op ops ih =>
    intro sg
    obtain ⟨l1, e1, s1⟩ := gstep_accepted_ids sg op
    obtain ⟨l2, e2, s2⟩ := ih (gstep sg op)
    refine ⟨l1 ++ l2, ?_, ?_⟩
    · rw [grun_cons, e2, e1, List.append_assoc]
    · rw [List.map_append, reqIds_cons]
      exact s1.append s2

/-- **Fresh request ids make accepted ids distinct**: if the unlock request ids of the history are
    pairwise distinct and different from the ids already logged, the accepted ids are distinct. -/
theorem accepted_ids_nodup (sg : State × Ghost) (ops : List Op)
    (hfresh : (sg.2.accepted.map (·.u.id) ++ reqIds ops).Nodup) : ((grun sg ops).2.accepted.map (·.u.id)).Nodup := by
  obtain ⟨l, e, hs⟩ := grun_accepted_ids ops sg
  rw [e, List.map_append]
  exact List.Nodup.sublist ((List.Sublist.refl _).append hs) hfresh

/-- **Released exactly once.**  Along any history with non-decreasing block times:
    (1) *no invention, no loss, no duplication*: the records in the time queue, in the matured queue and
        the delivered ones are, with multiplicity, exactly the accepted ones;
    (2) under the environment hypothesis that unlock request ids are fresh (pairwise distinct, and
        distinct from the ids logged before the history), all those ids are pairwise distinct: every
        accepted unlock is delivered at most once, and a delivered one is no longer queued. -/
theorem released_exactly_once (P : Params) (sg : State × Ghost) (ops : List Op) (h : Inv P sg.1 sg.2)
    (hm : Mono sg.2.clock ops) :
    (queued (grun sg ops).1.unlockQueue ++ (grun sg ops).1.qUnlocks ++ (grun sg ops).2.delivered.map (·.1)).Perm
        ((grun sg ops).2.accepted.map (·.u)) ∧
    ((sg.2.accepted.map (·.u.id) ++ reqIds ops).Nodup →
      ((queued (grun sg ops).1.unlockQueue ++ (grun sg ops).1.qUnlocks ++ (grun sg ops).2.delivered.map (·.1)).map (·.id)).Nodup) := by
  have hi := inv_grun ops sg h hm
  refine ⟨hi.perm, ?_⟩
  intro hfresh
  have hn := accepted_ids_nodup sg ops hfresh
  have hp := (hi.perm.map (·.id)).symm
  rw [List.map_map] at hp
  exact hp.nodup hn

/-- consequences of (2), spelled out: a delivered id occurs once in the delivery log and nowhere in
    the queues -/
theorem delivered_once (P : Params) (sg : State × Ghost) (ops : List Op) (h : Inv P sg.1 sg.2)
    (hm : Mono sg.2.clock ops) (hfresh : (sg.2.accepted.map (·.u.id) ++ reqIds ops).Nodup) :
    ((grun sg ops).2.delivered.map (·.1.id)).Nodup ∧
    ∀ x ∈ (grun sg ops).2.delivered, (∀ u ∈ (grun sg ops).1.qUnlocks, u.id ≠ x.1.id) ∧
      (∀ e ∈ (grun sg ops).1.unlockQueue, ∀ u ∈ e.2, u.id ≠ x.1.id) := by
  have hn := (released_exactly_once P sg ops h hm).2 hfresh
  rw [List.map_append, List.map_append, List.nodup_append] at hn
  obtain ⟨hqu, hd, hdis⟩ := hn
  rw [List.map_map] at hd hdis
  refine ⟨hd, ?_⟩
  intro x hx
  have hxm : x.1.id ∈ List.map ((fun u : Unlock => u.id) ∘ fun x : Unlock × Int => x.1) (grun sg ops).2.delivered :=
    List.mem_map.mpr ⟨x, hx, rfl⟩
  constructor
  · intro u hu
    exact hdis u.id (List.mem_append_right _ (List.mem_map.mpr ⟨u, hu, rfl⟩)) x.1.id hxm
  · intro e he u hu
    exact hdis u.id (List.mem_append_left _ (List.mem_map.mpr ⟨u, mem_queued.mpr ⟨e, he, hu⟩, rfl⟩)) x.1.id hxm

/-! ## (e, order) released in maturity order -/

/-- the matured records in the order they matured (delivered ones first, then the matured queue) are
    the records of `accs`, logged unlocks with non-decreasing maturity keys, all ≤ `m`; the keys still in
    the time queue are ≥ `m` -/
structure Fifo (P : Params) (s : State) (g : Ghost) (m : Int) (accs : List Acc) : Prop where
  params : s.params = P
  recs : accs.map (·.u) = g.delivered.map (·.1) ++ s.qUnlocks
  logged : ∀ a ∈ accs, a ∈ g.accepted
  sorted : accs.Pairwise (fun a b => a.due ≤ b.due)
  below : ∀ a ∈ accs, a.due ≤ m
  clock : m ≤ g.clock
  above : ∀ e ∈ s.unlockQueue, m ≤ e.1

def FifoInv (P : Params) (s : State) (g : Ghost) : Prop := ∃ m accs, Fifo P s g m accs

theorem fifo_frame {P : Params} {s t : State} {g : Ghost} (h : FifoInv P s g) (f : QFrame s t) : FifoInv P t g := by
  obtain ⟨m, accs, h⟩ := h
  refine ⟨m, accs, f.params.trans h.params, ?_, h.logged, h.sorted, h.below, h.clock, ?_⟩
  · rw [f.qUnlocks]; exact h.recs
  · rw [f.unlockQueue]; exact h.above

theorem fifo_clock {P : Params} {s : State} {g : Ghost} (h : FifoInv P s g) (c : Int) (hc : g.clock ≤ c) :
    FifoInv P s { g with clock := c } := by
  obtain ⟨m, accs, h⟩ := h
  exact ⟨m, accs, h.params, h.recs, h.logged, h.sorted, h.below, by have := h.clock; dsimp only; omega, h.above⟩

theorem enq_key (q : List (Int × List Unlock)) (t : Int) (u : Unlock) (e : Int × List Unlock) (he : e ∈ enq q t u) :
    e.1 = t ∨ ∃ e' ∈ q, e'.1 = e.1 := by
  unfold enq at he
  split at he
  · obtain ⟨e', he', rfl⟩ := List.mem_map.mp he
    by_cases hk : e'.1 = t
    · left
      have h2 : (e'.1 == t) = true := by simpa using hk
      rw [h2]; rfl
    · right
      have h2 : (e'.1 == t) = false := by simpa using hk
      rw [h2]
      exact ⟨e', he', rfl⟩
  · rcases List.mem_append.mp he with h | h
    · exact Or.inr ⟨e, h, rfl⟩
    · simp only [List.mem_singleton] at h; subst h; exact Or.inl rfl

theorem fifo_unlockOne {P : Params} {s s3 : State} {g : Ghost} (h : FifoInv P s g) (hP : 0 ≤ P.unlockDuration ∧ 0 ≤ P.exitingDuration)
    (now : Int) (hnow : g.clock = now) (r : UnlockReq) (ex : Bool) (amt : Int) (hc : unlockCore s r = .ok (s3, ex, amt))
    (l : List Acc) :
    FifoInv P (enqueueUnlock s3 (unlockTime s.params now ex) (recOf r amt)) { g with accepted := g.accepted ++ l } := by
  obtain ⟨m, accs, h⟩ := h
  have f := unlockCore_qf s s3 r ex amt hc
  have hq : (enqueueUnlock s3 (unlockTime s.params now ex) (recOf r amt)).unlockQueue
      = enq s.unlockQueue (unlockTime s.params now ex) (recOf r amt) := by rw [← f.unlockQueue]; rfl
  have hu : (enqueueUnlock s3 (unlockTime s.params now ex) (recOf r amt)).qUnlocks = s.qUnlocks := f.qUnlocks
  refine ⟨m, accs, f.params.trans h.params, ?_, fun a ha => List.mem_append_left _ (h.logged a ha), h.sorted, h.below, h.clock, ?_⟩
  · rw [hu]; exact h.recs
  · intro e he
    rw [hq] at he
    rcases enq_key _ _ _ e he with h1 | ⟨e', he', hk⟩
    · rw [h1, h.params, C15.unlock_time_exact]
      have := h.clock
      split <;> omega
    · rw [← hk]; exact h.above e' he'

theorem fifo_unlock {P : Params} (hP : 0 ≤ P.unlockDuration ∧ 0 ≤ P.exitingDuration) (now : Int) (reqs : List UnlockReq) :
    ∀ (s s' : State) (g : Ghost), FifoInv P s g → g.clock = now →
    unlock s now reqs = .ok s' → FifoInv P s' { g with accepted := g.accepted ++ unlockLog s now reqs } := by
  induction reqs with
  | nil =>
    intro s s' g h _ hu
    have := foldlM_nil_ok _ _ _ hu
    subst this
    simp only [unlockLog, List.append_nil]
    exact h
  | cons r rs ih =>
    intro s s' g h hnow hu
    unfold unlock at hu
    obtain ⟨s1, h1, h2⟩ := foldlM_cons_ok _ r rs s s' hu
    obtain ⟨s3, ex, amt, hc, rfl⟩ := unlockOne_ok s s1 now r h1
    have hi := fifo_unlockOne h hP now hnow r ex amt hc [⟨recOf r amt, now, ex, unlockTime s.params now ex⟩]
    have := ih _ s' _ hi hnow h2
    simp only [unlockLog, hc]
    dsimp only at this
    rw [List.append_assoc] at this
    exact this

/-- logged unlocks for the records of a list of queue entries sorted by key, in order -/
theorem batch_accs (A : List Acc) : ∀ (l : List (Int × List Unlock)),
    (∀ e ∈ l, ∀ u ∈ e.2, ∃ acc ∈ A, acc.u = u ∧ acc.due = e.1) → l.Pairwise (fun a b => a.1 ≤ b.1) →
    ∃ accs : List Acc, accs.map (·.u) = queued l ∧ (∀ a ∈ accs, a ∈ A) ∧ accs.Pairwise (fun a b => a.due ≤ b.due) ∧
      ∀ a ∈ accs, ∃ e ∈ l, a.due = e.1 := by
  intro l
  induction l with
  | nil => intro _ _; exact ⟨[], rfl, (fun a ha => by cases ha), List.Pairwise.nil, fun a ha => by cases ha⟩
  | cons e es ih =>
    intro hq hs
    rw [List.pairwise_cons] at hs
    obtain ⟨tl, t1, t2, t3, t4⟩ := ih (fun e' he' => hq e' (List.mem_cons_of_mem _ he')) hs.2
    -- the records of the first entry
    have hd : ∀ (us : List Unlock), (∀ u ∈ us, ∃ acc ∈ A, acc.u = u ∧ acc.due = e.1) →
        ∃ accs : List Acc, accs.map (·.u) = us ∧ (∀ a ∈ accs, a ∈ A) ∧ ∀ a ∈ accs, a.due = e.1 := by
      intro us
      induction us with
      | nil => intro _; exact ⟨[], rfl, (fun a ha => by cases ha), fun a ha => by cases ha⟩
      | cons u us ihu =>
        intro hu
        obtain ⟨acc, ha, h1, h2⟩ := hu u List.mem_cons_self
        obtain ⟨r, r1, r2, r3⟩ := ihu (fun x hx => hu x (List.mem_cons_of_mem _ hx))
        refine ⟨acc :: r, by rw [List.map_cons, h1, r1], ?_, ?_⟩
        · intro a ha'
          rcases List.mem_cons.mp ha' with rfl | h
          · exact ha
          · exact r2 a h
        · intro a ha'
          rcases List.mem_cons.mp ha' with rfl | h
          · exact h2
          · exact r3 a h
    obtain ⟨hdl, d1, d2, d3⟩ := hd e.2 (hq e List.mem_cons_self)
    refine ⟨hdl ++ tl, ?_, ?_, ?_, ?_⟩
    · rw [List.map_append, d1, t1, queued_cons]
    · intro a ha
      rcases List.mem_append.mp ha with h | h
      · exact d2 a h
      · exact t2 a h
    · rw [List.pairwise_append]
      refine ⟨?_, t3, ?_⟩
      · have : ∀ (l : List Acc), (∀ a ∈ l, a.due = e.1) → l.Pairwise (fun a b => a.due ≤ b.due) := by
          intro l
          induction l with
          | nil => intro _; exact List.Pairwise.nil
          | cons x xs ihx =>
            intro hx
            rw [List.pairwise_cons]
            refine ⟨fun y hy => ?_, ihx (fun a ha => hx a (List.mem_cons_of_mem _ ha))⟩
            rw [hx x List.mem_cons_self, hx y (List.mem_cons_of_mem _ hy)]
            exact Int.le_refl _
        exact this hdl d3
      · intro a ha b hb
        obtain ⟨e', he', hk⟩ := t4 b hb
        rw [d3 a ha, hk]
        exact hs.1 e' he'
    · intro a ha
      rcases List.mem_append.mp ha with h | h
      · exact ⟨e, List.mem_cons_self, d3 a h⟩
      · obtain ⟨e', he', hk⟩ := t4 a h
        exact ⟨e', List.mem_cons_of_mem _ he', hk⟩

theorem fifo_dequeueMature {P : Params} {s : State} {g : Ghost} (hi : Inv P s g) (h : FifoInv P s g) (now : Int)
    (hc : g.clock = now) : FifoInv P (dequeueMature s now) g := by
  obtain ⟨m, accs, h⟩ := h
  unfold dequeueMature
  by_cases hd : (dueUnlocks s now).isEmpty = true
  · rw [if_pos hd]; exact ⟨m, accs, h⟩
  · rw [if_neg hd]
    have hsorted : (dueUnlocks s now).Pairwise (fun a b => a.1 ≤ b.1) := by
      unfold dueUnlocks
      refine (C18.msort_int_sorted (fun e : Int × List Unlock => e.1) _).imp ?_
      intro a b hab
      simpa using hab
    have hmem : ∀ e ∈ dueUnlocks s now, e ∈ s.unlockQueue ∧ e.1 ≤ now := by
      intro e he
      unfold dueUnlocks at he
      have he' := (List.mergeSort_perm _ _).mem_iff.mp he
      rw [List.mem_filter] at he'
      exact ⟨he'.1, by simpa using he'.2⟩
    obtain ⟨batch, b1, b2, b3, b4⟩ := batch_accs g.accepted (dueUnlocks s now)
      (fun e he => hi.queue e (hmem e he).1) hsorted
    refine ⟨now, accs ++ batch, h.params, ?_, ?_, ?_, ?_, by rw [hc]; exact Int.le_refl _, ?_⟩
    · dsimp only
      rw [List.map_append, h.recs, b1, List.append_assoc]
      rfl
    · intro a ha
      rcases List.mem_append.mp ha with h1 | h1
      · exact h.logged a h1
      · exact b2 a h1
    · rw [List.pairwise_append]
      refine ⟨h.sorted, b3, ?_⟩
      intro a ha b hb
      obtain ⟨e, he, hk⟩ := b4 b hb
      have h1 := h.below a ha
      have h2 := h.above e (hmem e he).1
      omega
    · intro a ha
      rcases List.mem_append.mp ha with h1 | h1
      · have := h.below a h1
        have := h.clock
        omega
      · obtain ⟨e, he, hk⟩ := b4 a h1
        rw [hk]; exact (hmem e he).2
    · intro e he
      dsimp only at he
      have := (List.mem_filter.mp he).2
      simp only [Bool.not_eq_true', decide_eq_false_iff_not, Int.not_le] at this
      omega

theorem fifo_dequeue {P : Params} {s : State} {g : Ghost} (h : FifoInv P s g) :
    FifoInv P (dequeue s).1 { g with delivered := g.delivered ++ (dequeue s).2.2.1.map (fun u => (u, g.clock)) } := by
  obtain ⟨m, accs, h⟩ := h
  unfold dequeue
  split
  · simp only [List.map_nil, List.append_nil]
    exact ⟨m, accs, h⟩
  · dsimp only
    refine ⟨m, accs, h.params, ?_, h.logged, h.sorted, h.below, h.clock, h.above⟩
    dsimp only
    rw [List.map_append, List.map_map]
    have hm : ((fun x : Unlock × Int => x.1) ∘ fun u => (u, g.clock)) = id := rfl
    rw [hm, List.map_id, List.append_assoc, List.take_append_drop]
    exact h.recs

theorem fifo_gstep {P : Params} (hP : 0 ≤ P.unlockDuration ∧ 0 ≤ P.exitingDuration) (sg : State × Ghost) (op : Op)
    (hi : Inv P sg.1 sg.2) (h : FifoInv P sg.1 sg.2)
    (hm : ∀ now, opTime op = some now → sg.2.clock ≤ now) : FifoInv P (gstep sg op).1 (gstep sg op).2 := by
  obtain ⟨s, g⟩ := sg
  cases op with
  | process hash160 hasAccount height now r =>
    have hc : g.clock ≤ now := hm now rfl
    simp only [gstep]
    split
    · rename_i s' accs s4 h1 h2
      dsimp only at h1 h2 ⊢
      obtain ⟨s4', s5, k1, k2, k3, k4⟩ := processRequests_split hash160 hasAccount s s' height now r accs h1
      rw [h2] at k1
      cases k1
      have i1 : FifoInv P s4 { g with clock := now } := fifo_frame (fifo_clock h now hc) k2
      have i2 := fifo_unlock hP now r.unlocks s4 s5 _ i1 rfl k3
      exact fifo_frame i2 (claim_qf s5 s' r.claims k4)
    · rename_i hne
      dsimp only at hne ⊢
      cases hp : processRequests hash160 hasAccount s height now r with
      | ok p =>
        obtain ⟨s', accs⟩ := p
        obtain ⟨s4, _, k1, _⟩ := processRequests_split hash160 hasAccount s s' height now r accs hp
        exact (hne s' accs s4 hp k1).elim
      | err e => simp only [step, hp]; exact fifo_clock h now hc
      | panic e => simp only [step, hp]; exact fifo_clock h now hc
  | beginBlock height now votes maxAge evs =>
    have hc : g.clock ≤ now := hm now rfl
    simp only [gstep]
    cases hb : beginBlock s height now votes maxAge evs with
    | ok s' =>
      simp only [step, hb]
      unfold beginBlock at hb
      obtain ⟨s1, h1, hb⟩ := (bind_eq_ok _ _ _).mp hb
      obtain ⟨s3, h3, hb⟩ := (bind_eq_ok _ _ _).mp hb
      have q1 := distributeReward_qf s s1 height votes h1
      have i1 : Inv P s1 { g with clock := now } := inv_frame (inv_clock hi now hc) q1
      have f1 : FifoInv P s1 { g with clock := now } := fifo_frame (fifo_clock h now hc) q1
      have f2 := fifo_dequeueMature i1 f1 now rfl
      have f3 := fifo_frame f2 (handleVotes_qf _ s3 now votes h3)
      refine fifo_frame f3 ?_
      exact foldlM_inv (fun b => QFrame s3 b) _
        (fun b e b' hq hstep => hq.trans (handleEvidence_qf b b' now height maxAge e hstep)) evs s3 s' (QFrame.refl s3) hb
    | err e => simp only [step, hb]; exact fifo_clock h now hc
    | panic e => simp only [step, hb]; exact fifo_clock h now hc
  | endBlocker =>
    simp only [gstep]
    cases hb : endBlocker s with
    | ok p => obtain ⟨s', ups⟩ := p; simp only [step, hb]; exact fifo_frame h (endBlocker_qf s s' ups hb)
    | err e => simp only [step, hb]; exact h
    | panic e => simp only [step, hb]; exact h
  | dequeue => exact fifo_dequeue h

theorem fifo_grun {P : Params} (hP : 0 ≤ P.unlockDuration ∧ 0 ≤ P.exitingDuration) (ops : List Op) :
    ∀ (sg : State × Ghost), Inv P sg.1 sg.2 → FifoInv P sg.1 sg.2 → Mono sg.2.clock ops →
    FifoInv P (grun sg ops).1 (grun sg ops).2 := by
  induction ops with
  | nil => intro sg _ h _; exact h
  | cons op ops ih =>
    intro sg hi h hm
    rw [grun_cons]
    unfold Mono at hm
    cases ht : opTime op with
    | none =>
      rw [ht] at hm
      have hm' : ∀ now, opTime op = some now → sg.2.clock ≤ now := fun now hn => by rw [ht] at hn; cases hn
      refine ih _ (inv_gstep sg op hi hm') (fifo_gstep hP sg op hi h hm') ?_
      rw [gstep_clock, ht]; exact hm
    | some now =>
      rw [ht] at hm
      have hm' : ∀ now', opTime op = some now' → sg.2.clock ≤ now' := fun now' hn => by rw [ht] at hn; cases hn; exact hm.1
      refine ih _ (inv_gstep sg op hi hm') (fifo_gstep hP sg op hi h hm') ?_
      rw [gstep_clock, ht]; exact hm.2

theorem fifo_empty (s : State) (c : Int) (hq : s.unlockQueue = []) (hu : s.qUnlocks = []) : FifoInv s.params s ⟨c, [], []⟩ := by
  refine ⟨c, [], rfl, by rw [hu]; rfl, (fun a ha => by cases ha), List.Pairwise.nil, (fun a ha => by cases ha), Int.le_refl _, ?_⟩
  intro e he; rw [hq] at he; cases he

/-- **Released in maturity order.**  With non-negative unlock and exit periods and non-decreasing block
    times, the sequence of records in the order they are handed over — the delivered ones followed by
    those waiting in the matured queue — is the sequence of records of logged unlocks whose maturity
    keys are non-decreasing: an unlock is never handed over before one with an earlier maturity.
    (Within one maturity key the model keeps the order of acceptance in the bucket.) -/
theorem released_in_maturity_order (P : Params) (hP : 0 ≤ P.unlockDuration ∧ 0 ≤ P.exitingDuration) (sg : State × Ghost)
    (ops : List Op) (hi : Inv P sg.1 sg.2) (hf : FifoInv P sg.1 sg.2) (hm : Mono sg.2.clock ops) :
    ∃ accs : List Acc, accs.map (·.u) = (grun sg ops).2.delivered.map (·.1) ++ (grun sg ops).1.qUnlocks ∧
      (∀ a ∈ accs, a ∈ (grun sg ops).2.accepted) ∧ accs.Pairwise (fun a b => a.due ≤ b.due) := by
  obtain ⟨m, accs, h⟩ := fifo_grun hP ops sg hi hf hm
  exact ⟨accs, h.recs, h.logged, h.sorted⟩

/-! ## (f) exit is immediate, the remaining funds stay withdrawable -/

/-- **Dropping below a threshold exits at once** (`C15.below_threshold_exits`, restated): power 0, out
    of the ranking, Inactive (unless tombstoned), the remaining holding stays on record. -/
theorem exit_is_immediate (s : State) (r : UnlockReq) (v : Validator) (tok : Token) (s3 : State) (amount : Int)
    (hv : vget s r.validator = some v) (ht : tget s r.token = some tok)
    (hex : exitingOf v.status (amountOf v.locking r.token - unlockAmount (amountOf v.locking r.token) r.amount) tok.threshold = true)
    (hok : unlockCore s r = .ok (s3, true, amount)) :
    ∃ v', vget s3 r.validator = some v' ∧ v'.power = 0 ∧ (v.power, r.validator) ∉ s3.ranking ∧
      (v.status ≠ .tombstoned → v'.status = .inactive) ∧
      v'.locking = setAmount v.locking r.token (amountOf v.locking r.token - amount) :=
  C15.below_threshold_exits s r v tok s3 amount hv ht hex hok

/-- **The remaining funds of an exited validator stay withdrawable, exactly.**  For an Inactive (or
    Tombstoned) validator, an unlock request for a known token succeeds whenever the clipped amount
    `min(holding, requested)` is not negative; it releases exactly that amount, reports "exiting" (so the
    exit period applies), leaves the status and power 0, and the holding drops by the released amount. -/
theorem exited_unlock_exact (s : State) (r : UnlockReq) (v : Validator) (tok : Token)
    (hv : vget s r.validator = some v) (hs : v.status = .inactive ∨ v.status = .tombstoned)
    (ht : tget s r.token = some tok) (hnn : 0 ≤ unlockAmount (amountOf v.locking r.token) r.amount) :
    ∃ s3, unlockCore s r = .ok (s3, true, unlockAmount (amountOf v.locking r.token) r.amount) ∧
      ∃ v', vget s3 r.validator = some v' ∧ v'.status = v.status ∧ v'.power = 0 ∧
        v'.locking = setAmount v.locking r.token
          (amountOf v.locking r.token - unlockAmount (amountOf v.locking r.token) r.amount) ∧
        s3.unlockQueue = s.unlockQueue ∧ s3.qUnlocks = s.qUnlocks := by
  have ht' : tget (rankRemove s v.power r.validator) r.token = some tok := ht
  have hex : ∀ x, exitingOf v.status x tok.threshold = true := by
    intro x
    rcases hs with h | h <;> simp [exitingOf, h]
  have hlt : ¬ unlockAmount (amountOf v.locking r.token) r.amount < 0 := by omega
  unfold unlockCore
  simp only [hv, ht', hlt, if_false, hex, Bool.not_true, Bool.false_eq_true, false_and, and_false, if_true]
  refine ⟨_, rfl, _, vget_vset_same _ _ _, ?_, rfl, rfl, ?_, ?_⟩
  · rcases hs with h | h <;> simp [h]
  · rw [vset_unlockQueue]
    exact (qf_foldl_idxRemove r.validator v.locking _).unlockQueue
  · rw [vset_qUnlocks]
    exact (qf_foldl_idxRemove r.validator v.locking _).qUnlocks

/-- … and the released amount is then queued under `now + exitingDuration` -/
theorem exited_unlock_queued (s : State) (now : Int) (r : UnlockReq) (v : Validator) (tok : Token)
    (hv : vget s r.validator = some v) (hs : v.status = .inactive ∨ v.status = .tombstoned)
    (ht : tget s r.token = some tok) (hnn : 0 ≤ unlockAmount (amountOf v.locking r.token) r.amount) :
    ∃ s', unlockOne s now r = .ok s' ∧
      ∃ us, (now + s.params.exitingDuration, us) ∈ s'.unlockQueue ∧
        recOf r (unlockAmount (amountOf v.locking r.token) r.amount) ∈ us := by
  obtain ⟨s3, hc, _⟩ := exited_unlock_exact s r v tok hv hs ht hnn
  refine ⟨_, unlockOne_of_core s s3 now r true _ hc, ?_⟩
  have := C15.enqueue_files_under_time s3 (unlockTime s.params now true)
    (recOf r (unlockAmount (amountOf v.locking r.token) r.amount))
  simpa [unlockTime] using this

/-- the clipped amount is not negative when neither the request nor the holding is -/
theorem unlockAmount_nonneg (held requested : Int) (h1 : 0 ≤ held) (h2 : 0 ≤ requested) : 0 ≤ unlockAmount held requested := by
  unfold unlockAmount; split <;> omega

/-- **… at any later point**: an Inactive validator that is out (power 0, not ranked, not indexed) is
    still Inactive or Tombstoned after any history, so `exited_unlock_exact` applies to it then. -/
theorem exited_stays_withdrawable (s : State) (a : Bytes) (v : Validator) (ho : OutRec s a v) (hs : v.status = .inactive)
    (ops : List Op) :
    ∃ v', vget (runS s ops) a = some v' ∧ (v'.status = .inactive ∨ v'.status = .tombstoned) := by
  obtain ⟨v', o, l, _⟩ := runS_out a ops s v ho (Or.inl (by rw [hs]; decide))
  exact ⟨v', o.vrec, l.inactive hs⟩

/-! ## non-vacuity: a concrete history -/

namespace Example
open Goat.C11H (genesis)

def params : Params :=
  { unlockDuration := 10, exitingDuration := 20, downtimeJail := 5, maxValidators := 10, signedBlocksWindow := 100,
    maxMissed := 50, slashDoubleSign := 50000000000000000, slashDowntime := 10000000000000000,
    halvingInterval := 1000, initialReward := 0 }

/-- t=50: token "btc" (threshold 500), validator `[1]` created, 1000 btc locked;
    t=60: unlock #7 of 300 (700 left ≥ 500: not exiting, matures at 70);
    t=65: unlock #8 of 300 (400 left < 500: exiting, the validator becomes Inactive, matures at 85);
    t=75: begin block (#7 matures), hand-over; unlock #9 of 5000 by the now Inactive validator (clipped to
          the 400 it holds, exiting, matures at 95);
    t=90: begin block (#8 matures), hand-over; t=100: begin block (#9 matures), hand-over -/
def ops : List Op :=
  [ .process id (fun _ => false) 1 50
      { gas := [0], weights := [("btc", 1)], thresholds := [("btc", 500)],
        creates := [{ validator := [1], compressed := [1] }],
        locks := [{ validator := [1], token := "btc", amount := 1000 }] },
    .process id (fun _ => false) 2 60
      { gas := [0], unlocks := [{ id := 7, validator := [1], recipient := [9], token := "btc", tokenAddr := [], amount := 300 }] },
    .process id (fun _ => false) 3 65
      { gas := [0], unlocks := [{ id := 8, validator := [1], recipient := [9], token := "btc", tokenAddr := [], amount := 300 }] },
    .beginBlock 4 75 [] none [],
    .dequeue,
    .process id (fun _ => false) 4 75
      { gas := [0], unlocks := [{ id := 9, validator := [1], recipient := [9], token := "btc", tokenAddr := [], amount := 5000 }] },
    .beginBlock 5 90 [] none [],
    .dequeue,
    .beginBlock 6 100 [] none [],
    .dequeue ]

def start : State × Ghost := (genesis params, ⟨0, [], []⟩)
def final : State × Ghost := grun start ops

/-- the history runs through: three unlocks accepted (id, amount, request time, exiting, maturity) and
    all three handed over (id, amount, time), each at the first block time ≥ its maturity -/
theorem final_log :
    final.2.accepted.map (fun a => (a.u.id, a.u.amount, a.t0, a.exiting, a.due))
      = [(7, 300, 60, false, 70), (8, 300, 65, true, 85), (9, 400, 75, true, 95)] ∧
    final.2.delivered.map (fun x => (x.1.id, x.1.amount, x.2)) = [(7, 300, 75), (8, 300, 90), (9, 400, 100)] ∧
    final.1.qUnlocks.length = 0 ∧ final.1.unlockQueue.length = 0 := by decide +kernel

theorem start_inv : Inv params start.1 start.2 := inv_empty (genesis params) 0 rfl rfl
theorem start_fifo : FifoInv params start.1 start.2 := fifo_empty (genesis params) 0 rfl rfl
theorem ops_mono : Mono start.2.clock ops := by
  simp only [ops, Mono, opTime, start]
  decide

theorem ops_fresh : (start.2.accepted.map (·.u.id) ++ reqIds ops).Nodup := by decide

/-- the hypotheses of the theorems hold for this history: (d), (e) and the order theorem apply to it -/
example (u : Unlock) (t : Int) (hd : (u, t) ∈ final.2.delivered) :
    ∃ acc ∈ final.2.accepted, acc.u = u ∧ acc.t0 + params.unlockDuration ≤ t :=
  released_after_unlock_period params (by decide) start ops start_inv ops_mono u t hd

example : ((queued final.1.unlockQueue ++ final.1.qUnlocks ++ final.2.delivered.map (·.1)).map (·.id)).Nodup :=
  (released_exactly_once params start ops start_inv ops_mono).2 ops_fresh

example : ∃ accs : List Acc, accs.map (·.u) = final.2.delivered.map (·.1) ++ final.1.qUnlocks ∧
    (∀ a ∈ accs, a ∈ final.2.accepted) ∧ accs.Pairwise (fun a b => a.due ≤ b.due) :=
  released_in_maturity_order params (by decide) start ops start_inv start_fifo ops_mono

/-- (f) on the example: after the second unlock the validator is Inactive (status 4) with power 0 and
    still holds 400 btc, which the third unlock (a request for 5000) withdraws in full, under the exit
    period -/
example : (grun start (ops.take 3)).1.validators.map (fun e : Bytes × Validator => (e.1, e.2.status.toNat, e.2.power, e.2.locking))
      = [([1], 4, 0, [("btc", 400)])] := by decide +kernel

example : final.1.validators.map (fun e : Bytes × Validator => (e.1, e.2.status.toNat, e.2.power, e.2.locking.length))
      = [([1], 4, 0, 0)] := by decide +kernel

/-- the freshness hypothesis of (e) is needed: the model does not check ids, a repeated request id is
    accepted and delivered twice -/
def dupOps : List Op :=
  [ .process id (fun _ => false) 1 50
      { gas := [0], weights := [("btc", 1)], thresholds := [("btc", 500)],
        creates := [{ validator := [1], compressed := [1] }],
        locks := [{ validator := [1], token := "btc", amount := 1000 }] },
    .process id (fun _ => false) 2 60
      { gas := [0], unlocks := [{ id := 7, validator := [1], recipient := [9], token := "btc", tokenAddr := [], amount := 300 },
                                { id := 7, validator := [1], recipient := [9], token := "btc", tokenAddr := [], amount := 100 }] },
    .beginBlock 4 80 [] none [], .dequeue ]

example : (grun start dupOps).2.delivered.map (fun x => (x.1.id, x.1.amount, x.2)) = [(7, 300, 80), (7, 100, 80)] := by
  decide +kernel

/-- the time hypothesis of (d) is needed: with a block time that runs backwards the hand-over of an
    unlock matured at time 75 is logged at the earlier clock 40 < 60 + 10 -/
def backOps : List Op :=
  [ .process id (fun _ => false) 1 50
      { gas := [0], weights := [("btc", 1)], thresholds := [("btc", 500)],
        creates := [{ validator := [1], compressed := [1] }],
        locks := [{ validator := [1], token := "btc", amount := 1000 }] },
    .process id (fun _ => false) 2 60
      { gas := [0], unlocks := [{ id := 7, validator := [1], recipient := [9], token := "btc", tokenAddr := [], amount := 300 }] },
    .beginBlock 4 75 [] none [], .beginBlock 5 40 [] none [], .dequeue ]

example : (grun start backOps).2.delivered.map (fun x => (x.1.id, x.2)) = [(7, 40)] := by
  decide +kernel

end Example

end Goat.C15H
