/-
  C01 — voted relayer proposals need a genuine two-thirds quorum.
  Property statements only; helper lemmas are in GoatProofs/Lemmas/Relayer.lean.
-/
import GoatModel.Relayer
import GoatModel.Bitcoin
import GoatProofs.Lemmas.Relayer
namespace Goat.C01
open Goat.Relayer

/-- threshold = ceil(2(n+1)/3): the least t with 3t ≥ 2(n+1) -/
theorem threshold_spec (n : Nat) : 3 * threshold n ≥ 2 * (n + 1) ∧ 3 * (threshold n - 1) < 2 * (n + 1) :=
  Relayer.threshold_spec n

/-- What a genuine quorum is, for a group state `s`, a voted message `m` and the chain id:
    the message names the current proposer, sequence and epoch; every marked bitmap position denotes
    a current voter; the aggregate signature verifies over exactly this action (method), payload,
    chain, epoch and sequence under the proposer's key followed by the keys of exactly the marked
    voters; and proposer plus marked voters number at least ceil(2(n+1)/3). -/
def Quorum (c : Crypto) (chainId : String) (s : State) (m : VoteMsg) : Prop :=
  m.proposer = s.proposer ∧ m.seq = s.seq ∧ m.epoch = s.epoch ∧
  (∀ i, bitmapContains m.bitmap i = true → i < s.voters.length) ∧
  ∃ pk ks, lookup s.recs s.proposer = some pk ∧
    (markedVoters s m.bitmap).mapM (fun v => (lookup s.recs v).map (·.voteKey)) = some ks ∧
    c.aggVerify (pk.voteKey :: ks) (voteSignDoc c m.method chainId s.proposer s.seq s.epoch m.sigDoc) m.signature = true ∧
    (markedVoters s m.bitmap).length = bitmapCount m.bitmap ∧
    (markedVoters s m.bitmap).length + 1 ≥ threshold s.voters.length

/-- **C01 (soundness of acceptance).** `VerifyProposal` accepts only with a genuine quorum, and then
    changes nothing but the proposer-accepted flag and returns the current sequence.
    For every crypto instantiation, group size, bitmap, membership. -/
theorem C01_accept_sound (c : Crypto) (chainId : String) (s : State) (m : VoteMsg) (s' : State) (q : Nat)
    (h : verifyProposal c chainId s m = .ok (s', q)) :
    Quorum c chainId s m ∧ s' = { s with accepted := true } ∧ q = s.seq := by
  unfold verifyProposal at h
  split at h; · cases h
  split at h; · cases h
  split at h; · cases h
  split at h; · cases h
  rename_i hp hs he _
  simp only at h
  split at h; · cases h
  rename_i hlen
  split at h
  · cases h
  · rename_i keys hk
    split at h; · cases h
    rename_i hkl
    split at h; · cases h
    rename_i hv
    simp only [Outcome.ok.injEq, Prod.mk.injEq] at h
    obtain ⟨h1, h2⟩ := h
    refine ⟨?_, h1.symm, h2.symm⟩
    -- unpack collectKeys
    unfold collectKeys at hk
    cases hpk : lookup s.recs s.proposer with
    | none => simp [hpk] at hk
    | some pk =>
      cases hgo : collectKeys.go s m.bitmap s.voters 0 [] with
      | none => simp [hpk, hgo] at hk
      | some ks =>
        simp [hpk, hgo] at hk
        obtain ⟨ks', hks, hmap⟩ := collectKeys_go_spec s m.bitmap s.voters 0 [] ks hgo
        simp at hks
        subst hks
        have hlenks := mapM_option_length _ _ _ hmap
        have hmv : (markedVoters s m.bitmap).length = bitmapCount m.bitmap := by
          have h3 : keys.length = bitmapCount m.bitmap + 1 := by
            simpa using hkl
          rw [← hk] at h3
          simp at h3
          unfold markedVoters
          omega
        have hbelow := marks_below m.bitmap s.voters.length (by rw [← markedVoters_length]; exact hmv)
        have hp' : m.proposer = s.proposer := by
          have : s.proposer = m.proposer := by simpa using hp
          exact this.symm
        refine ⟨hp', by simpa using hs, by simpa using he, hbelow, pk, ks, hpk, hmap, ?_, hmv, ?_⟩
        · rw [← hk] at hv
          simpa using hv
        · have : ¬ (bitmapCount m.bitmap + 1 < threshold s.voters.length ∨ bitmapCount m.bitmap > s.voters.length) := hlen
          omega

/-- a rejected proposal yields no new state at all (the transactional wrapper keeps the old one) -/
theorem C01_no_quorum_rejected (c : Crypto) (chainId : String) (s : State) (m : VoteMsg)
    (h : ¬ Quorum c chainId s m) : ∀ r, verifyProposal c chainId s m ≠ .ok r := by
  intro r hr
  exact h (C01_accept_sound c chainId s m r.1 r.2 hr).1

/-! ### the five voted handlers take effect only through `verifyProposal` on *their* action and payload -/

theorem newBlockHashes_needs_quorum (rc : Crypto) (chainId : String) (rel : State) (s : Bitcoin.State)
    (vote : VoteMsg) (hv : Bool) (start : Nat) (hashes : List Bytes) (r : State × Bitcoin.State)
    (h : Bitcoin.newBlockHashes rc chainId rel s vote hv start hashes = .ok r) :
    Quorum rc chainId rel { vote with method := "Bitcoin/NewBlocks", sigDoc := List.replicate 8 0 ++ le64 start ++ hashes.flatten } := by
  cases hvp : verifyProposal rc chainId rel { vote with method := "Bitcoin/NewBlocks", sigDoc := List.replicate 8 0 ++ le64 start ++ hashes.flatten } with
  | ok p => exact (C01_accept_sound rc chainId rel _ p.1 p.2 hvp).1
  | err e => exfalso; unfold Bitcoin.newBlockHashes at h; simp only [hvp] at h; repeat (split at h <;> try cases h)
  | panic e => exfalso; unfold Bitcoin.newBlockHashes at h; simp only [hvp] at h; repeat (split at h <;> try cases h)

theorem newPubkey_needs_quorum (rc : Crypto) (chainId : String) (rel : State) (s : Bitcoin.State)
    (vote : VoteMsg) (hv : Bool) (pk : Bitcoin.PubKey) (r : State × Bitcoin.State)
    (h : Bitcoin.newPubkey rc chainId rel s vote hv pk = .ok r) :
    Quorum rc chainId rel { vote with method := "Bitcoin/NewPubkey", sigDoc := pk.encode } := by
  cases hvp : verifyProposal rc chainId rel { vote with method := "Bitcoin/NewPubkey", sigDoc := pk.encode } with
  | ok p => exact (C01_accept_sound rc chainId rel _ p.1 p.2 hvp).1
  | err e => exfalso; unfold Bitcoin.newPubkey at h; simp only [hvp] at h; repeat (split at h <;> try cases h)
  | panic e => exfalso; unfold Bitcoin.newPubkey at h; simp only [hvp] at h; repeat (split at h <;> try cases h)

theorem processWithdrawal_needs_quorum (c : Bitcoin.Crypto) (rc : Crypto) (chainId : String) (rel : State) (s : Bitcoin.State)
    (vote : VoteMsg) (hv : Bool) (ids : List Nat) (tx : Bytes) (fee : Nat) (r : State × Bitcoin.State)
    (h : Bitcoin.processWithdrawal c rc chainId rel s vote hv ids tx fee = .ok r) :
    Quorum rc chainId rel { vote with method := "Bitcoin/ProcessWithdrawal",
                                      sigDoc := (ids.map le64).flatten ++ rc.sha256 tx ++ le64 fee } := by
  cases hvp : verifyProposal rc chainId rel { vote with method := "Bitcoin/ProcessWithdrawal", sigDoc := (ids.map le64).flatten ++ rc.sha256 tx ++ le64 fee } with
  | ok p => exact (C01_accept_sound rc chainId rel _ p.1 p.2 hvp).1
  | err e => exfalso; unfold Bitcoin.processWithdrawal at h; simp only [hvp] at h; repeat (split at h <;> try cases h)
  | panic e => exfalso; unfold Bitcoin.processWithdrawal at h; simp only [hvp] at h; repeat (split at h <;> try cases h)

theorem replaceWithdrawal_needs_quorum (c : Bitcoin.Crypto) (rc : Crypto) (chainId : String) (rel : State) (s : Bitcoin.State)
    (vote : VoteMsg) (hv : Bool) (pid : Nat) (tx : Bytes) (fee : Nat) (r : State × Bitcoin.State)
    (h : Bitcoin.replaceWithdrawal c rc chainId rel s vote hv pid tx fee = .ok r) :
    Quorum rc chainId rel { vote with method := "Bitcoin/ReplaceWithdrawal", sigDoc := le64 pid ++ le64 fee ++ rc.sha256 tx } := by
  cases hvp : verifyProposal rc chainId rel { vote with method := "Bitcoin/ReplaceWithdrawal", sigDoc := le64 pid ++ le64 fee ++ rc.sha256 tx } with
  | ok p => exact (C01_accept_sound rc chainId rel _ p.1 p.2 hvp).1
  | err e => exfalso; unfold Bitcoin.replaceWithdrawal at h; simp only [hvp] at h; repeat (split at h <;> try cases h)
  | panic e => exfalso; unfold Bitcoin.replaceWithdrawal at h; simp only [hvp] at h; repeat (split at h <;> try cases h)

theorem newConsolidation_needs_quorum (c : Bitcoin.Crypto) (rc : Crypto) (chainId : String) (rel : State) (s : Bitcoin.State)
    (vote : VoteMsg) (hv : Bool) (tx : Bytes) (r : State × Bitcoin.State)
    (h : Bitcoin.newConsolidation c rc chainId rel s vote hv tx = .ok r) :
    Quorum rc chainId rel { vote with method := "Bitcoin/NewConsolidation", sigDoc := rc.sha256 tx } := by
  cases hvp : verifyProposal rc chainId rel { vote with method := "Bitcoin/NewConsolidation", sigDoc := rc.sha256 tx } with
  | ok p => exact (C01_accept_sound rc chainId rel _ p.1 p.2 hvp).1
  | err e => exfalso; unfold Bitcoin.newConsolidation at h; simp only [hvp] at h; repeat (split at h <;> try cases h)
  | panic e => exfalso; unfold Bitcoin.newConsolidation at h; simp only [hvp] at h; repeat (split at h <;> try cases h)

/-! ### the unrepaired function (pinned commit) — finding F1 -/

/-- with 3 voters, marks {100, 101} (beyond the list) and only the proposer's key verifying, the
    unchecked function accepts although no marked position denotes a voter -/
theorem F1_unchecked_accepts_marks_beyond_voters :
    ∃ (c : Crypto) (s : State) (m : VoteMsg) (r : State × Nat),
      verifyProposalUnchecked c "x" s m = .ok r ∧ ¬ (∀ i, bitmapContains m.bitmap i = true → i < s.voters.length) := by
  let c : Crypto := { sha256 := id, hash160 := id, aggVerify := fun ks _ _ => ks.length == 1, blsVerify := fun _ _ _ => false,
                      ecdsaVerify := fun _ _ _ => false, addrOf := fun _ => "" }
  let pv : Voter := { address := [], voteKey := [1], status := .activated, height := 0 }
  let s : State := { params := { electingPeriod := 0, acceptProposerTimeout := 0 }, proposer := "p", voters := ["a", "b", "c"], epoch := 0,
                     lastElected := 0, accepted := true, seq := 0, randao := [], recs := [("p", pv)], onBoarding := [], offBoarding := [], pubkeys := [] }
  let m : VoteMsg := { proposer := "p", method := "", sigDoc := [], seq := 0, epoch := 0,
                       bitmap := [0,0,0,0,0,0,0,0, 0,0,0,0, 0x30,0,0,0], signature := [] }
  refine ⟨c, s, m, (s, 0), by decide, ?_⟩
  intro h
  have := h 100 (by decide)
  simp [s] at this

/-! ### non-vacuity: a state and message that satisfy `Quorum` and are accepted -/
example : ∃ (c : Crypto) (s : State) (m : VoteMsg) (r : State × Nat), verifyProposal c "x" s m = .ok r := by
  let c : Crypto := { sha256 := id, hash160 := id, aggVerify := fun ks _ _ => ks.length == 3, blsVerify := fun _ _ _ => false,
                      ecdsaVerify := fun _ _ _ => false, addrOf := fun _ => "" }
  let mk (k : UInt8) : Voter := { address := [], voteKey := [k], status := .activated, height := 0 }
  let s : State := { params := { electingPeriod := 0, acceptProposerTimeout := 0 }, proposer := "p", voters := ["a", "b", "c"], epoch := 0,
                     lastElected := 0, accepted := false, seq := 7, randao := [], recs := [("p", mk 1), ("a", mk 2), ("b", mk 3), ("c", mk 4)],
                     onBoarding := [], offBoarding := [], pubkeys := [] }
  let m : VoteMsg := { proposer := "p", method := "", sigDoc := [], seq := 7, epoch := 0, bitmap := [5,0,0,0,0,0,0,0], signature := [] }
  exact ⟨c, s, m, ({ s with accepted := true }, 7), by decide⟩

end Goat.C01
