/-
  C05H — the withdrawal life cycle over whole histories (completes C05).
  * `replace_terms`            : a fee bump is quorum-voted, strictly higher, within the users' current terms
  * `*_step`, `*_respects`     : every entry point that can write `withdrawals` respects the status edges
  * `*_notices`                : exactly which 'paid' / 'refund' notices each entry point appends
  * `history_inv`, `history_respects`, `notified_at_most_once` : over arbitrary operation lists
-/
import GoatModel.Bitcoin
import GoatProofs.Lemmas.Bitcoin
import GoatProofs.Lemmas.BitcoinH
import GoatProofs.C01
import GoatProofs.C05
namespace Goat.C05H
open Goat.Bitcoin Goat.C05

/-! ## notices -/

/-- ids for which a 'paid' notice is queued for the execution layer -/
def paidNotices (s : State) : List Nat := s.queue.paid.map (·.1)
/-- ids for which a 'refund' notice is queued for the execution layer -/
def refundNotices (s : State) : List Nat := s.queue.rejected

/-- a step with its summary: edge-respecting, `P` newly paid, `R` newly cancelled, and exactly these
    notices appended to the queues -/
def Step (s s' : State) (P R : List Nat) : Prop :=
  Trans s s' P R ∧ paidNotices s' = paidNotices s ++ P ∧ refundNotices s' = refundNotices s ++ R

theorem Step.respects {s s' : State} {P R : List Nat} (h : Step s s' P R) : Respects s s' := h.1.1

/-- everything but the withdrawal table is untouched -/
def OnlyWithdrawals (a b : State) : Prop := b = { a with withdrawals := b.withdrawals }

theorem OnlyWithdrawals.refl (a : State) : OnlyWithdrawals a a := rfl
theorem OnlyWithdrawals.step {a b : State} {ws : List (Nat × Withdrawal)}
    (h : OnlyWithdrawals { a with withdrawals := ws } b) : OnlyWithdrawals a b := by
  unfold OnlyWithdrawals at *; rw [h]
theorem OnlyWithdrawals.queue {a b : State} (h : OnlyWithdrawals a b) : b.queue = a.queue := by
  unfold OnlyWithdrawals at h; rw [h]
theorem OnlyWithdrawals.processing {a b : State} (h : OnlyWithdrawals a b) : b.processing = a.processing := by
  unfold OnlyWithdrawals at h; rw [h]
theorem OnlyWithdrawals.pubkey {a b : State} (h : OnlyWithdrawals a b) : b.pubkey = a.pubkey := by
  unfold OnlyWithdrawals at h; rw [h]

/-- values of the outputs `idx, idx+1, …, idx+n-1` -/
def outVals (outs : List BtcTx.TxOut) : Nat → Nat → List Nat
  | _, 0 => []
  | idx, n + 1 => (outs[idx]!).value :: outVals outs (idx + 1) n

/-- two withdrawals with the same user terms (address, amount, maximal price) -/
def SameTerms (w w' : Withdrawal) : Prop :=
  w'.address = w.address ∧ w'.requestAmount = w.requestAmount ∧ w'.maxTxPrice = w.maxTxPrice

theorem Terms_congr (c : Crypto) {w w' : Withdrawal} (h : SameTerms w w') (fee len : Nat) (out : BtcTx.TxOut) :
    Terms c w' fee len out ↔ Terms c w fee len out := by
  unfold Terms; rw [h.1, h.2.1, h.2.2]

/-! ## 1. ReplaceWithdrawal -/

/-- the fee-bump loop: every listed withdrawal is `processing`, its (current) terms are met by the
    matching output of the new transaction, only receipts are rewritten, and the values collected
    are the output values in order -/
theorem replace_go_spec (c : Crypto) (tx : Bytes) (fee : Nat) (outs : List BtcTx.TxOut) (txid : Bytes) :
    ∀ (l : List Nat) (idx : Nat) (a : State) (vals : List Nat) (b : State) (vals' : List Nat),
      replaceWithdrawal.go c tx fee outs txid l idx a vals = .ok (b, vals') →
      OnlyWithdrawals a b ∧
      (∀ id, (nlookup a.withdrawals id = none → nlookup b.withdrawals id = none) ∧
        ∀ w, nlookup a.withdrawals id = some w → ∃ w', nlookup b.withdrawals id = some w' ∧ SameTerms w w' ∧ w'.status = w.status) ∧
      (∀ k, (hk : k < l.length) → ∃ w, nlookup a.withdrawals l[k] = some w ∧ w.status = .processing ∧
          Terms c w fee tx.length (outs[idx + k]!)) ∧
      vals' = vals.reverse ++ outVals outs idx l.length := by
  intro l
  induction l with
  | nil =>
    intro idx a vals b vals' h
    simp only [replaceWithdrawal.go, Outcome.ok.injEq, Prod.mk.injEq] at h
    obtain ⟨rfl, rfl⟩ := h
    refine ⟨OnlyWithdrawals.refl _, fun id => ⟨fun h => h, fun w hw => ⟨w, hw, ⟨rfl, rfl, rfl⟩, rfl⟩⟩, fun k hk => absurd hk (by simp), by simp [outVals]⟩
  | cons wid rest ih =>
    intro idx a vals b vals' h
    simp only [replaceWithdrawal.go] at h
    cases hw : nlookup a.withdrawals wid with
    | none => simp [hw] at h
    | some w =>
      simp only [hw] at h
      cases hr : w.receipt with
      | none => simp [hr] at h
      | some r =>
        simp only [hr] at h
        by_cases hst : w.status ≠ .processing
        · simp [hst] at h
        · rw [if_neg hst] at h
          have hst' : w.status = .processing := by simpa using hst
          split at h
          · cases h
          · cases h
          · rename_i hc
            have hterms := (checkOutput_terms c w fee tx.length (outs[idx]!)).mp hc
            obtain ⟨f1, f2, f3, f4⟩ := ih (idx + 1) _ _ b vals' h
            -- lookups in the intermediate table
            have hmid : ∀ id, nlookup (ninsert a.withdrawals wid { w with receipt := some { r with txid := txid, amount := (outs[idx]!).value } }) id =
                if wid = id then some { w with receipt := some { r with txid := txid, amount := (outs[idx]!).value } } else nlookup a.withdrawals id :=
              fun id => nlookup_ninsert _ _ _ _
            refine ⟨f1.step, ?_, ?_, ?_⟩
            · intro id
              have g := f2 id
              simp only [hmid id] at g
              by_cases hid : wid = id
              · subst hid
                simp only [if_true] at g
                refine ⟨fun hn => (by rw [hw] at hn; cases hn), ?_⟩
                intro w0 hw0
                rw [hw] at hw0
                cases hw0
                obtain ⟨w', e1, e2, e3⟩ := g.2 _ rfl
                exact ⟨w', e1, e2, e3⟩
              · simp only [hid, if_false] at g
                exact g
            · intro k hk
              cases k with
              | zero => exact ⟨w, by simpa using hw, hst', by simpa using hterms⟩
              | succ k' =>
                have hk' : k' < rest.length := by simp at hk; omega
                obtain ⟨w2, l2, s2, t2⟩ := f3 k' hk'
                have e : idx + 1 + k' = idx + (k' + 1) := by omega
                rw [e] at t2
                simp only [hmid] at l2
                simp only [List.getElem_cons_succ]
                by_cases hid : wid = rest[k']
                · rw [if_pos hid] at l2
                  cases l2
                  refine ⟨w, by rw [← hid]; exact hw, hst', ?_⟩
                  exact (Terms_congr c (w := w) ⟨rfl, rfl, rfl⟩ fee tx.length _).mp t2
                · rw [if_neg hid] at l2
                  exact ⟨w2, l2, s2, t2⟩
            · rw [f4]
              simp [outVals]

/-- the fee bump leaves every status as it is -/
theorem replace_go_status (c : Crypto) (tx : Bytes) (fee : Nat) (outs : List BtcTx.TxOut) (txid : Bytes)
    (l : List Nat) (idx : Nat) (a : State) (vals : List Nat) (b : State) (vals' : List Nat)
    (h : replaceWithdrawal.go c tx fee outs txid l idx a vals = .ok (b, vals')) (id : Nat) :
    statusOf b id = statusOf a id := by
  obtain ⟨_, f2, _, _⟩ := replace_go_spec c tx fee outs txid l idx a vals b vals' h
  unfold statusOf
  cases hl : nlookup a.withdrawals id with
  | none => rw [(f2 id).1 hl]
  | some w =>
    obtain ⟨w', e1, _, e3⟩ := (f2 id).2 w hl
    rw [e1]; simp [e3]

/-- **A fee bump is a quorum-voted, strictly higher-fee, new transaction within every user's current
    terms.**  On success: a genuine quorum over exactly (pid, fee, tx hash); the processing record
    exists, its recorded fee is strictly lower, the transaction id is not yet among its candidates;
    the transaction has one output per withdrawal of the record plus at most one extra output which
    pays the current relayer key; each withdrawal of the record is `processing` and its matching
    output pays exactly its address script, at most its requested amount, at a fee rate within its
    *current* maximum; the record gains exactly this candidate (id and output values); and no
    withdrawal changes status. -/
theorem replace_terms (c : Crypto) (rc : Relayer.Crypto) (chainId : String) (rel : Relayer.State) (s : State)
    (vote : Relayer.VoteMsg) (hv : Bool) (pid : Nat) (tx : Bytes) (fee : Nat) (r : Relayer.State × State)
    (h : replaceWithdrawal c rc chainId rel s vote hv pid tx fee = .ok r) :
    C01.Quorum rc chainId rel { vote with method := "Bitcoin/ReplaceWithdrawal", sigDoc := le64 pid ++ le64 fee ++ rc.sha256 tx } ∧
    ∃ outs p, BtcTx.parseNoWitness tx = some outs ∧ nlookup s.processing pid = some p ∧
      p.fee < fee ∧ c.dsha256 tx ∉ p.txids ∧
      (outs.length = p.withdrawals.length ∨ outs.length = p.withdrawals.length + 1) ∧
      (∀ k, (hk : k < p.withdrawals.length) → ∃ w, nlookup s.withdrawals p.withdrawals[k] = some w ∧
          w.status = .processing ∧ Terms c w fee tx.length (outs[k]!)) ∧
      (outs.length = p.withdrawals.length + 1 → verifySystemAddressScript c s.pubkey (outs[p.withdrawals.length]!).pkScript = true) ∧
      r.2.processing = ninsert s.processing pid
        { p with fee := fee, txids := p.txids ++ [c.dsha256 tx], outputs := p.outputs ++ [outVals outs 0 p.withdrawals.length] } ∧
      (∀ id, statusOf r.2 id = statusOf s id) ∧
      (∀ id w, nlookup s.withdrawals id = some w → ∃ w', nlookup r.2.withdrawals id = some w' ∧ SameTerms w w' ∧ w'.status = w.status) ∧
      r.2.queue = s.queue := by
  refine ⟨C01.replaceWithdrawal_needs_quorum c rc chainId rel s vote hv pid tx fee r h, ?_⟩
  unfold replaceWithdrawal at h
  split at h; · cases h
  split at h; · cases h
  split at h; · cases h
  split at h
  · cases h
  rename_i outs hparse
  dsimp only at h
  split at h
  · cases h
  rename_i p hp
  split at h; · cases h
  rename_i hfee
  split at h; · cases h
  rename_i hnew
  split at h; · cases h
  rename_i hlen
  split at h
  · cases h
  · cases h
  rename_i rel' seq hvp
  split at h
  · cases h
  · cases h
  rename_i s1 vals hgo
  split at h; · cases h
  rename_i hch
  cases h
  obtain ⟨g1, g2, g3, g4⟩ := replace_go_spec c tx fee outs (c.dsha256 tx) p.withdrawals 0 s [] s1 vals hgo
  refine ⟨outs, p, hparse, hp, by omega, by simpa using hnew, by omega, ?_, ?_, ?_, ?_, ?_, ?_⟩
  · intro k hk
    obtain ⟨w, e1, e2, e3⟩ := g3 k hk
    rw [Nat.zero_add] at e3
    exact ⟨w, e1, e2, e3⟩
  · intro hl
    unfold changeOk at hch
    have : ¬ outs.length = p.withdrawals.length := by omega
    simp only [this, if_false, Bool.not_eq_true] at hch
    rw [g1.pubkey] at hch
    cases hb : verifySystemAddressScript c s.pubkey (outs[p.withdrawals.length]!).pkScript
    · rw [hb] at hch; simp at hch
    · rfl
  · simp only [g1.processing, g4, List.reverse_nil, List.nil_append]
  · intro id
    have := replace_go_status c tx fee outs (c.dsha256 tx) p.withdrawals 0 s [] s1 vals hgo id
    rw [← this]; rfl
  · intro id w hw
    exact (g2 id).2 w hw
  · exact g1.queue

/-! ## 2./3. step and notification lemmas, one per entry point -/

/-! ### ProcessWithdrawal -/

/-- the processing loop, linked to the table it started from: the k-th id is looked up in the
    *initial* table (ids are necessarily distinct), was pending or cancel-requested, and its terms
    are met by output `idx+k`; nothing becomes terminal; only `withdrawals` is written -/
theorem process_go_full (c : Crypto) (tx : Bytes) (fee : Nat) (outs : List BtcTx.TxOut) (txid : Bytes) :
    ∀ (l : List Nat) (idx : Nat) (a : State) (vals : List Nat) (b : State) (vals' : List Nat),
      processWithdrawal.go c tx fee outs txid l idx a vals = .ok (b, vals') →
      OnlyWithdrawals a b ∧ Trans a b [] [] ∧
      (∀ k, (hk : k < l.length) → ∃ w, nlookup a.withdrawals l[k] = some w ∧
          (w.status = .pending ∨ w.status = .canceling) ∧ Terms c w fee tx.length (outs[idx + k]!)) ∧
      vals' = vals.reverse ++ outVals outs idx l.length := by
  intro l
  induction l with
  | nil =>
    intro idx a vals b vals' h
    simp only [processWithdrawal.go, Outcome.ok.injEq, Prod.mk.injEq] at h
    obtain ⟨rfl, rfl⟩ := h
    exact ⟨OnlyWithdrawals.refl _, Trans.refl _, fun k hk => absurd hk (by simp), by simp [outVals]⟩
  | cons wid rest ih =>
    intro idx a vals b vals' h
    simp only [processWithdrawal.go] at h
    cases hw : nlookup a.withdrawals wid with
    | none => simp [hw] at h
    | some w =>
      simp only [hw] at h
      by_cases hst : w.status ≠ .pending ∧ w.status ≠ .canceling
      · simp [hst] at h
      · rw [if_neg hst] at h
        have hstat : w.status = .pending ∨ w.status = .canceling := by
          by_cases hp : w.status = .pending
          · exact Or.inl hp
          · right
            by_cases hq : w.status = .canceling
            · exact hq
            · exact absurd ⟨hp, hq⟩ hst
        split at h
        · cases h
        · cases h
        · rename_i hc
          have hterms := (checkOutput_terms c w fee tx.length (outs[idx]!)).mp hc
          obtain ⟨f1, f2, f3, f4⟩ := ih (idx + 1) _ _ b vals' h
          refine ⟨f1.step, ?_, ?_, ?_⟩
          · refine Trans.comp_nil (trans_update_same a _ wid w _ hw rfl (edge_to_processing hstat) (Or.inr ⟨by simp, by simp⟩)) f2
          · intro k hk
            cases k with
            | zero => exact ⟨w, by simpa using hw, hstat, by simpa using hterms⟩
            | succ k' =>
              have hk' : k' < rest.length := by simp at hk; omega
              obtain ⟨w2, l2, s2, t2⟩ := f3 k' hk'
              have e : idx + 1 + k' = idx + (k' + 1) := by omega
              rw [e] at t2
              simp only [nlookup_ninsert] at l2
              simp only [List.getElem_cons_succ]
              by_cases hid : wid = rest[k']
              · rw [if_pos hid] at l2
                cases l2
                rcases s2 with s2 | s2 <;> cases s2
              · rw [if_neg hid] at l2
                exact ⟨w2, l2, s2, t2⟩
          · rw [f4]
            simp [outVals]

/-- **ProcessWithdrawal step**: respects the edges, no notice is appended, nothing becomes terminal.
    Linked form of `process_terms`: the k-th listed id is a pending or cancel-requested withdrawal of
    the state and output k meets *its* terms; the new processing record holds the transaction id and
    the output values. -/
theorem process_step (c : Crypto) (rc : Relayer.Crypto) (chainId : String) (rel : Relayer.State) (s : State)
    (vote : Relayer.VoteMsg) (hv : Bool) (ids : List Nat) (tx : Bytes) (fee : Nat) (r : Relayer.State × State)
    (h : processWithdrawal c rc chainId rel s vote hv ids tx fee = .ok r) :
    Step s r.2 [] [] ∧ r.2.queue = s.queue ∧
    ∃ outs, BtcTx.parseNoWitness tx = some outs ∧
      (∀ k, (hk : k < ids.length) → ∃ w, nlookup s.withdrawals ids[k] = some w ∧
          (w.status = .pending ∨ w.status = .canceling) ∧ Terms c w fee tx.length (outs[k]!)) ∧
      r.2.processing = ninsert s.processing s.processId
        { txids := [c.dsha256 tx], outputs := [outVals outs 0 ids.length], withdrawals := ids, fee := fee } := by
  unfold processWithdrawal at h
  split at h; · cases h
  split at h; · cases h
  split at h; · cases h
  split at h; · cases h
  split at h
  · cases h
  rename_i outs hparse
  split at h; · cases h
  dsimp only at h
  split at h
  · cases h
  · cases h
  rename_i rel' seq hvp
  split at h
  · cases h
  · cases h
  rename_i s1 vals hgo
  split at h; · cases h
  cases h
  obtain ⟨g1, g2, g3, g4⟩ := process_go_full c tx fee outs (c.dsha256 tx) ids 0 s [] s1 vals hgo
  have hq : s1.queue = s.queue := g1.queue
  refine ⟨⟨g2.congr rfl rfl, ?_, ?_⟩, hq, outs, hparse, ?_, ?_⟩
  · simp [paidNotices, hq]
  · simp [refundNotices, hq]
  · intro k hk
    obtain ⟨w, e1, e2, e3⟩ := g3 k hk
    rw [Nat.zero_add] at e3
    exact ⟨w, e1, e2, e3⟩
  · have hpid : s1.processId = s.processId := by
      have := g1; unfold OnlyWithdrawals at this; rw [this]
    simp only [g1.processing, hpid, g4, List.reverse_nil, List.nil_append]

theorem process_respects (c : Crypto) (rc : Relayer.Crypto) (chainId : String) (rel : Relayer.State) (s : State)
    (vote : Relayer.VoteMsg) (hv : Bool) (ids : List Nat) (tx : Bytes) (fee : Nat) (r : Relayer.State × State)
    (h : processWithdrawal c rc chainId rel s vote hv ids tx fee = .ok r) : Respects s r.2 :=
  (process_step c rc chainId rel s vote hv ids tx fee r h).1.respects

/-! ### ReplaceWithdrawal -/

theorem Trans.of_status_eq {a b : State} (h : ∀ id, statusOf b id = statusOf a id) : Trans a b [] [] := by
  refine ⟨fun id st hs => ⟨st, by rw [h id]; exact hs, Or.inl rfl⟩, List.nodup_nil, List.nodup_nil, ?_, ?_, ?_, ?_⟩
  · intro id hh; cases hh
  · intro id hh; cases hh
  · intro id hh; cases hh
  · intro id _ _; rw [h id]; exact ⟨fun x => x, fun x => x⟩

/-- **ReplaceWithdrawal step**: identity on statuses, no notice appended -/
theorem replace_step (c : Crypto) (rc : Relayer.Crypto) (chainId : String) (rel : Relayer.State) (s : State)
    (vote : Relayer.VoteMsg) (hv : Bool) (pid : Nat) (tx : Bytes) (fee : Nat) (r : Relayer.State × State)
    (h : replaceWithdrawal c rc chainId rel s vote hv pid tx fee = .ok r) : Step s r.2 [] [] := by
  obtain ⟨_, outs, p, _, _, _, _, _, _, _, _, hst, _, hq⟩ := replace_terms c rc chainId rel s vote hv pid tx fee r h
  exact ⟨Trans.of_status_eq hst, by simp [paidNotices, hq], by simp [refundNotices, hq]⟩

theorem replace_respects (c : Crypto) (rc : Relayer.Crypto) (chainId : String) (rel : Relayer.State) (s : State)
    (vote : Relayer.VoteMsg) (hv : Bool) (pid : Nat) (tx : Bytes) (fee : Nat) (r : Relayer.State × State)
    (h : replaceWithdrawal c rc chainId rel s vote hv pid tx fee = .ok r) : Respects s r.2 :=
  (replace_step c rc chainId rel s vote hv pid tx fee r h).respects

/-! ### FinalizeWithdrawal -/

/-- only the withdrawal table and the queue of paid notices are written -/
def OnlyWP (a b : State) : Prop :=
  b = { a with withdrawals := b.withdrawals, queue := { a.queue with paid := b.queue.paid } }

/-- the finalisation loop: every listed withdrawal goes processing → paid and gets, in the same
    iteration, one paid notice carrying the proven transaction id and the recorded output value -/
theorem finalize_go_spec (m : FinalizeMsg) (vals : List Nat) :
    ∀ (l : List Nat) (i : Nat) (a b : State), finalizeWithdrawal.go m vals l i a = .ok b →
      OnlyWP a b ∧ Trans a b l [] ∧
      ∃ extra : List (Nat × Receipt), b.queue.paid = a.queue.paid ++ extra ∧ extra.map (·.1) = l ∧
        ∀ k, (hk : k < extra.length) → (extra[k]).2.txid = m.txid ∧ (extra[k]).2.amount = vals[i + k]! := by
  intro l
  induction l with
  | nil =>
    intro i a b h
    simp only [finalizeWithdrawal.go, Outcome.ok.injEq] at h
    subst h
    exact ⟨rfl, Trans.refl _, [], by simp, rfl, fun k hk => absurd hk (by simp)⟩
  | cons wid rest ih =>
    intro i a b h
    simp only [finalizeWithdrawal.go] at h
    cases hw : nlookup a.withdrawals wid with
    | none => simp [hw] at h
    | some w =>
      simp only [hw] at h
      by_cases hst : w.status ≠ .processing
      · simp [hst] at h
      · rw [if_neg hst] at h
        have hst' : w.status = .processing := by simpa using hst
        cases hr : w.receipt with
        | none => simp [hr] at h
        | some r =>
          simp only [hr] at h
          obtain ⟨f1, f2, extra, f3, f4, f5⟩ := ih (i + 1) _ b h
          refine ⟨?_, ?_, (wid, { r with txid := m.txid, amount := vals[i]! }) :: extra, ?_, ?_, ?_⟩
          · unfold OnlyWP at *; rw [f1]
          · have t1 := trans_update_paid a _ wid w { w with status := .paid, receipt := some { r with txid := m.txid, amount := vals[i]! } } hw
              (rfl : ({ a with withdrawals := ninsert a.withdrawals wid _, queue := { a.queue with paid := a.queue.paid ++ [(wid, { r with txid := m.txid, amount := vals[i]! })] } } : State).withdrawals = _)
              (by rw [hst']; exact edge_processing_paid) rfl (by rw [hst']; simp)
            simpa using t1.comp f2
          · rw [f3]; simp
          · simp [f4]
          · intro k hk
            cases k with
            | zero => simp
            | succ k' =>
              have := f5 k' (by simp at hk; omega)
              have e : i + 1 + k' = i + (k' + 1) := by omega
              rw [e] at this
              simpa using this

/-- **FinalizeWithdrawal step and notices**: the processing record `p` exists; exactly the
    withdrawals of `p` become paid (they were all `processing`), each gets exactly one paid notice
    appended in this step, in order, carrying the proven transaction id and the output value recorded
    for that candidate; no refund notice is appended. -/
theorem finalize_step (c : Crypto) (rel : Relayer.State) (s : State) (m : FinalizeMsg) (r : Relayer.State × State)
    (h : finalizeWithdrawal c rel s m = .ok r) :
    ∃ p idx, nlookup s.processing m.pid = some p ∧ p.txids.findIdx? (· == m.txid) = some idx ∧
      Step s r.2 p.withdrawals [] ∧
      ∃ extra : List (Nat × Receipt), r.2.queue.paid = s.queue.paid ++ extra ∧ extra.map (·.1) = p.withdrawals ∧
        (∀ k, (hk : k < extra.length) → (extra[k]).2.txid = m.txid ∧ (extra[k]).2.amount = (p.outputs[idx]!)[k]!) ∧
        r.2.queue.rejected = s.queue.rejected := by
  unfold finalizeWithdrawal at h
  split at h; · cases h
  split at h; · cases h
  split at h; · cases h
  split at h
  · cases h
  · cases h
  split at h
  · cases h
  rename_i p hp
  split at h; · cases h
  split at h
  · cases h
  rename_i idx hidx
  simp only at h
  split at h; · cases h
  split at h
  · cases h
  split at h; · cases h
  split at h; · cases h
  split at h
  · cases h
  · cases h
  rename_i s1 hgo
  cases h
  obtain ⟨g1, g2, extra, g3, g4, g5⟩ := finalize_go_spec m _ _ _ _ _ hgo
  have hrej : s1.queue.rejected = s.queue.rejected := by
    unfold OnlyWP at g1; rw [g1]
  refine ⟨p, idx, hp, hidx, ⟨g2.congr rfl rfl, ?_, ?_⟩, extra, g3, g4, ?_, hrej⟩
  · show List.map (·.1) s1.queue.paid = List.map (·.1) s.queue.paid ++ p.withdrawals
    rw [g3, List.map_append, g4]
  · simpa [refundNotices] using hrej
  · intro k hk
    have := g5 k hk
    rw [Nat.zero_add] at this
    exact this

theorem finalize_respects (c : Crypto) (rel : Relayer.State) (s : State) (m : FinalizeMsg) (r : Relayer.State × State)
    (h : finalizeWithdrawal c rel s m = .ok r) : Respects s r.2 := by
  obtain ⟨_, _, _, _, hs, _⟩ := finalize_step c rel s m r h
  exact hs.respects

/-! ### ApproveCancellation -/

theorem approve_go_spec : ∀ (l : List Nat) (a b : State), approveCancellation.go l a = .ok b →
    OnlyWithdrawals a b ∧ Trans a b [] l := by
  intro l
  induction l with
  | nil => intro a b h; simp only [approveCancellation.go, Outcome.ok.injEq] at h; subst h; exact ⟨rfl, Trans.refl _⟩
  | cons wid rest ih =>
    intro a b h
    simp only [approveCancellation.go] at h
    cases hw : nlookup a.withdrawals wid with
    | none => simp [hw] at h
    | some w =>
      simp only [hw] at h
      split at h
      · cases h
      · rename_i hst
        have hst' : w.status = .canceling := by simpa using hst
        obtain ⟨f1, f2⟩ := ih _ b h
        refine ⟨f1.step, ?_⟩
        have t1 := trans_update_canceled a _ wid w { w with status := .canceled } hw
          (rfl : ({ a with withdrawals := ninsert a.withdrawals wid _ } : State).withdrawals = _)
          (by rw [hst']; exact edge_canceling_canceled) rfl (by rw [hst']; simp)
        simpa using t1.comp f2

/-- **ApproveCancellation step and notices**: exactly the listed ids become cancelled (they were all
    cancel-requested, hence pairwise distinct), each gets exactly one refund notice appended in this
    step; no paid notice is appended. -/
theorem approve_step (rel : Relayer.State) (s : State) (proposer : String) (ids : List Nat) (r : Relayer.State × State)
    (h : approveCancellation rel s proposer ids = .ok r) : Step s r.2 [] ids := by
  unfold approveCancellation at h
  split at h; · cases h
  split at h
  · cases h
  · cases h
  split at h
  · cases h
  · cases h
  rename_i s1 hgo
  cases h
  obtain ⟨g1, g2⟩ := approve_go_spec _ _ _ hgo
  refine ⟨g2.congr rfl rfl, ?_, ?_⟩
  · simp [paidNotices, g1.queue]
  · simp [refundNotices, g1.queue]

theorem approve_respects (rel : Relayer.State) (s : State) (proposer : String) (ids : List Nat) (r : Relayer.State × State)
    (h : approveCancellation rel s proposer ids = .ok r) : Respects s r.2 :=
  (approve_step rel s proposer ids r h).respects

/-! ### ProcessBridgeRequest (execution-layer requests: creation, fee update, cancel request) -/

/-- one creation step of `processBridgeRequest` (the body of its fold) -/
def createStep (c : Crypto) (acc : List (Nat × Withdrawal) × List Nat) (v : WithdrawReq) : List (Nat × Withdrawal) × List Nat :=
  let valid := (c.decodeAddr v.address).isSome
  let w : Withdrawal := { address := v.address, requestAmount := v.amount, maxTxPrice := v.txPrice,
                          status := if valid then .pending else .canceled, receipt := none }
  (ninsert acc.1 v.id w, if valid then acc.2 else acc.2 ++ [v.id])

/-- the record written for a creation request -/
def createdRecord (c : Crypto) (v : WithdrawReq) : Withdrawal :=
  { address := v.address, requestAmount := v.amount, maxTxPrice := v.txPrice,
    status := if (c.decodeAddr v.address).isSome then .pending else .canceled, receipt := none }

/-- ids of the creation requests whose address does not decode (refunded at creation) -/
def badIds (c : Crypto) (ws : List WithdrawReq) : List Nat :=
  (ws.filter (fun v => !(c.decodeAddr v.address).isSome)).map (·.id)

/-- `processBridgeRequest`, with the fold named -/
theorem badIds_cons_valid (c : Crypto) (v : WithdrawReq) (rest : List WithdrawReq)
    (h : (c.decodeAddr v.address).isSome = true) : badIds c (v :: rest) = badIds c rest := by
  unfold badIds; rw [List.filter_cons]; simp only [h, Bool.not_true, Bool.false_eq_true, if_false]

theorem badIds_cons_invalid (c : Crypto) (v : WithdrawReq) (rest : List WithdrawReq)
    (h : (c.decodeAddr v.address).isSome = false) : badIds c (v :: rest) = v.id :: badIds c rest := by
  unfold badIds; rw [List.filter_cons]; simp only [h, Bool.not_false, if_true, List.map_cons]

theorem bridge_unfold (c : Crypto) (s : State) (r : BridgeReqs) :
    processBridgeRequest c s r =
      if r.count = 0 then .ok s
      else
        let res := r.withdraws.foldl (createStep c) (s.withdrawals, [])
        let s1 := { s with withdrawals := res.1, queue := { s.queue with rejected := s.queue.rejected ++ res.2 } }
        match processBridgeRequest.goRbf r.rbf s1 with
        | .err e => .err e
        | .panic e => .panic e
        | .ok s2 =>
          match processBridgeRequest.goCancel r.cancel1 s2 with
          | .err e => .err e
          | .panic e => .panic e
          | .ok s3 => .ok { s3 with params := applyParamReqs s3.params r } := by
  unfold processBridgeRequest
  rfl

/-- **environment hypothesis of C05**: the execution layer hands out fresh withdrawal ids — the ids
    of the creation requests are unknown to the bridge and pairwise distinct within one request list -/
def Fresh (s : State) (r : BridgeReqs) : Prop :=
  (∀ v ∈ r.withdraws, nlookup s.withdrawals v.id = none) ∧ (r.withdraws.map (·.id)).Nodup

/-- the creation fold under the fresh-id hypothesis -/
theorem create_fold_spec (c : Crypto) (s0 : State) :
    ∀ (ws : List WithdrawReq) (acc : List (Nat × Withdrawal) × List Nat),
      (∀ v ∈ ws, nlookup acc.1 v.id = none) → (ws.map (·.id)).Nodup →
      Trans { s0 with withdrawals := acc.1 } { s0 with withdrawals := (ws.foldl (createStep c) acc).1 } [] (badIds c ws) ∧
      (ws.foldl (createStep c) acc).2 = acc.2 ++ badIds c ws ∧
      (∀ v ∈ ws, nlookup (ws.foldl (createStep c) acc).1 v.id = some (createdRecord c v)) ∧
      (∀ id, (∀ v ∈ ws, v.id ≠ id) → nlookup (ws.foldl (createStep c) acc).1 id = nlookup acc.1 id) := by
  intro ws
  induction ws with
  | nil =>
    intro acc _ _
    exact ⟨Trans.refl _, by simp [badIds], fun v hv => (by cases hv), fun id _ => rfl⟩
  | cons v rest ih =>
    intro acc hfresh hnd
    rw [List.foldl_cons]
    simp only [List.map_cons, List.nodup_cons, List.mem_map, not_exists, not_and] at hnd
    obtain ⟨hv, hnd'⟩ := hnd
    have hne : ∀ u ∈ rest, v.id ≠ u.id := fun u hu e => hv u hu e.symm
    have hfresh' : ∀ u ∈ rest, nlookup (createStep c acc v).1 u.id = none := by
      intro u hu
      show nlookup (ninsert acc.1 v.id _) u.id = none
      rw [nlookup_ninsert_other _ _ _ _ (hne u hu)]
      exact hfresh u (List.mem_cons_of_mem _ hu)
    obtain ⟨f1, f2, f3, f4⟩ := ih (createStep c acc v) hfresh' hnd'
    have hvfresh : nlookup acc.1 v.id = none := hfresh v (List.mem_cons_self ..)
    have hv4 : nlookup (rest.foldl (createStep c) (createStep c acc v)).1 v.id = some (createdRecord c v) := by
      rw [f4 v.id (fun u hu e => hne u hu e.symm)]
      show nlookup (ninsert acc.1 v.id _) v.id = _
      rw [nlookup_ninsert_same]; rfl
    refine ⟨?_, ?_, ?_, ?_⟩
    · cases hval : (c.decodeAddr v.address).isSome with
      | true =>
        have hb := badIds_cons_valid c v rest hval
        rw [hb]
        refine Trans.comp_nil (trans_create_pending _ _ v.id (createdRecord c v) hvfresh rfl ?_) f1
        simp [createdRecord, hval]
      | false =>
        have hb := badIds_cons_invalid c v rest hval
        rw [hb]
        have t := (trans_create_canceled { s0 with withdrawals := acc.1 } { s0 with withdrawals := (createStep c acc v).1 }
          v.id (createdRecord c v) hvfresh rfl (by simp [createdRecord, hval])).comp f1
        simpa using t
    · rw [f2]
      cases hval : (c.decodeAddr v.address).isSome with
      | true => rw [badIds_cons_valid c v rest hval]; simp [createStep, hval]
      | false => rw [badIds_cons_invalid c v rest hval]; simp [createStep, hval]
    · intro u hu
      rcases List.mem_cons.mp hu with rfl | hu
      · exact hv4
      · exact f3 u hu
    · intro id hid
      rw [f4 id (fun u hu => hid u (List.mem_cons_of_mem _ hu))]
      show nlookup (ninsert acc.1 v.id _) id = _
      exact nlookup_ninsert_other _ _ _ _ (hid v (List.mem_cons_self ..))

/-- the fee-update loop: only `maxTxPrice` changes, and only of withdrawals that are pending **or
    processing** (the Go code deliberately lets a user raise the price of a withdrawal in
    processing so that the relayer can bump the fee); statuses are untouched -/
theorem rbf_go_spec : ∀ (l : List (Nat × Nat)) (a b : State), processBridgeRequest.goRbf l a = .ok b →
    OnlyWithdrawals a b ∧
    ∀ id, (nlookup a.withdrawals id = none → nlookup b.withdrawals id = none) ∧
      ∀ w, nlookup a.withdrawals id = some w → ∃ w', nlookup b.withdrawals id = some w' ∧
        w'.status = w.status ∧ w'.address = w.address ∧ w'.requestAmount = w.requestAmount ∧ w'.receipt = w.receipt ∧
        (w'.maxTxPrice ≠ w.maxTxPrice → (w.status = .pending ∨ w.status = .processing) ∧ (id, w'.maxTxPrice) ∈ l) := by
  intro l
  induction l with
  | nil =>
    intro a b h
    simp only [processBridgeRequest.goRbf, Outcome.ok.injEq] at h
    subst h
    exact ⟨rfl, fun id => ⟨fun h => h, fun w hw => ⟨w, hw, rfl, rfl, rfl, rfl, fun hne => absurd rfl hne⟩⟩⟩
  | cons x rest ih =>
    intro a b h
    obtain ⟨xid, price⟩ := x
    simp only [processBridgeRequest.goRbf] at h
    cases hw : nlookup a.withdrawals xid with
    | none => simp [hw] at h
    | some w =>
      simp only [hw] at h
      split at h
      · obtain ⟨f1, f2⟩ := ih _ b h
        refine ⟨f1, fun id => ⟨(f2 id).1, fun w0 hw0 => ?_⟩⟩
        obtain ⟨w', e1, e2, e3, e4, e5, e6⟩ := (f2 id).2 w0 hw0
        exact ⟨w', e1, e2, e3, e4, e5, fun hne => ⟨(e6 hne).1, List.mem_cons_of_mem _ (e6 hne).2⟩⟩
      · rename_i hst
        have hst' : w.status = .pending ∨ w.status = .processing := by
          by_cases hp : w.status = .pending
          · exact Or.inl hp
          · right
            by_cases hq : w.status = .processing
            · exact hq
            · exact absurd ⟨hp, hq⟩ hst
        obtain ⟨f1, f2⟩ := ih _ b h
        refine ⟨f1.step, fun id => ?_⟩
        have g := f2 id
        simp only [nlookup_ninsert] at g
        by_cases hid : xid = id
        · subst hid
          simp only [if_true] at g
          refine ⟨fun hn => (by rw [hw] at hn; cases hn), fun w0 hw0 => ?_⟩
          rw [hw] at hw0; cases hw0
          obtain ⟨w', e1, e2, e3, e4, e5, e6⟩ := g.2 _ rfl
          refine ⟨w', e1, e2, e3, e4, e5, fun hne => ⟨hst', ?_⟩⟩
          by_cases hpr : w'.maxTxPrice = price
          · rw [hpr]; exact List.mem_cons_self ..
          · exact List.mem_cons_of_mem _ (e6 hpr).2
        · simp only [hid, if_false] at g
          refine ⟨g.1, fun w0 hw0 => ?_⟩
          obtain ⟨w', e1, e2, e3, e4, e5, e6⟩ := g.2 w0 hw0
          exact ⟨w', e1, e2, e3, e4, e5, fun hne => ⟨(e6 hne).1, List.mem_cons_of_mem _ (e6 hne).2⟩⟩

theorem rbf_go_status (l : List (Nat × Nat)) (a b : State) (h : processBridgeRequest.goRbf l a = .ok b) (id : Nat) :
    statusOf b id = statusOf a id := by
  obtain ⟨_, f2⟩ := rbf_go_spec l a b h
  unfold statusOf
  cases hl : nlookup a.withdrawals id with
  | none => rw [(f2 id).1 hl]
  | some w =>
    obtain ⟨w', e1, e2, _⟩ := (f2 id).2 w hl
    rw [e1]; simp [e2]

/-- the cancel-request loop: pending → canceling for listed ids, nothing else -/
theorem cancel_go_spec : ∀ (l : List Nat) (a b : State), processBridgeRequest.goCancel l a = .ok b →
    OnlyWithdrawals a b ∧ Trans a b [] [] ∧
    ∀ id st, statusOf a id = some st → statusOf b id = some st ∨ (st = .pending ∧ id ∈ l ∧ statusOf b id = some .canceling) := by
  intro l
  induction l with
  | nil =>
    intro a b h
    simp only [processBridgeRequest.goCancel, Outcome.ok.injEq] at h
    subst h
    exact ⟨rfl, Trans.refl _, fun id st hs => Or.inl hs⟩
  | cons x rest ih =>
    intro a b h
    simp only [processBridgeRequest.goCancel] at h
    cases hw : nlookup a.withdrawals x with
    | none => simp [hw] at h
    | some w =>
      simp only [hw] at h
      split at h
      · obtain ⟨f1, f2, f3⟩ := ih _ b h
        refine ⟨f1, f2, fun id st hs => ?_⟩
        rcases f3 id st hs with g | ⟨g1, g2, g3⟩
        · exact Or.inl g
        · exact Or.inr ⟨g1, List.mem_cons_of_mem _ g2, g3⟩
      · rename_i hst
        have hst' : w.status = .pending := by simpa using hst
        obtain ⟨f1, f2, f3⟩ := ih _ b h
        have t1 := trans_update_same a { a with withdrawals := ninsert a.withdrawals x { w with status := .canceling } } x w
          { w with status := .canceling } hw rfl (by rw [hst']; exact edge_pending_canceling) (Or.inr ⟨by simp, by simp⟩)
        refine ⟨f1.step, Trans.comp_nil t1 f2, fun id st hs => ?_⟩
        have hmid := statusOf_insert a { a with withdrawals := ninsert a.withdrawals x { w with status := .canceling } } x
          { w with status := .canceling } rfl id
        by_cases hid : x = id
        · subst hid
          simp only [if_true] at hmid
          have hsa : statusOf a x = some w.status := by unfold statusOf; rw [hw]; rfl
          rw [hsa] at hs; cases hs
          rcases f3 x _ hmid with g | ⟨g1, _, _⟩
          · exact Or.inr ⟨hst', List.mem_cons_self .., g⟩
          · cases g1
        · simp only [hid, if_false] at hmid
          rcases f3 id st (hmid.trans hs) with g | ⟨g1, g2, g3⟩
          · exact Or.inl g
          · exact Or.inr ⟨g1, List.mem_cons_of_mem _ g2, g3⟩

/-- **ProcessBridgeRequest step and notices** (under the fresh-id hypothesis): respects the edges;
    the only ids that become terminal are the creation requests with an undecodable address, which
    are created cancelled and get exactly one refund notice each in this step; no paid notice. -/
theorem bridge_step (c : Crypto) (s s' : State) (r : BridgeReqs) (hf : Fresh s r)
    (h : processBridgeRequest c s r = .ok s') : Step s s' [] (badIds c r.withdraws) := by
  rw [bridge_unfold] at h
  split at h
  · rename_i hc
    cases h
    have hw : r.withdraws = [] := by
      unfold BridgeReqs.count at hc
      exact List.eq_nil_of_length_eq_zero (by omega)
    rw [hw]
    exact ⟨Trans.refl _, by simp, by simp [badIds]⟩
  · dsimp only at h
    split at h
    · cases h
    · cases h
    rename_i s2 hrbf
    split at h
    · cases h
    · cases h
    rename_i s3 hcan
    cases h
    obtain ⟨c1, c2, _, _⟩ := create_fold_spec c s r.withdraws (s.withdrawals, []) hf.1 hf.2
    obtain ⟨r1, _⟩ := rbf_go_spec _ _ _ hrbf
    have r2 := rbf_go_status _ _ _ hrbf
    obtain ⟨k1, k2, _⟩ := cancel_go_spec _ _ _ hcan
    have hq : s3.queue = { s.queue with rejected := s.queue.rejected ++ (r.withdraws.foldl (createStep c) (s.withdrawals, [])).2 } := by
      rw [k1.queue, r1.queue]
    refine ⟨?_, ?_, ?_⟩
    · have t := (c1.congr (s := s) (s' := _) rfl rfl).comp ((Trans.of_status_eq r2).comp k2)
      exact (by simpa using t : Trans s s3 [] (badIds c r.withdraws)).congr rfl rfl
    · simp [paidNotices, hq]
    · simp [refundNotices, hq, c2]

theorem bridge_respects (c : Crypto) (s s' : State) (r : BridgeReqs) (hf : Fresh s r)
    (h : processBridgeRequest c s r = .ok s') : Respects s s' := (bridge_step c s s' r hf h).respects

/-- what the three kinds of request do, id by id (fresh-id hypothesis): a creation request yields
    exactly its record, `pending` if the address decodes and `canceled` otherwise; an id that is not
    created keeps its status or goes pending → canceling through a listed cancel request; a fee
    update touches `maxTxPrice` only. -/
theorem bridge_effects (c : Crypto) (s s' : State) (r : BridgeReqs) (hf : Fresh s r)
    (h : processBridgeRequest c s r = .ok s') :
    (∀ v ∈ r.withdraws, statusOf s v.id = none ∧
       (statusOf s' v.id = some (createdRecord c v).status ∨
        ((createdRecord c v).status = .pending ∧ v.id ∈ r.cancel1 ∧ statusOf s' v.id = some .canceling))) ∧
    (∀ id st, statusOf s id = some st →
       statusOf s' id = some st ∨ (st = .pending ∧ id ∈ r.cancel1 ∧ statusOf s' id = some .canceling)) := by
  rw [bridge_unfold] at h
  split at h
  · rename_i hc
    cases h
    have hw : r.withdraws = [] := by
      unfold BridgeReqs.count at hc
      exact List.eq_nil_of_length_eq_zero (by omega)
    rw [hw]
    exact ⟨fun v hv => (by cases hv), fun id st hs => Or.inl hs⟩
  · dsimp only at h
    split at h
    · cases h
    · cases h
    rename_i s2 hrbf
    split at h
    · cases h
    · cases h
    rename_i s3 hcan
    cases h
    obtain ⟨_, _, c3, c4⟩ := create_fold_spec c s r.withdraws (s.withdrawals, []) hf.1 hf.2
    have r2 := rbf_go_status _ _ _ hrbf
    obtain ⟨_, _, k3⟩ := cancel_go_spec _ _ _ hcan
    constructor
    · intro v hv
      have h0 : statusOf s v.id = none := by unfold statusOf; rw [hf.1 v hv]; rfl
      have h2 : statusOf s2 v.id = some (createdRecord c v).status := by
        rw [r2 v.id]; unfold statusOf; simp only; rw [c3 v hv]; rfl
      refine ⟨h0, ?_⟩
      exact k3 v.id _ h2
    · intro id st hs
      have hnot : ∀ v ∈ r.withdraws, v.id ≠ id := by
        intro v hv e
        have : statusOf s id = none := by rw [← e]; unfold statusOf; rw [hf.1 v hv]; rfl
        rw [this] at hs; cases hs
      have h2 : statusOf s2 id = some st := by
        rw [r2 id]; unfold statusOf; simp only; rw [c4 id hnot]; exact hs
      exact k3 id st h2

/-! ### handlers that never write `withdrawals`, `queue.paid`, `queue.rejected` -/

/-- a step that leaves the table and both notice queues alone -/
theorem Step.of_frame {s s' : State} (hw : s'.withdrawals = s.withdrawals) (hp : s'.queue.paid = s.queue.paid)
    (hr : s'.queue.rejected = s.queue.rejected) : Step s s' [] [] :=
  ⟨Trans.of_eq hw, by simp [paidNotices, hp], by simp [refundNotices, hr]⟩

theorem newDeposits_go_frame (c : Crypto) (headers : List (Nat × Bytes)) (rel' : Relayer.State) :
    ∀ (l : List Deposit) (a : State) (acc : List DepositReceipt) (b : State) (rs : List DepositReceipt),
      newDeposits.go c headers rel' l a acc = .ok (b, rs) → b.withdrawals = a.withdrawals ∧ b.queue = a.queue := by
  intro l
  induction l with
  | nil =>
    intro a acc b rs h
    simp only [newDeposits.go, Outcome.ok.injEq, Prod.mk.injEq] at h
    rw [h.1]; exact ⟨rfl, rfl⟩
  | cons d rest ih =>
    intro a acc b rs h
    simp only [newDeposits.go] at h
    split at h
    · cases h
    · split at h
      · cases h
      · cases h
      · obtain ⟨e1, e2⟩ := ih _ _ _ _ h
        exact ⟨e1, e2⟩

theorem newDeposits_step (c : Crypto) (rel : Relayer.State) (s : State) (m : NewDepositsMsg) (r : Relayer.State × State)
    (h : newDeposits c rel s m = .ok r) : Step s r.2 [] [] := by
  unfold newDeposits at h
  split at h; · cases h
  split at h; · cases h
  split at h
  · cases h
  split at h
  · cases h
  · cases h
  split at h
  · cases h
  · cases h
  rename_i s1 rs hgo
  cases h
  obtain ⟨e1, e2⟩ := newDeposits_go_frame _ _ _ _ _ _ _ _ hgo
  exact Step.of_frame e1 (by simp [e2]) (by simp [e2])

theorem newBlockHashes_step (rc : Relayer.Crypto) (chainId : String) (rel : Relayer.State) (s : State)
    (vote : Relayer.VoteMsg) (hv : Bool) (start : Nat) (hashes : List Bytes) (r : Relayer.State × State)
    (h : newBlockHashes rc chainId rel s vote hv start hashes = .ok r) : Step s r.2 [] [] := by
  unfold newBlockHashes at h
  repeat (first | (split at h <;> try cases h) | dsimp only at h)
  all_goals exact Step.of_frame rfl rfl rfl

theorem newPubkey_step (rc : Relayer.Crypto) (chainId : String) (rel : Relayer.State) (s : State)
    (vote : Relayer.VoteMsg) (hv : Bool) (pk : PubKey) (r : Relayer.State × State)
    (h : newPubkey rc chainId rel s vote hv pk = .ok r) : Step s r.2 [] [] := by
  unfold newPubkey at h
  repeat (first | (split at h <;> try cases h) | dsimp only at h)
  all_goals exact Step.of_frame rfl rfl rfl

theorem newConsolidation_step (c : Crypto) (rc : Relayer.Crypto) (chainId : String) (rel : Relayer.State) (s : State)
    (vote : Relayer.VoteMsg) (hv : Bool) (tx : Bytes) (r : Relayer.State × State)
    (h : newConsolidation c rc chainId rel s vote hv tx = .ok r) : Step s r.2 [] [] := by
  unfold newConsolidation at h
  repeat (first | (split at h <;> try cases h) | dsimp only at h)
  all_goals exact Step.of_frame rfl rfl rfl

/-! ### DequeueBitcoinModuleTx: delivery of notices to the execution layer -/

/-- ids of the 'paid' system transactions in a delivered batch, in order -/
def paidIds (txs : List SysTx) : List Nat :=
  txs.filterMap (fun t => match t with | .paid _ id _ => some id | _ => none)
/-- ids of the 'refund' (cancel2) system transactions in a delivered batch, in order -/
def refundIds (txs : List SysTx) : List Nat :=
  txs.filterMap (fun t => match t with | .cancel2 _ id => some id | _ => none)

theorem number_append : ∀ (xs ys : List (Nat → SysTx)) (n : Nat),
    number n (xs ++ ys) = number n xs ++ number (n + xs.length) ys := by
  intro xs
  induction xs with
  | nil => intro ys n; simp [number]
  | cons f fs ih =>
    intro ys n
    simp only [List.cons_append, number, ih, List.length_cons]
    have : n + 1 + fs.length = n + (fs.length + 1) := by omega
    rw [this]

theorem paidIds_append (a b : List SysTx) : paidIds (a ++ b) = paidIds a ++ paidIds b := by
  unfold paidIds; rw [List.filterMap_append]
theorem refundIds_append (a b : List SysTx) : refundIds (a ++ b) = refundIds a ++ refundIds b := by
  unfold refundIds; rw [List.filterMap_append]

theorem ids_number_deposits (l : List DepositReceipt) : ∀ n,
    paidIds (number n (l.map (fun d k => SysTx.deposit k d))) = [] ∧
    refundIds (number n (l.map (fun d k => SysTx.deposit k d))) = [] := by
  induction l with
  | nil => intro n; simp [number, paidIds, refundIds]
  | cons d ds ih =>
    intro n
    have := ih (n + 1)
    simp only [paidIds, refundIds] at this ⊢
    simp only [List.map_cons, number, List.filterMap_cons]
    exact this

theorem ids_number_paid (l : List (Nat × Receipt)) : ∀ n,
    paidIds (number n (l.map (fun p k => SysTx.paid k p.1 p.2))) = l.map (·.1) ∧
    refundIds (number n (l.map (fun p k => SysTx.paid k p.1 p.2))) = [] := by
  induction l with
  | nil => intro n; simp [number, paidIds, refundIds]
  | cons d ds ih =>
    intro n
    have := ih (n + 1)
    simp only [paidIds, refundIds] at this ⊢
    simp only [List.map_cons, number, List.filterMap_cons]
    exact ⟨by rw [this.1], this.2⟩

theorem ids_number_refund (l : List Nat) : ∀ n,
    paidIds (number n (l.map (fun id k => SysTx.cancel2 k id))) = [] ∧
    refundIds (number n (l.map (fun id k => SysTx.cancel2 k id))) = l := by
  induction l with
  | nil => intro n; simp [number, paidIds, refundIds]
  | cons d ds ih =>
    intro n
    have := ih (n + 1)
    simp only [paidIds, refundIds] at this ⊢
    simp only [List.map_cons, number, List.filterMap_cons]
    exact ⟨this.1, by rw [this.2]⟩

theorem take_length_take {α} : ∀ (l : List α) (n : Nat), l.take (l.take n).length = l.take n := by
  intro l
  induction l with
  | nil => intro n; simp
  | cons x xs ih =>
    intro n
    cases n with
    | zero => simp
    | succ k => simp

/-- **Dequeue only delivers from the front**: the withdrawal table is untouched; the delivered paid
    ids are a prefix of the queued paid notices and exactly that prefix leaves the queue; likewise
    for refunds; at most 8 notices are delivered together. -/
theorem dequeue_spec (s s' : State) (txs : List SysTx) (h : dequeue s = .ok (s', txs)) :
    s'.withdrawals = s.withdrawals ∧
    ∃ n k, n + k ≤ 8 ∧
      paidIds txs = (paidNotices s).take n ∧ paidNotices s' = (paidNotices s).drop n ∧
      refundIds txs = (refundNotices s).take k ∧ refundNotices s' = (refundNotices s).drop k := by
  unfold dequeue at h
  dsimp only at h
  split at h
  · cases h
  · cases h
  rename_i hb hhb
  have hhb' : (∀ n, paidIds (number n hb) = [] ∧ refundIds (number n hb) = []) := by
    split at hhb
    · split at hhb
      · cases hhb
      · cases hhb
        intro n; simp [number, paidIds, refundIds]
    · cases hhb
      intro n; simp [number, paidIds, refundIds]
  split at h
  · cases h
    exact ⟨rfl, 0, 0, by omega, by simp [paidIds], by simp, by simp [refundIds], by simp⟩
  · cases h
    refine ⟨rfl, (s.queue.paid.take 8).length, (s.queue.rejected.take (8 - (s.queue.paid.take 8).length)).length, ?_, ?_, ?_, ?_, ?_⟩
    · simp only [List.length_take]; omega
    · rw [number_append, number_append, number_append, paidIds_append, paidIds_append, paidIds_append,
        (hhb' _).1, (ids_number_deposits _ _).1, (ids_number_paid _ _).1, (ids_number_refund _ _).1]
      simp only [List.nil_append, List.append_nil]
      unfold paidNotices
      rw [← List.map_take, take_length_take]
    · unfold paidNotices
      rw [← List.map_drop]
    · rw [number_append, number_append, number_append, refundIds_append, refundIds_append, refundIds_append,
        (hhb' _).2, (ids_number_deposits _ _).2, (ids_number_paid _ _).2, (ids_number_refund _ _).2]
      simp only [List.nil_append]
      unfold refundNotices
      rw [take_length_take]
    · rfl

theorem dequeue_respects (s s' : State) (txs : List SysTx) (h : dequeue s = .ok (s', txs)) : Respects s s' :=
  (Trans.of_eq (dequeue_spec s s' txs h).1).respects

/-- delivered ++ still queued = previously queued, for both kinds of notice -/
theorem dequeue_conserves (s s' : State) (txs : List SysTx) (h : dequeue s = .ok (s', txs)) :
    paidIds txs ++ paidNotices s' = paidNotices s ∧ refundIds txs ++ refundNotices s' = refundNotices s := by
  obtain ⟨_, n, k, _, e1, e2, e3, e4⟩ := dequeue_spec s s' txs h
  rw [e1, e2, e3, e4]
  exact ⟨List.take_append_drop .., List.take_append_drop ..⟩

/-! ## 4. histories -/

/-- fixed parameters of a run -/
structure Env where
  c : Crypto
  rc : Relayer.Crypto
  chainId : String

/-- global state with the ghost log of notices already delivered to the execution layer -/
structure G where
  rel : Relayer.State
  st : State
  dPaid : List Nat
  dRefund : List Nat

/-- every entry point that can touch the bridge state (plus arbitrary changes of the relayer
    group by other modules) -/
inductive Op where
  | process (vote : Relayer.VoteMsg) (hasVote : Bool) (ids : List Nat) (tx : Bytes) (fee : Nat)
  | replace (vote : Relayer.VoteMsg) (hasVote : Bool) (pid : Nat) (tx : Bytes) (fee : Nat)
  | finalize (m : FinalizeMsg)
  | approve (proposer : String) (ids : List Nat)
  | bridge (r : BridgeReqs)
  | deposits (m : NewDepositsMsg)
  | blockHashes (vote : Relayer.VoteMsg) (hasVote : Bool) (start : Nat) (hashes : List Bytes)
  | pubkey (vote : Relayer.VoteMsg) (hasVote : Bool) (pk : PubKey)
  | consolidation (vote : Relayer.VoteMsg) (hasVote : Bool) (tx : Bytes)
  | dequeue
  | relayer (rel' : Relayer.State)

/-- commit the result of a message handler; a failed handler leaves everything unchanged -/
def withRes (g : G) (o : Outcome (Relayer.State × State)) : G :=
  match o with
  | .ok r => { g with rel := r.1, st := r.2 }
  | _ => g

def apply (e : Env) (g : G) : Op → G
  | .process v hv ids tx fee => withRes g (processWithdrawal e.c e.rc e.chainId g.rel g.st v hv ids tx fee)
  | .replace v hv pid tx fee => withRes g (replaceWithdrawal e.c e.rc e.chainId g.rel g.st v hv pid tx fee)
  | .finalize m => withRes g (finalizeWithdrawal e.c g.rel g.st m)
  | .approve p ids => withRes g (approveCancellation g.rel g.st p ids)
  | .bridge r =>
    match processBridgeRequest e.c g.st r with
    | .ok s' => { g with st := s' }
    | _ => g
  | .deposits m => withRes g (newDeposits e.c g.rel g.st m)
  | .blockHashes v hv start hashes => withRes g (newBlockHashes e.rc e.chainId g.rel g.st v hv start hashes)
  | .pubkey v hv pk => withRes g (newPubkey e.rc e.chainId g.rel g.st v hv pk)
  | .consolidation v hv tx => withRes g (newConsolidation e.c e.rc e.chainId g.rel g.st v hv tx)
  | .dequeue =>
    match dequeue g.st with
    | .ok (s', txs) => { g with st := s', dPaid := g.dPaid ++ paidIds txs, dRefund := g.dRefund ++ refundIds txs }
    | _ => g
  | .relayer rel' => { g with rel := rel' }

def run (e : Env) (g : G) : List Op → G
  | [] => g
  | op :: ops => run e (apply e g op) ops

/-- the environment hypothesis, per operation: creation requests carry fresh ids -/
def FreshOK (g : G) : Op → Prop
  | .bridge r => Fresh g.st r
  | _ => True

/-- … and along a history -/
def AllFresh (e : Env) : G → List Op → Prop
  | _, [] => True
  | g, op :: ops => FreshOK g op ∧ AllFresh e (apply e g op) ops

/-- all paid / refund notices ever issued: delivered ones followed by the queued ones -/
def allPaid (g : G) : List Nat := g.dPaid ++ paidNotices g.st
def allRefund (g : G) : List Nat := g.dRefund ++ refundNotices g.st

/-- **the invariant**: paid ⇒ exactly one paid notice and no refund notice; cancelled ⇒ exactly one
    refund notice and no paid notice; any other status (or unknown id) ⇒ no notice at all.
    (The three cases are exhaustive and exclusive, so each implication is an equivalence — see
    `Inv.paid_iff`, `Inv.canceled_iff`, `Inv.none_iff`.) -/
def Inv (g : G) : Prop :=
  ∀ id, (statusOf g.st id = some .paid → (allPaid g).count id = 1 ∧ (allRefund g).count id = 0) ∧
        (statusOf g.st id = some .canceled → (allRefund g).count id = 1 ∧ (allPaid g).count id = 0) ∧
        (NonTerminal (statusOf g.st id) → (allPaid g).count id = 0 ∧ (allRefund g).count id = 0)

theorem status_cases (o : Option WStatus) : o = some .paid ∨ o = some .canceled ∨ NonTerminal o := by
  by_cases h1 : o = some .paid
  · exact Or.inl h1
  · by_cases h2 : o = some .canceled
    · exact Or.inr (Or.inl h2)
    · exact Or.inr (Or.inr ⟨h1, h2⟩)

theorem Inv.paid_iff {g : G} (h : Inv g) (id : Nat) :
    statusOf g.st id = some .paid ↔ ((allPaid g).count id = 1 ∧ (allRefund g).count id = 0) := by
  refine ⟨(h id).1, fun hc => ?_⟩
  rcases status_cases (statusOf g.st id) with h1 | h2 | h3
  · exact h1
  · have := (h id).2.1 h2; omega
  · have := (h id).2.2 h3; omega

theorem Inv.canceled_iff {g : G} (h : Inv g) (id : Nat) :
    statusOf g.st id = some .canceled ↔ ((allRefund g).count id = 1 ∧ (allPaid g).count id = 0) := by
  refine ⟨(h id).2.1, fun hc => ?_⟩
  rcases status_cases (statusOf g.st id) with h1 | h2 | h3
  · have := (h id).1 h1; omega
  · exact h2
  · have := (h id).2.2 h3; omega

theorem Inv.none_iff {g : G} (h : Inv g) (id : Nat) :
    NonTerminal (statusOf g.st id) ↔ ((allPaid g).count id = 0 ∧ (allRefund g).count id = 0) := by
  refine ⟨(h id).2.2, fun hc => ?_⟩
  rcases status_cases (statusOf g.st id) with h1 | h2 | h3
  · have := (h id).1 h1; omega
  · have := (h id).2.1 h2; omega
  · exact h3

/-- **'paid' once or 'refund' once for an id, never both and never twice** -/
theorem Inv.at_most_once {g : G} (h : Inv g) (id : Nat) : (allPaid g).count id + (allRefund g).count id ≤ 1 := by
  rcases status_cases (statusOf g.st id) with h1 | h2 | h3
  · have := (h id).1 h1; omega
  · have := (h id).2.1 h2; omega
  · have := (h id).2.2 h3; omega

/-- in particular for what the execution layer has actually been told -/
theorem Inv.delivered_at_most_once {g : G} (h : Inv g) (id : Nat) : g.dPaid.count id + g.dRefund.count id ≤ 1 := by
  have := h.at_most_once id
  unfold allPaid allRefund at this
  rw [List.count_append, List.count_append] at this
  omega

/-- a delivered (or queued) notice tells the truth about the status -/
theorem Inv.paid_notice_status {g : G} (h : Inv g) (id : Nat) (hm : id ∈ allPaid g) : statusOf g.st id = some .paid := by
  have hpos := List.count_pos_iff.mpr hm
  rcases status_cases (statusOf g.st id) with h1 | h2 | h3
  · exact h1
  · have := (h id).2.1 h2; omega
  · have := (h id).2.2 h3; omega

theorem Inv.refund_notice_status {g : G} (h : Inv g) (id : Nat) (hm : id ∈ allRefund g) : statusOf g.st id = some .canceled := by
  have hpos := List.count_pos_iff.mpr hm
  rcases status_cases (statusOf g.st id) with h1 | h2 | h3
  · have := (h id).1 h1; omega
  · exact h2
  · have := (h id).2.2 h3; omega

/-- summary of one global step -/
def GStep (g g' : G) : Prop :=
  ∃ P R, Trans g.st g'.st P R ∧ allPaid g' = allPaid g ++ P ∧ allRefund g' = allRefund g ++ R

theorem GStep.refl_st {g g' : G} (h1 : g'.st = g.st) (h2 : g'.dPaid = g.dPaid) (h3 : g'.dRefund = g.dRefund) : GStep g g' := by
  refine ⟨[], [], ?_, ?_, ?_⟩
  · rw [h1]; exact Trans.refl _
  · simp [allPaid, h1, h2]
  · simp [allRefund, h1, h3]

theorem withRes_GStep (g : G) (o : Outcome (Relayer.State × State))
    (h : ∀ r, o = .ok r → ∃ P R, Step g.st r.2 P R) : GStep g (withRes g o) := by
  cases o with
  | ok r =>
    obtain ⟨P, R, t, hp, hr⟩ := h r rfl
    refine ⟨P, R, t, ?_, ?_⟩
    · show g.dPaid ++ paidNotices r.2 = (g.dPaid ++ paidNotices g.st) ++ P
      rw [hp, List.append_assoc]
    · show g.dRefund ++ refundNotices r.2 = (g.dRefund ++ refundNotices g.st) ++ R
      rw [hr, List.append_assoc]
  | err e => exact GStep.refl_st rfl rfl rfl
  | panic e => exact GStep.refl_st rfl rfl rfl

/-- every operation is a global step (creation under the fresh-id hypothesis) -/
theorem apply_GStep (e : Env) (g : G) (op : Op) (hf : FreshOK g op) : GStep g (apply e g op) := by
  cases op with
  | process v hv ids tx fee =>
    exact withRes_GStep g _ (fun r h => ⟨[], [], (process_step _ _ _ _ _ _ _ _ _ _ r h).1⟩)
  | replace v hv pid tx fee =>
    exact withRes_GStep g _ (fun r h => ⟨[], [], replace_step _ _ _ _ _ _ _ _ _ _ r h⟩)
  | finalize m =>
    refine withRes_GStep g _ (fun r h => ?_)
    obtain ⟨p, _, _, _, hs, _⟩ := finalize_step _ _ _ _ r h
    exact ⟨p.withdrawals, [], hs⟩
  | approve p ids =>
    exact withRes_GStep g _ (fun r h => ⟨[], ids, approve_step _ _ _ _ r h⟩)
  | bridge r =>
    show GStep g (match processBridgeRequest e.c g.st r with | .ok s' => { g with st := s' } | _ => g)
    cases hb : processBridgeRequest e.c g.st r with
    | ok s' =>
      obtain ⟨t, hp, hr⟩ := bridge_step e.c g.st s' r hf hb
      refine ⟨[], badIds e.c r.withdraws, t, ?_, ?_⟩
      · show g.dPaid ++ paidNotices s' = (g.dPaid ++ paidNotices g.st) ++ []
        rw [hp, List.append_assoc]
      · show g.dRefund ++ refundNotices s' = (g.dRefund ++ refundNotices g.st) ++ _
        rw [hr, List.append_assoc]
    | err e => exact GStep.refl_st rfl rfl rfl
    | panic e => exact GStep.refl_st rfl rfl rfl
  | deposits m =>
    exact withRes_GStep g _ (fun r h => ⟨[], [], newDeposits_step _ _ _ _ r h⟩)
  | blockHashes v hv start hashes =>
    exact withRes_GStep g _ (fun r h => ⟨[], [], newBlockHashes_step _ _ _ _ _ _ _ _ r h⟩)
  | pubkey v hv pk =>
    exact withRes_GStep g _ (fun r h => ⟨[], [], newPubkey_step _ _ _ _ _ _ _ r h⟩)
  | consolidation v hv tx =>
    exact withRes_GStep g _ (fun r h => ⟨[], [], newConsolidation_step _ _ _ _ _ _ _ _ r h⟩)
  | dequeue =>
    show GStep g (match dequeue g.st with
      | .ok (s', txs) => { g with st := s', dPaid := g.dPaid ++ paidIds txs, dRefund := g.dRefund ++ refundIds txs }
      | _ => g)
    cases hd : dequeue g.st with
    | ok r =>
      obtain ⟨s', txs⟩ := r
      obtain ⟨c1, c2⟩ := dequeue_conserves g.st s' txs hd
      refine ⟨[], [], Trans.of_eq (dequeue_spec g.st s' txs hd).1, ?_, ?_⟩
      · show (g.dPaid ++ paidIds txs) ++ paidNotices s' = (g.dPaid ++ paidNotices g.st) ++ []
        rw [List.append_assoc, c1, List.append_nil]
      · show (g.dRefund ++ refundIds txs) ++ refundNotices s' = (g.dRefund ++ refundNotices g.st) ++ []
        rw [List.append_assoc, c2, List.append_nil]
    | err e => exact GStep.refl_st rfl rfl rfl
    | panic e => exact GStep.refl_st rfl rfl rfl
  | relayer rel' => exact GStep.refl_st rfl rfl rfl

/-- a global step preserves the invariant -/
theorem inv_step {g g' : G} (hi : Inv g) (hs : GStep g g') : Inv g' := by
  obtain ⟨P, R, ⟨hresp, np, nr, dis, hP, hR, hO⟩, ep, er⟩ := hs
  intro id
  rw [ep, er, List.count_append, List.count_append]
  by_cases hp : id ∈ P
  · obtain ⟨hn, hpaid⟩ := hP id hp
    have hnr : id ∉ R := dis id hp
    have h0 := (hi id).2.2 hn
    rw [count_nodup_mem np hp, count_not_mem hnr]
    refine ⟨fun _ => by omega, fun hc => ?_, fun hn' => absurd hpaid hn'.1⟩
    rw [hpaid] at hc; cases hc
  · by_cases hr : id ∈ R
    · obtain ⟨hn, hcan⟩ := hR id hr
      have h0 := (hi id).2.2 hn
      rw [count_nodup_mem nr hr, count_not_mem hp]
      refine ⟨fun hc => ?_, fun _ => by omega, fun hn' => absurd hcan hn'.2⟩
      rw [hcan] at hc; cases hc
    · rw [count_not_mem hp, count_not_mem hr]
      obtain ⟨o1, o2⟩ := hO id hp hr
      refine ⟨fun hc => ?_, fun hc => ?_, fun hn => ?_⟩
      · have := (hi id).1 (o1 hc); omega
      · have := (hi id).2.1 (o2 hc); omega
      · have := (hi id).2.2 (nonTerminal_back hresp id hn); omega

/-- **History theorem, part 1**: the invariant holds along every history -/
theorem history_inv (e : Env) : ∀ (ops : List Op) (g : G), Inv g → AllFresh e g ops → Inv (run e g ops) := by
  intro ops
  induction ops with
  | nil => intro g hi _; exact hi
  | cons op ops ih =>
    intro g hi hf
    exact ih _ (inv_step hi (apply_GStep e g op hf.1)) hf.2

/-- **History theorem, part 2**: every id's status only moves along the allowed edges -/
theorem history_respects (e : Env) : ∀ (ops : List Op) (g : G), AllFresh e g ops → Respects g.st (run e g ops).st := by
  intro ops
  induction ops with
  | nil => intro g _; exact Respects.refl _
  | cons op ops ih =>
    intro g hf
    obtain ⟨P, R, t, _, _⟩ := apply_GStep e g op hf.1
    exact t.respects.trans (ih _ hf.2)

theorem run_append (e : Env) : ∀ (ops1 ops2 : List Op) (g : G), run e g (ops1 ++ ops2) = run e (run e g ops1) ops2 := by
  intro ops1
  induction ops1 with
  | nil => intro ops2 g; rfl
  | cons op ops ih => intro ops2 g; exact ih ops2 _

theorem AllFresh_append (e : Env) : ∀ (ops1 ops2 : List Op) (g : G),
    AllFresh e g (ops1 ++ ops2) → AllFresh e g ops1 ∧ AllFresh e (run e g ops1) ops2 := by
  intro ops1
  induction ops1 with
  | nil => intro ops2 g h; exact ⟨trivial, h⟩
  | cons op ops ih =>
    intro ops2 g h
    obtain ⟨h1, h2⟩ := h
    obtain ⟨i1, i2⟩ := ih ops2 _ h2
    exact ⟨⟨h1, i1⟩, i2⟩

/-- between *any two points* of a history the status of every known id moves along `Edge` (so the
    whole status sequence of an id is a path pending → (canceling) → processing → paid or
    pending → canceling → canceled, possibly created directly cancelled), and ids never disappear -/
theorem history_edges (e : Env) (g : G) (ops1 ops2 : List Op) (hf : AllFresh e g (ops1 ++ ops2))
    (id : Nat) (st1 : WStatus) (h1 : statusOf (run e g ops1).st id = some st1) :
    ∃ st2, statusOf (run e g (ops1 ++ ops2)).st id = some st2 ∧ Edge st1 st2 := by
  rw [run_append]
  exact history_respects e ops2 _ (AllFresh_append e ops1 ops2 g hf).2 id st1 h1

/-- terminal statuses are final along a history -/
theorem history_terminal (e : Env) (g : G) (ops1 ops2 : List Op) (hf : AllFresh e g (ops1 ++ ops2))
    (id : Nat) (st1 : WStatus) (h1 : statusOf (run e g ops1).st id = some st1) (ht : st1 = .paid ∨ st1 = .canceled) :
    statusOf (run e g (ops1 ++ ops2)).st id = some st1 := by
  obtain ⟨st2, e2, g2⟩ := history_edges e g ops1 ops2 hf id st1 h1
  rw [e2, terminal_absorbing _ _ g2 ht]

/-- the empty bridge (genesis without withdrawals) satisfies the invariant -/
theorem inv_init (rel : Relayer.State) (s : State) (hw : s.withdrawals = []) (hp : s.queue.paid = []) (hr : s.queue.rejected = []) :
    Inv { rel := rel, st := s, dPaid := [], dRefund := [] } := by
  intro id
  have hs : statusOf s id = none := by unfold statusOf; rw [hw]; rfl
  simp [allPaid, allRefund, paidNotices, refundNotices, hp, hr, hs, NonTerminal]

/-- **C05 over histories**: from a bridge without withdrawals, along every history whose creation
    requests carry fresh ids, the execution layer is told 'paid' at most once or 'refund' at most once
    for any id, never both; a told 'paid' means the withdrawal is (and stays) paid, a told 'refund'
    means it is (and stays) cancelled. -/
theorem C05_history (e : Env) (rel : Relayer.State) (s : State) (hw : s.withdrawals = []) (hp : s.queue.paid = [])
    (hr : s.queue.rejected = []) (ops : List Op)
    (hf : AllFresh e { rel := rel, st := s, dPaid := [], dRefund := [] } ops) (id : Nat) :
    let g := run e { rel := rel, st := s, dPaid := [], dRefund := [] } ops
    g.dPaid.count id + g.dRefund.count id ≤ 1 ∧
    (id ∈ g.dPaid → statusOf g.st id = some .paid) ∧ (id ∈ g.dRefund → statusOf g.st id = some .canceled) := by
  intro g
  have hi : Inv g := history_inv e ops _ (inv_init rel s hw hp hr) hf
  refine ⟨hi.delivered_at_most_once id, fun hm => hi.paid_notice_status id ?_, fun hm => hi.refund_notice_status id ?_⟩
  · exact List.mem_append_left _ hm
  · exact List.mem_append_left _ hm

/-! ## 5. counterexamples (what happens without the hypotheses) and non-vacuity -/

/-- a toy crypto: only the address "ok" decodes (to a 22-byte script of zeros); the double hash of a
    byte string is 32 copies of its length; hash160 is 20 zero bytes -/
def c0 : Crypto :=
  { sha256 := fun _ => [], dsha256 := fun b => List.replicate 32 (UInt8.ofNat b.length), hash160 := fun _ => List.replicate 20 0,
    tweak := fun _ _ => none,
    tweakNoScript := fun _ => none, decodeAddr := fun a => if a = "ok" then some (List.replicate 22 0) else none }

def q0 : Queue := { blockNumber := 0, deposits := [], paid := [], rejected := [] }
/-- the empty bridge -/
def s0 : State :=
  { params := default, pubkey := default, tip := 0, hashes := [], deposited := [], nonce := 0, withdrawals := [],
    processId := 0, processing := [], queue := q0 }

def rcpt : Receipt := { txid := List.replicate 32 7, txout := 0, amount := 5 }
def wWith (st : WStatus) : Withdrawal :=
  { address := "ok", requestAmount := 10, maxTxPrice := 1, status := st, receipt := some rcpt }
/-- id 7 already paid, its notice queued -/
def sPaid : State := { s0 with withdrawals := [(7, wWith .paid)], queue := { q0 with paid := [(7, rcpt)] } }
/-- id 7 in processing under record 0 (one candidate, fee 10), block hash of height 3 voted -/
def sProc : State :=
  { s0 with withdrawals := [(7, wWith .processing)], processId := 1, hashes := [(3, List.replicate 32 80)],
            processing := [(0, { txids := [List.replicate 32 7], outputs := [[5]], withdrawals := [7], fee := 10 })] }
def sPend : State := { s0 with withdrawals := [(7, { wWith .pending with receipt := none })] }

/-- **without the fresh-id hypothesis the edges are violated**: the execution layer reuses the id
    of a paid withdrawal in a creation request; the Go code (`Withdrawals.Set`) overwrites the record
    and the paid withdrawal is pending again -/
theorem reused_id_breaks_edges :
    ∃ s', processBridgeRequest c0 sPaid { withdraws := [{ id := 7, amount := 5, txPrice := 1, address := "ok" }] } = .ok s' ∧
      statusOf sPaid 7 = some .paid ∧ statusOf s' 7 = some .pending ∧ ¬ Respects sPaid s' := by
  refine ⟨_, rfl, by decide, by decide, fun hr => ?_⟩
  have := respects_paid hr 7 (by decide)
  revert this
  decide

/-- **… and 'paid' and 'refund' are both announced**: the reused id comes with an undecodable
    address; the record becomes cancelled and a refund notice joins the paid notice -/
theorem reused_id_paid_and_refund :
    ∃ s', processBridgeRequest c0 sPaid { withdraws := [{ id := 7, amount := 5, txPrice := 1, address := "bad" }] } = .ok s' ∧
      paidNotices s' = [7] ∧ refundNotices s' = [7] ∧ statusOf s' 7 = some .canceled :=
  ⟨_, rfl, by decide, by decide, by decide⟩

/-- **without distinctness inside one request list 'refund' is announced twice** -/
theorem duplicate_ids_two_refunds :
    ∃ s', processBridgeRequest c0 s0 { withdraws := [{ id := 1, amount := 5, txPrice := 1, address := "bad" },
                                                     { id := 1, amount := 6, txPrice := 1, address := "bad" }] } = .ok s' ∧
      refundNotices s' = [1, 1] :=
  ⟨_, rfl, by decide⟩

/-- a refunded id re-created in the same list with a good address: pending with a refund notice out -/
theorem duplicate_ids_refund_then_pending :
    ∃ s', processBridgeRequest c0 s0 { withdraws := [{ id := 1, amount := 5, txPrice := 1, address := "bad" },
                                                     { id := 1, amount := 6, txPrice := 1, address := "ok" }] } = .ok s' ∧
      refundNotices s' = [1] ∧ statusOf s' 1 = some .pending :=
  ⟨_, rfl, by decide, by decide⟩

/-- **a fee update is not restricted to pending withdrawals**: it also rewrites `maxTxPrice` of a
    withdrawal in processing (intended in the Go code: "relayer can use the latest tx price to do
    the rbf"); see `rbf_go_spec` for the exact statement -/
theorem rbf_updates_processing :
    ∃ s', processBridgeRequest c0 sProc { rbf := [(7, 99)] } = .ok s' ∧
      (nlookup s'.withdrawals 7).map (·.maxTxPrice) = some 99 ∧ statusOf s' 7 = some .processing :=
  ⟨_, rfl, by decide, by decide⟩

/-! ### non-vacuity -/

def rel0 : Relayer.State :=
  let mk (k : UInt8) : Relayer.Voter := { address := [], voteKey := [k], status := .activated, height := 0 }
  { params := { electingPeriod := 0, acceptProposerTimeout := 0 }, proposer := "p", voters := ["a", "b", "c"], epoch := 0,
    lastElected := 0, accepted := false, seq := 7, randao := [], recs := [("p", mk 1), ("a", mk 2), ("b", mk 3), ("c", mk 4)],
    onBoarding := [], offBoarding := [], pubkeys := [] }
def rc0 : Relayer.Crypto :=
  { sha256 := fun _ => [], hash160 := id, aggVerify := fun ks _ _ => ks.length == 3, blsVerify := fun _ _ _ => false,
    ecdsaVerify := fun _ _ _ => false, addrOf := fun _ => "" }
def vote0 : Relayer.VoteMsg :=
  { proposer := "p", method := "", sigDoc := [], seq := 7, epoch := 0, bitmap := [5,0,0,0,0,0,0,0], signature := [] }
def e0 : Env := { c := c0, rc := rc0, chainId := "x" }

/-- an 82-byte transaction: one input, one output of value 5 to the 22-byte zero script -/
def tx0 : Bytes :=
  [0,0,0,0] ++ [1] ++ List.replicate 36 0 ++ [0] ++ [0,0,0,0] ++ [1] ++ le64 5 ++ [22] ++ List.replicate 22 0 ++ [0,0,0,0]

/-- `process_step` / `process_terms` are not vacuous: a voted payout of a pending withdrawal succeeds -/
example : ∃ r, processWithdrawal c0 rc0 "x" rel0 sPend vote0 true [7] tx0 20 = .ok r ∧ statusOf r.2 7 = some .processing :=
  ⟨_, rfl, by decide⟩

/-- `replace_terms` is not vacuous: a voted fee bump (10 → 20) of record 0 succeeds and adds the candidate -/
example : ∃ r, replaceWithdrawal c0 rc0 "x" rel0 sProc vote0 true 0 tx0 20 = .ok r ∧
    (nlookup r.2.processing 0).map (·.txids) = some [List.replicate 32 7, List.replicate 32 82] ∧
    (nlookup r.2.processing 0).map (·.outputs) = some [[5], [5]] :=
  ⟨_, rfl, by decide, by decide⟩

/-- `finalize_step` is not vacuous: an SPV proof of the voted candidate marks 7 paid and queues one notice -/
def fin0 : FinalizeMsg :=
  { proposer := "p", pid := 0, txid := List.replicate 32 7, blockNumber := 3, txIndex := 1,
    proof := List.replicate 32 1, header := List.replicate 36 0 ++ List.replicate 32 64 ++ List.replicate 12 0 }
example : ∃ r, finalizeWithdrawal c0 rel0 sProc fin0 = .ok r ∧ paidNotices r.2 = [7] ∧ statusOf r.2 7 = some .paid ∧
    r.2.queue.paid.map (·.2.amount) = [5] :=
  ⟨_, rfl, by decide, by decide, by decide⟩

/-- a whole history from the empty bridge: ids 1 (good address) and 2 (bad address) are created,
    1 is cancel-requested and approved, everything is delivered: the hypotheses of `C05_history`
    hold and both refunds are delivered exactly once -/
def ops0 : List Op :=
  [ .bridge { withdraws := [{ id := 1, amount := 5, txPrice := 1, address := "ok" }, { id := 2, amount := 5, txPrice := 1, address := "bad" }] },
    .bridge { cancel1 := [1] },
    .approve "p" [1],
    .dequeue ]
def g0 : G := { rel := rel0, st := s0, dPaid := [], dRefund := [] }

example : AllFresh e0 g0 ops0 :=
  ⟨by show Fresh _ _; unfold Fresh; decide, by show Fresh _ _; exact ⟨fun v hv => (by cases hv), List.nodup_nil⟩, trivial, trivial, trivial⟩
example : (run e0 g0 ops0).dRefund = [2, 1] ∧ (run e0 g0 ops0).dPaid = [] ∧
    statusOf (run e0 g0 ops0).st 1 = some .canceled ∧ statusOf (run e0 g0 ops0).st 2 = some .canceled ∧
    refundNotices (run e0 g0 ops0).st = [] := by decide
example : Inv g0 := inv_init rel0 s0 rfl rfl rfl

/-- a 113-byte fee-bump transaction: output 0 pays 4 to the user's script, output 1 is change to the relayer key -/
def tx1 : Bytes :=
  [0,0,0,0] ++ [1] ++ List.replicate 36 0 ++ [0] ++ [0,0,0,0] ++ [2] ++ le64 4 ++ [22] ++ List.replicate 22 0 ++
    le64 1 ++ [22] ++ ([0, 0x14] ++ List.replicate 20 0) ++ [0,0,0,0]

/-- a history through payment: pending 7 is processed (fee 20), fee-bumped (fee 30, with a change
    output), finalised on the bumped candidate, delivered: 'paid' once, amount 4 = that candidate's output -/
def g1 : G := { rel := rel0, st := { sPend with hashes := [(3, List.replicate 32 80)] }, dPaid := [], dRefund := [] }
def ops1 : List Op :=
  [ .process vote0 true [7] tx0 20,
    .relayer rel0,
    .replace vote0 true 0 tx1 30,
    .finalize { fin0 with txid := List.replicate 32 113 } ]
set_option maxRecDepth 16384 in
example : paidNotices (run e0 g1 ops1).st = [7] ∧ (run e0 g1 ops1).st.queue.paid.map (·.2.amount) = [4] ∧
    statusOf (run e0 g1 ops1).st 7 = some .paid := by decide
set_option maxRecDepth 16384 in
example : (run e0 g1 (ops1 ++ [.dequeue])).dPaid = [7] ∧ (run e0 g1 (ops1 ++ [.dequeue])).dRefund = [] ∧
    paidNotices (run e0 g1 (ops1 ++ [.dequeue])).st = [] := by decide
example : AllFresh e0 g1 (ops1 ++ [.dequeue]) := ⟨trivial, trivial, trivial, trivial, trivial, trivial⟩

end Goat.C05H
