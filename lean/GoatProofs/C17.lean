/-
  C17 — deposit addresses handed out are exactly what deposit checking accepts.
  Parametric in the hash functions / taproot tweak (crypto is a parameter of the model).
-/
import GoatModel.Bitcoin
namespace Goat.C17
open Goat.Bitcoin

/-- **v0 round trip**: the output script the builder hands out for (key, EVM address) is accepted by
    the verifier for that same key and address — for both key types. -/
theorem v0_roundtrip (c : Crypto) (pk : PubKey) (evm out : Bytes)
    (hlen : ∀ b, (c.sha256 b).length = 32) (htw : ∀ k e w, c.tweak k e = some w → w.length = 32)
    (h : depositOutputV0 c pk evm = some out) : verifyDepositScriptV0 c pk evm out = true := by
  unfold depositOutputV0 at h
  split at h; · cases h
  rename_i hg
  have hevm : evm.length = 20 := by
    by_cases he : evm.length = 20
    · exact he
    · exact absurd (Or.inl he) hg
  unfold verifyDepositScriptV0
  simp only [hevm, ne_eq, not_true_eq_false, if_false]
  split at h
  · rename_i hk
    cases h
    simp [hk, hlen]
  · split at h
    · rename_i hk0 hk1
      cases ht : c.tweak pk.key evm with
      | none => simp [ht] at h
      | some w =>
        simp only [ht, Option.map_some, Option.some.injEq] at h
        subst h
        have := htw _ _ _ ht
        simp [hk0, hk1, ht, this]
    · cases h

/-- **v0 acceptance is exactly equality with the handed-out script** ("for exactly that key and
    address and for no other" then reduces to the hash / tweak being collision-free, an explicit
    hypothesis wherever used). -/
theorem v0_accept_iff (c : Crypto) (pk : PubKey) (evm out : Bytes) (hv : pk.validate = true)
    (hlen : ∀ b, (c.sha256 b).length = 32) (htw : ∀ k e w, c.tweak k e = some w → w.length = 32) :
    verifyDepositScriptV0 c pk evm out = true ↔ depositOutputV0 c pk evm = some out := by
  constructor
  · intro h
    unfold verifyDepositScriptV0 at h
    unfold depositOutputV0
    split at h; · cases h
    rename_i hevm
    have hevm' : evm.length = 20 := by simpa using hevm
    have hg : ¬ (evm.length ≠ 20 ∨ (!pk.validate) = true) := by simp [hevm', hv]
    simp only [hg, if_false]
    split at h
    · rename_i hk
      simp only [hk, if_true]
      simp only [Bool.and_eq_true, beq_iff_eq] at h
      obtain ⟨⟨⟨h1, h2⟩, h3⟩, h4⟩ := h
      congr 1
      -- out = [0x00, 0x20] ++ drop 2 out
      have : out = [out[0]!, out[1]!] ++ out.drop 2 := by
        match out, h1 with
        | a :: b :: rest, _ => simp
      rw [this, h2, h3, ← h4]
    · split at h
      · rename_i hk0 hk1
        simp only [hk0, hk1, if_true, if_false]
        simp only [Bool.and_eq_true, beq_iff_eq] at h
        obtain ⟨⟨⟨h1, h2⟩, h3⟩, h4⟩ := h
        cases ht : c.tweak pk.key evm with
        | none => simp [ht] at h4
        | some w =>
          simp only [ht] at h4
          have hw : w = out.drop 2 := by simpa using h4
          simp only [Option.map_some, Option.some.injEq]
          have : out = [out[0]!, out[1]!] ++ out.drop 2 := by
            match out, h1 with
            | a :: b :: rest, _ => simp
          rw [this, h2, h3, hw]
          simp
      · cases h
  · exact v0_roundtrip c pk evm out hlen htw

/-- the pre-image script of the v0 ECDSA deposit commits to the EVM address and the key: it is
    injective in (address, key) for 20-byte addresses and 33-byte keys -/
theorem v0_script_injective (e1 e2 k1 k2 : Bytes) (h1 : e1.length = 20) (h2 : e2.length = 20)
    (hk1 : k1.length = 33) (hk2 : k2.length = 33) (h : depositScriptV0 e1 k1 = depositScriptV0 e2 k2) :
    e1 = e2 ∧ k1 = k2 := by
  unfold depositScriptV0 at h
  simp only [h1, h2, hk1, hk2, List.singleton_append, List.cons_append, List.cons.injEq, true_and, List.append_assoc, List.nil_append] at h
  have ha := List.append_inj h (by rw [h1, h2])
  obtain ⟨hl, hr⟩ := ha
  simp only [List.cons.injEq, true_and] at hr
  have hb := List.append_inj hr (by rw [hk1, hk2])
  exact ⟨hl, hb.1⟩

/-- **v1 round trip** (version 1 exists only for ECDSA keys) -/
theorem v1_roundtrip (c : Crypto) (pk : PubKey) (magic evm o0 o1 : Bytes) (hh : ∀ b, (c.hash160 b).length = 20)
    (h : depositOutputsV1 c pk magic evm = some (o0, o1)) : verifyDepositScriptV1 c pk magic evm o0 o1 = true := by
  unfold depositOutputsV1 at h
  split at h; · cases h
  rename_i hg
  have hevm : evm.length = 20 := by
    by_cases he : evm.length = 20
    · exact he
    · exact absurd (Or.inl he) hg
  have hm : magic.length = 4 := by
    by_cases he : magic.length = 4
    · exact he
    · exact absurd (Or.inr (Or.inl he)) hg
  split at h
  · rename_i hk
    simp only [Option.some.injEq, Prod.mk.injEq] at h
    obtain ⟨rfl, rfl⟩ := h
    unfold verifyDepositScriptV1
    simp [hm, hevm, hk, hh]
  · cases h

/-- version 1 is never accepted (and never handed out) for a Schnorr key -/
theorem v1_only_ecdsa (c : Crypto) (pk : PubKey) (magic evm o0 o1 : Bytes) (hk : pk.kind ≠ 0) :
    verifyDepositScriptV1 c pk magic evm o0 o1 = false ∧ depositOutputsV1 c pk magic evm = none := by
  unfold verifyDepositScriptV1 depositOutputsV1
  constructor
  · split; · rfl
    split; · rfl
    simp [hk]
  · split; · rfl
    simp [hk]

/-- **v1 acceptance is exactly equality with the handed-out pair of scripts** -/
theorem v1_accept_iff (c : Crypto) (pk : PubKey) (magic evm o0 o1 : Bytes) (hv : pk.validate = true)
    (hh : ∀ b, (c.hash160 b).length = 20) :
    verifyDepositScriptV1 c pk magic evm o0 o1 = true ↔ depositOutputsV1 c pk magic evm = some (o0, o1) := by
  constructor
  · intro h
    unfold verifyDepositScriptV1 at h
    unfold depositOutputsV1
    split at h; · cases h
    rename_i hm
    split at h; · cases h
    rename_i hevm
    have hm' : magic.length = 4 := by simpa using hm
    have hevm' : evm.length = 20 := by simpa using hevm
    have hg : ¬ (evm.length ≠ 20 ∨ magic.length ≠ 4 ∨ (!pk.validate) = true) := by simp [hm', hevm', hv]
    simp only [hg, if_false]
    split at h
    · rename_i hk
      simp only [hk, if_true]
      simp only [Bool.and_eq_true, beq_iff_eq] at h
      obtain ⟨⟨⟨⟨⟨⟨⟨a1, a2⟩, a3⟩, a4⟩, b1⟩, b2⟩, b3⟩, b4⟩ := h
      have e0 : o0 = [o0[0]!, o0[1]!] ++ o0.drop 2 := by
        match o0, a1 with
        | a :: b :: rest, _ => simp
      have e1 : o1 = [o1[0]!, o1[1]!] ++ o1.drop 2 := by
        match o1, b1 with
        | a :: b :: rest, _ => simp
      rw [e0, e1, a2, a3, b2, b3, ← a4, b4]
      simp
    · cases h
  · exact v1_roundtrip c pk magic evm o0 o1 hh

/-- the change / consolidation output must pay the current key: the system-address check accepts
    exactly the P2WPKH (ECDSA) or key-path P2TR (Schnorr) script of that key -/
theorem system_script_ecdsa (c : Crypto) (k script : Bytes) (hh : ∀ b, (c.hash160 b).length = 20) :
    verifySystemAddressScript c { kind := 0, key := k } script = true ↔ script = [0x00, 0x14] ++ c.hash160 k := by
  unfold verifySystemAddressScript
  simp only [if_true]
  constructor
  · intro h
    simp only [Bool.and_eq_true, beq_iff_eq] at h
    obtain ⟨⟨⟨a1, a2⟩, a3⟩, a4⟩ := h
    have e0 : script = [script[0]!, script[1]!] ++ script.drop 2 := by
      match script, a1 with
      | a :: b :: rest, _ => simp
    rw [e0, a2, a3, ← a4]
  · intro h
    subst h
    simp [hh]

end Goat.C17
