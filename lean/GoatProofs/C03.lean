/-
  C03 — deposits: SPV-proven, script-bound, matured, credited at most once, value-exact.
-/
import GoatModel.Bitcoin
import GoatProofs.C04
import GoatProofs.C20
namespace Goat.C03
open Goat.Bitcoin

/-- script binding for the given deposit version -/
def ScriptOk (c : Crypto) (magic : Bytes) (d : Deposit) (outs : List BtcTx.TxOut) : Prop :=
  (d.version = 0 ∧ verifyDepositScriptV0 c d.pubkey d.evm (outs[d.outputIndex]!).pkScript = true) ∨
  (d.version = 1 ∧ d.outputIndex = 0 ∧ outs.length ≥ 2 ∧
    verifyDepositScriptV1 c d.pubkey magic d.evm (outs[d.outputIndex]!).pkScript (outs[1]!).pkScript = true)

/-- **C03 (what acceptance implies)** — one conjunct per clause of the statement.  A deposit is
    credited only if: the relayer key is registered; the block hash of that height was voted; the
    submitted header has 80 bytes and double-hashes to the voted hash; the transaction parses without
    trailing bytes; the designated output exists, is not yet credited, pays at least the minimum to a
    script committing to that key and that EVM address (v0 / v1); the transaction id hashes into the
    header's Merkle root at the claimed position; a claimed position 0 (coinbase) needs 100 voted
    blocks above; and the receipt is (amount, tax) = taxOf(value). -/
theorem C03_accept_implies (c : Crypto) (rel : Relayer.State) (s : State) (headers : List (Nat × Bytes)) (d : Deposit)
    (r : DepositReceipt) (h : verifyDeposit c rel s headers d = .ok r) :
    rel.pubkeys.contains d.pubkey.encode = true ∧
    ∃ blockHash header outs,
      nlookup s.hashes d.blockNumber = some blockHash ∧
      (d.txIndex = 0 → d.blockNumber + 100 ≤ s.tip) ∧
      nlookup headers d.blockNumber = some header ∧ header.length = 80 ∧ blockHash = c.dsha256 header ∧
      BtcTx.parseNoWitness d.noWitnessTx = some outs ∧ d.outputIndex < outs.length ∧
      hasDeposited s (c.dsha256 d.noWitnessTx) d.outputIndex = false ∧
      s.params.minDeposit ≤ (outs[d.outputIndex]!).value ∧
      ScriptOk c s.params.magic d outs ∧
      Merkle.verify c.dsha256 (c.dsha256 d.noWitnessTx) ((header.drop 36).take 32) d.proof d.txIndex = true ∧
      r = { address := d.evm, txid := c.dsha256 d.noWitnessTx, txout := d.outputIndex,
            amount := (taxOf s.params (outs[d.outputIndex]!).value).1, tax := (taxOf s.params (outs[d.outputIndex]!).value).2 } := by
  unfold verifyDeposit at h
  by_cases hkey0 : rel.pubkeys.contains d.pubkey.encode = false
  · simp only [hkey0, Bool.not_false, if_true] at h; cases h
  have hkey : rel.pubkeys.contains d.pubkey.encode = true := by simpa using hkey0
  simp only [hkey, Bool.not_true, Bool.false_eq_true, if_false] at h
  cases hbh : nlookup s.hashes d.blockNumber with
  | none => simp only [hbh] at h; cases h
  | some blockHash =>
    simp only [hbh] at h
    by_cases hcb : d.txIndex = 0 ∧ s.tip < d.blockNumber + 100
    · simp only [hcb, and_self, if_true] at h; cases h
    rw [if_neg hcb] at h
    cases hh : nlookup headers d.blockNumber with
    | none => simp [hh] at h
    | some header =>
      simp only [hh, Option.getD_some] at h
      by_cases hlen : header.length ≠ 80
      · rw [if_pos hlen] at h; cases h
      rw [if_neg hlen] at h
      by_cases hhash : blockHash ≠ c.dsha256 header
      · rw [if_pos hhash] at h; cases h
      rw [if_neg hhash] at h
      cases hparse : BtcTx.parseNoWitness d.noWitnessTx with
      | none => simp only [hparse] at h; cases h
      | some outs =>
        simp only [hparse] at h
        by_cases hidx : d.outputIndex ≥ outs.length
        · rw [if_pos hidx] at h; cases h
        rw [if_neg hidx] at h
        by_cases hdep : hasDeposited s (c.dsha256 d.noWitnessTx) d.outputIndex = true
        · simp only [hdep, if_true] at h; cases h
        simp only [hdep, Bool.false_eq_true, if_false] at h
        by_cases hmin : (outs[d.outputIndex]!).value < s.params.minDeposit
        · rw [if_pos hmin] at h; cases h
        rw [if_neg hmin] at h
        refine ⟨hkey, blockHash, header, outs, rfl, ?_, rfl, by omega, by simpa using hhash, rfl,
          by omega, by simpa using hdep, by omega, ?_⟩
        · intro h0; omega
        · -- version switch, then spv and receipt
          by_cases hv0 : d.version = 0
          · simp only [hv0, if_true] at h
            by_cases hsc : verifyDepositScriptV0 c d.pubkey d.evm (outs[d.outputIndex]!).pkScript = true
            · simp only [hsc, if_true] at h
              by_cases hspv : Merkle.verify c.dsha256 (c.dsha256 d.noWitnessTx) ((header.drop 36).take 32) d.proof d.txIndex = true
              · simp only [hspv, Bool.not_true, Bool.false_eq_true, if_false, Outcome.ok.injEq] at h
                exact ⟨Or.inl ⟨hv0, hsc⟩, hspv, h.symm⟩
              · simp only [hspv, Bool.not_false, if_true] at h; cases h
            · simp only [hsc, Bool.false_eq_true, if_false] at h; cases h
          · simp only [hv0, if_false] at h
            by_cases hv1 : d.version = 1
            · simp only [hv1, if_true] at h
              by_cases hi : d.outputIndex ≠ 0 ∨ outs.length < 2
              · simp only [hi, if_true] at h; cases h
              · simp only [hi, if_false] at h
                by_cases hsc : verifyDepositScriptV1 c d.pubkey s.params.magic d.evm (outs[d.outputIndex]!).pkScript (outs[1]!).pkScript = true
                · simp only [hsc, if_true] at h
                  by_cases hspv : Merkle.verify c.dsha256 (c.dsha256 d.noWitnessTx) ((header.drop 36).take 32) d.proof d.txIndex = true
                  · simp only [hspv, Bool.not_true, Bool.false_eq_true, if_false, Outcome.ok.injEq] at h
                    exact ⟨Or.inr ⟨hv1, by omega, by omega, hsc⟩, hspv, h.symm⟩
                  · simp only [hspv, Bool.not_false, if_true] at h; cases h
                · simp only [hsc, Bool.false_eq_true, if_false] at h; cases h
            · simp only [hv1, if_false] at h; cases h

/-- **Value-exact**: credited amount plus tax equals the output value, the tax is the capped
    per-10000 formula and is always smaller than the value (bounds of C20). -/
theorem C03_value_exact (c : Crypto) (rel : Relayer.State) (s : State) (headers : List (Nat × Bytes)) (d : Deposit)
    (r : DepositReceipt) (h : verifyDeposit c rel s headers d = .ok r) (hp : C20.ParamInv s.params)
    (outs : List BtcTx.TxOut) (hparse : BtcTx.parseNoWitness d.noWitnessTx = some outs)
    (hv : (outs[d.outputIndex]!).value < two64) :
    r.amount + r.tax = (outs[d.outputIndex]!).value ∧ r.tax < (outs[d.outputIndex]!).value ∧ 0 < r.amount := by
  obtain ⟨_, _, _, outs', _, _, _, _, _, hp', _, _, hmin, _, _, hr⟩ := C03_accept_implies c rel s headers d r h
  rw [hparse] at hp'
  cases hp'
  subst hr
  obtain ⟨h1, h2, h3⟩ := C20.tax_below_value s.params _ hp hv hmin
  exact ⟨h2, h1, h3⟩

/-- **Coinbase maturity cannot be bypassed**: by position binding (C04) a proof accepted for the
    block's tree under a position of the tree's depth presents the leaf that really is at that
    position — so the first transaction can only be presented at position 0, where the maturity
    rule applies.  Stated without any unsatisfiable idealisation: presenting another transaction at a
    position *exhibits a collision* of the hash: one of the strings the verifier hashed against one of the
    strings the block's producer hashed (`C04.RunCollision`). -/
theorem C03_coinbase_only_at_zero {H} (hH : C04.Out32 H) (t : C04.Tree) (hp : t.Perfect)
    (txid proof : Bytes) (i : Nat) (hdepth : proof.length / 32 = t.depth)
    (hacc : Merkle.verify H txid (t.root H) proof i = true) (hne : txid ≠ t.leafAt i) :
    C04.RunCollision H txid (Merkle.chunks proof) i t :=
  (C04.C04_accepted_is_leaf hH t hp txid proof i hdepth hacc).resolve_left hne

/-! ### at most once -/

/-- keys of the credited set -/
def depositedKeys (s : State) : List (Bytes × Nat) := s.deposited.map (·.1)

theorem hasDeposited_iff (s : State) (t : Bytes) (v : Nat) : hasDeposited s t v = true ↔ (t, v) ∈ depositedKeys s := by
  unfold hasDeposited depositedKeys
  simp only [List.any_eq_true, Bool.and_eq_true, beq_iff_eq, List.mem_map]
  constructor
  · rintro ⟨e, he, h1, h2⟩; exact ⟨e, he, by rw [← h1, ← h2]⟩
  · rintro ⟨e, he, h⟩; exact ⟨e, he, by rw [h], by rw [h]⟩

/-- the batch loop: every credited item is new (not in the set, which grows item by item — so
    duplicates inside one batch are rejected too), the set only grows, and the receipts are exactly
    the added keys. -/
theorem newDeposits_go_spec (c : Crypto) (rel : Relayer.State) (headers : List (Nat × Bytes)) :
    ∀ (ds : List Deposit) (s : State) (acc : List DepositReceipt) (s' : State) (rs : List DepositReceipt),
      newDeposits.go c headers rel ds s acc = .ok (s', rs) →
      (depositedKeys s).Nodup →
      ∃ new : List DepositReceipt, rs = acc.reverse ++ new ∧
        depositedKeys s' = depositedKeys s ++ new.map (fun r => (r.txid, r.txout)) ∧ (depositedKeys s').Nodup ∧
        s'.queue = s.queue ∧ s'.params = s.params := by
  intro ds
  induction ds with
  | nil =>
    intro s acc s' rs h hn
    simp only [newDeposits.go, Outcome.ok.injEq, Prod.mk.injEq] at h
    obtain ⟨h1, h2⟩ := h
    subst h1; subst h2
    exact ⟨[], by simp, by simp, hn, rfl, rfl⟩
  | cons d ds ih =>
    intro s acc s' rs h hn
    simp only [newDeposits.go] at h
    split at h; · cases h
    split at h
    · cases h
    · cases h
    · rename_i r hr
      have himp := C03_accept_implies c rel s headers d r hr
      obtain ⟨_, _, _, outs, _, _, _, _, _, _, _, hnd, _, _, _, hrr⟩ := himp
      have hnotin : (r.txid, r.txout) ∉ depositedKeys s := by
        intro hin
        have := (hasDeposited_iff s r.txid r.txout).mpr hin
        rw [hrr] at this
        simp only at this
        rw [hnd] at this
        cases this
      have hn' : (depositedKeys { s with deposited := s.deposited ++ [((r.txid, r.txout), (r.amount + r.tax) % two64)] }).Nodup := by
        unfold depositedKeys
        simp only [List.map_append, List.map_cons, List.map_nil]
        rw [List.nodup_append]
        refine ⟨hn, by simp, ?_⟩
        intro a ha b hb
        simp only [List.mem_singleton] at hb
        subst hb
        intro hab; subst hab
        exact hnotin ha
      obtain ⟨new, e1, e2, e3, e4, e5⟩ := ih _ (r :: acc) s' rs h hn'
      refine ⟨r :: new, by simp [e1], ?_, e3, e4, e5⟩
      rw [e2]
      unfold depositedKeys
      simp

/-- **Each (txid, output) is credited at most once**: a successful batch adds to the credited set
    exactly the keys of the receipts it queues, all of them new and pairwise distinct; the set never
    shrinks.  By induction over histories the list of all credits ever queued is duplicate-free. -/
theorem C03_deposit_once (c : Crypto) (rel rel' : Relayer.State) (s s' : State) (m : NewDepositsMsg)
    (h : newDeposits c rel s m = .ok (rel', s')) (hn : (depositedKeys s).Nodup) :
    ∃ new : List DepositReceipt,
      s'.queue.deposits = s.queue.deposits ++ new ∧
      depositedKeys s' = depositedKeys s ++ new.map (fun r => (r.txid, r.txout)) ∧
      (depositedKeys s').Nodup := by
  unfold newDeposits at h
  split at h; · cases h
  split at h; · cases h
  split at h
  · cases h
  · split at h
    · cases h
    · cases h
    · simp only at h
      split at h
      · cases h
      · cases h
      · rename_i s1 rs hgo
        simp only [Outcome.ok.injEq, Prod.mk.injEq] at h
        obtain ⟨_, h2⟩ := h
        obtain ⟨new, e1, e2, e3, e4, _⟩ := newDeposits_go_spec c _ _ m.deposits s [] s1 rs hgo hn
        simp at e1
        subst h2
        refine ⟨new, ?_, ?_, ?_⟩
        · simp [e4, e1]
        · exact e2
        · exact e3

end Goat.C03
