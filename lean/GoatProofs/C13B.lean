/-
  C13B — the rest of the block re-establishes the precondition of EndBlocker.

  C13H proves that EndBlocker never fails and keeps the recorded validator set equal to the top of the
  power ranking (and CometBFT's set equal to the recorded one) GIVEN `C13H.RankOk` before each
  EndBlocker; its chain theorem takes "the rest of the block" as a relation `R` with `C13H.Between R`.
  This file closes that gap for the model `GoatModel/Locking.lean`:

    1. `Inv now s`  (defined in `Lemmas/Ranking.lean`, re-exported here) — the invariant of the locking
       state inside a block with time `now`; `rankOk_of_inv : Inv now s → C13H.RankOk s`.
       `Start s` — its form at a block boundary (every recorded member Active), `Start.inv`,
       `start_after_endBlocker`, `start_of_derived` / `start_of_genesis` (C18's import establishes it).
    2. `Inv now s → op s = .ok s' → Inv now s'` for `create`, `lockOne`, `lock`, `unlockCore`, `unlockOne`,
       `unlock`, `onWeightChanged`, `updateTokens`, `claim`, `updateRewardPool`, `processRequests`,
       `distributeReward`, `dequeueMature`, `handleVote`, `handleVotes`, `handleEvidence`, `beginBlock`,
       `dequeue` (`…_inv`; the underlying `Ranking.…_tr` also carry: recorded set untouched, no record
       disappears or changes its consensus key, addresses stay hashes of keys).
    3. `R hash160` — one block: BeginBlock, then any sequence of request batches / dequeues, each
       committed on success and discarded on failure; `between_R : C13H.Between (R hash160)`;
       `sync_chain` — the chain theorem with no `RankOk` hypothesis left, obtained by instantiating
       `C13H.sync_after_every_block`; `sync_chain_genesis` — from an imported genesis;
       `endBlockers_never_fail` — no EndBlocker fails along any chain of blocks (no exclusions).
    4. `jail_*` — the hypothesis `0 ≤ downtimeJail` is necessary: with a negative jail period a block
       makes EndBlocker fail with "pending-in-set" (by evaluation).
    5. non-vacuity: a two-validator genesis and a block with downtime, create, lock, unlock, weight change.

  Hypotheses, all on the genesis state / parameters (none on the requests):
    * `0 ≤ params.downtimeJail` (Go: `Params.Validate` demands ≥ 1 minute) — necessary, see 4;
    * `0 ≤ params.maxValidators` (as in C13H);
    * the locking index is sound (`IdxEntry`: `onWeightChanged` re-ranks every index holder with positive
      power *without looking at the status*, so a validator outside Active/Pending may only have stale
      zero entries and no power) — true of any imported genesis (`start_of_derived`), kept by the handlers;
    * `KeyOk hash160`: every address is `hash160` of the record's consensus key (true of an imported
      genesis and of `create`); this gives `PkInj` — no "create never reuses a key" hypothesis is needed;
    * BeginBlock and the request handlers of one block see the same block time `now`.
-/
import GoatProofs.C13H
import GoatProofs.Lemmas.Ranking
namespace Goat.C13B
open Goat Goat.Locking Goat.ValSet Goat.Ranking

export Goat.Ranking (Inv Elig IdxEntry KeyOk Tr)

/-! ## 1. the invariant -/

/-- **`Inv` implies the precondition of EndBlocker** -/
theorem rankOk_of_inv {now : Int} {s : State} (h : Inv now s) : C13H.RankOk s where
  rank_nodup := h.rank_nodup
  rank_rec := h.rank_rec
  rank_complete := h.rank_complete
  valset_nodup := h.valset_nodup
  valset_rec := fun a _ hm => h.valset_rec a (mem_keys_of_mem hm)
  pending_out := fun a v hv hst hm => (h.member_status a v hm hv).1 hst
  max_nonneg := h.max_nonneg

/-- distinct consensus keys follow from "address = hash of the key" -/
theorem pkInj_of_keyOk {hash160 : Bytes → Bytes} {s : State} (h : KeyOk hash160 s) : C13H.PkInj s := by
  intro a b va vb ha hb heq
  rw [← h a va ha, ← h b vb hb, heq]

/-- **the invariant at a block boundary** (after EndBlocker / at genesis): `RankOk`, every recorded
    member is Active, and the soundness of the locking index that `onWeightChanged` relies on -/
structure Start (s : State) : Prop where
  rankOk : C13H.RankOk s
  members_active : ∀ a v, a ∈ s.valset.map (·.1) → vget s a = some v → v.status = .active
  idx_ok : ∀ d a x, ((d, a), x) ∈ s.lockingIdx → ∃ v, vget s a = some v ∧ IdxEntry v d x
  jail_nonneg : 0 ≤ s.params.downtimeJail

/-- at a block boundary the in-block invariant holds for every block time -/
theorem Start.inv {s : State} (h : Start s) (now : Int) : Inv now s where
  rank_nodup := h.rankOk.rank_nodup
  rank_rec := h.rankOk.rank_rec
  rank_complete := h.rankOk.rank_complete
  valset_nodup := h.rankOk.valset_nodup
  valset_rec := by
    intro a ha
    obtain ⟨p, hp⟩ := exists_of_mem_keys ha
    exact h.rankOk.valset_rec a p hp
  member_status := by
    intro a v ha hv
    have := h.members_active a v ha hv
    rw [this]
    exact ⟨by decide, fun hc => by cases hc⟩
  idx_ok := h.idx_ok
  max_nonneg := h.rankOk.max_nonneg
  jail_nonneg := h.jail_nonneg

theorem rec_locking {v v' : Validator} (h : v' = C13H.activate v ∨ v' = C13H.demote v ∨ v' = v) :
    v'.locking = v.locking := by
  rcases h with rfl | rfl | rfl
  · unfold C13H.activate; split <;> rfl
  · unfold C13H.demote; split <;> rfl
  · rfl

/-- **EndBlocker re-establishes the boundary invariant** -/
theorem start_after_endBlocker {now : Int} {t s' : State} {ups : List Update} (h : Inv now t)
    (he : endBlocker t = .ok (s', ups)) : Start s' := by
  have hr := rankOk_of_inv h
  obtain ⟨_, hp⟩ := C13H.endBlocker_result hr he
  refine ⟨C13H.rankOk_preserved hr he, ?_, ?_, by rw [hp.frame.params]; exact h.jail_nonneg⟩
  · intro a v ha hv
    obtain ⟨p, hp'⟩ := exists_of_mem_keys ha
    obtain ⟨w, hw, hact, _⟩ := C13H.valset_members_active hr he hp'
    rw [hv] at hw
    cases hw
    exact hact
  · intro d a x hm
    rw [hp.frame.lockingIdx] at hm
    obtain ⟨v, hv, r⟩ := h.idx_ok d a x hm
    obtain ⟨v', hv', hrel⟩ := C13H.rec_forward hp hv
    obtain ⟨h1, _, h3⟩ := C13H.rec_same hrel
    refine ⟨v', hv', ?_⟩
    rcases r with ⟨hel, hk⟩ | ⟨hne, hx, hpw⟩
    · exact Or.inl ⟨h3.mpr hel, by rw [rec_locking hrel]; exact hk⟩
    · exact Or.inr ⟨fun c => hne (h3.mp c), hx, by rw [h1]; exact hpw⟩

/-- EndBlocker keeps "address = hash of the key" -/
theorem keyOk_after_endBlocker {hash160 : Bytes → Bytes} {now : Int} {t s' : State} {ups : List Update} (h : Inv now t)
    (hk : KeyOk hash160 t) (he : endBlocker t = .ok (s', ups)) : KeyOk hash160 s' := by
  obtain ⟨_, hp⟩ := C13H.endBlocker_result (rankOk_of_inv h) he
  intro a v' hv'
  obtain ⟨v, hv, hrel⟩ := C13H.rec_backward hp hv'
  rw [(C13H.rec_same hrel).2.1]
  exact hk a v hv

/-! ## 2. every operation between two EndBlockers preserves the invariant -/

section Ops
variable {now : Int} {s s' : State}

theorem create_inv (hash160 : Bytes → Bytes) (hasAccount : Bytes → Bool) {reqs : List CreateReq} {accs : List Bytes}
    (h : Inv now s) (he : create hash160 hasAccount s reqs = .ok (s', accs)) : Inv now s' :=
  (create_tr hash160 hasAccount h he).inv

/-- every status branch: Active, Pending (power recomputed, `rankRemove` / `rankSet` with power > 0 only),
    Downgrade with the jail over and thresholds met (→ Pending; by `member_status` such a validator is not
    recorded), Downgrade otherwise, Inactive, Tombstoned (coins credited only) -/
theorem lockOne_inv {a : Bytes} {coins : Coins} (h : Inv now s) (he : lockOne s now a coins = .ok s') : Inv now s' :=
  (lockOne_tr id h he).inv

theorem lock_inv {reqs : List LockReq} (h : Inv now s) (he : lock s now reqs = .ok s') : Inv now s' :=
  (lock_tr id h he).inv

theorem unlockCore_inv {r : UnlockReq} {ex : Bool} {amt : Int} (h : Inv now s)
    (he : unlockCore s r = .ok (s', ex, amt)) : Inv now s' :=
  (unlockCore_tr id h he).inv

theorem unlockOne_inv {r : UnlockReq} (h : Inv now s) (he : unlockOne s now r = .ok s') : Inv now s' :=
  (unlockOne_tr id h he).inv

theorem unlock_inv {reqs : List UnlockReq} (h : Inv now s) (he : unlock s now reqs = .ok s') : Inv now s' :=
  (unlock_tr id h he).inv

theorem onWeightChanged_inv {token : String} {prev cur : Nat} (h : Inv now s)
    (he : onWeightChanged s token prev cur = .ok s') : Inv now s' :=
  (onWeightChanged_tr id h he).inv

theorem updateTokens_inv {weights : List (String × Nat)} {thresholds : List (String × Int)} (h : Inv now s)
    (he : updateTokens s weights thresholds = .ok s') : Inv now s' :=
  (updateTokens_tr id h he).inv

theorem claim_inv {reqs : List ClaimReq} (h : Inv now s) (he : claim s reqs = .ok s') : Inv now s' :=
  inv_equiv h (claim_equiv he)

theorem updateRewardPool_inv {height : Int} {gas grants : List Int} (h : Inv now s)
    (he : updateRewardPool s height gas grants = .ok s') : Inv now s' :=
  inv_equiv h (updateRewardPool_equiv he)

theorem processRequests_inv (hash160 : Bytes → Bytes) (hasAccount : Bytes → Bool) {height : Int} {R : Reqs}
    {accs : List Bytes} (h : Inv now s) (he : processRequests hash160 hasAccount s height now R = .ok (s', accs)) :
    Inv now s' :=
  (processRequests_tr hash160 hasAccount h he).inv

theorem distributeReward_inv {height : Int} {votes : List VoteInfo} (h : Inv now s)
    (he : distributeReward s height votes = .ok s') : Inv now s' :=
  inv_equiv h (distributeReward_equiv he)

theorem dequeueMature_inv (t : Int) (h : Inv now s) : Inv now (dequeueMature s t) :=
  inv_equiv h (dequeueMature_equiv s t)

/-- downtime: Active → Downgrade, power 0, out of the ranking, jailed until `now + downtimeJail ≥ now` -/
theorem handleVote_inv {vi : VoteInfo} (h : Inv now s) (he : handleVote s now vi = .ok s') : Inv now s' :=
  (handleVote_tr id h he).inv

theorem handleVotes_inv {votes : List VoteInfo} (h : Inv now s) (he : handleVotes s now votes = .ok s') : Inv now s' :=
  (handleVotes_tr id h he).inv

/-- double signing: → Tombstoned, power 0, out of the ranking -/
theorem handleEvidence_inv {height : Int} {maxAge : Option (Int × Int)} {e : Evidence} (h : Inv now s)
    (he : handleEvidence s now height maxAge e = .ok s') : Inv now s' :=
  (handleEvidence_tr id h he).inv

theorem beginBlock_inv {height : Int} {votes : List VoteInfo} {maxAge : Option (Int × Int)} {evs : List Evidence}
    (h : Inv now s) (he : beginBlock s height now votes maxAge evs = .ok s') : Inv now s' :=
  (beginBlock_tr id h he).inv

theorem dequeue_inv (h : Inv now s) : Inv now (dequeue s).1 :=
  inv_equiv h (dequeue_equiv s)

end Ops

/-! ## 3. one block; `Between`; the chain theorem -/

/-- what runs after BeginBlock and before EndBlocker: batches of execution-layer requests and the
    hand-over of matured rewards / unlocks -/
inductive MidOp where
  | process (hasAccount : Bytes → Bool) (r : Reqs)
  | dequeue

/-- the inputs of one block -/
structure Block where
  height : Int
  now : Int
  votes : List VoteInfo
  maxAge : Option (Int × Int)
  evs : List Evidence
  ops : List MidOp

/-- BeginBlock; a failing run leaves the state unchanged (as `C11H.apply`) -/
def applyBegin (s : State) (b : Block) : State :=
  match beginBlock s b.height b.now b.votes b.maxAge b.evs with
  | .ok s' => s'
  | _ => s

/-- one request batch / dequeue; a failing batch (error or panic) is not committed -/
def applyMid (hash160 : Bytes → Bytes) (b : Block) (s : State) : MidOp → State
  | .process hasAccount r =>
    match processRequests hash160 hasAccount s b.height b.now r with
    | .ok (s', _) => s'
    | _ => s
  | .dequeue => (dequeue s).1

/-- the state in which the block's EndBlocker runs -/
def blockStep (hash160 : Bytes → Bytes) (s : State) (b : Block) : State :=
  b.ops.foldl (applyMid hash160 b) (applyBegin s b)

theorem applyBegin_tr (hash160 : Bytes → Bytes) {s : State} (b : Block) (h : Inv b.now s) :
    Tr hash160 b.now s (applyBegin s b) := by
  unfold applyBegin
  split
  · rename_i s' he
    exact beginBlock_tr hash160 h he
  · exact Tr.refl hash160 h

theorem applyMid_tr (hash160 : Bytes → Bytes) (b : Block) {s : State} (op : MidOp) (h : Inv b.now s) :
    Tr hash160 b.now s (applyMid hash160 b s op) := by
  cases op with
  | process hasAccount r =>
    show Tr hash160 b.now s (match processRequests hash160 hasAccount s b.height b.now r with
      | .ok (s', _) => s'
      | _ => s)
    split
    · rename_i s' accs he
      exact processRequests_tr hash160 hasAccount h he
    · exact Tr.refl hash160 h
  | dequeue => exact tr_of_equiv hash160 h (dequeue_equiv s)

theorem foldl_applyMid_tr (hash160 : Bytes → Bytes) (b : Block) : ∀ (ops : List MidOp) (s : State), Inv b.now s →
    Tr hash160 b.now s (ops.foldl (applyMid hash160 b) s)
  | [], _, h => Tr.refl hash160 h
  | op :: ops, s, h => by
    rw [List.foldl_cons]
    have t1 := applyMid_tr hash160 b op h
    exact t1.trans (foldl_applyMid_tr hash160 b ops _ t1.inv)

/-- **a whole block (up to EndBlocker) is a transition** -/
theorem blockStep_tr (hash160 : Bytes → Bytes) {s : State} (b : Block) (h : Inv b.now s) :
    Tr hash160 b.now s (blockStep hash160 s b) := by
  unfold blockStep
  have t1 := applyBegin_tr hash160 b h
  exact t1.trans (foldl_applyMid_tr hash160 b b.ops _ t1.inv)

/-- **the block relation**: `t` is the state before the next EndBlocker, reached from a block-boundary
    state `s` by BeginBlock and any sequence of request batches / dequeues -/
def R (hash160 : Bytes → Bytes) (s t : State) : Prop :=
  Start s ∧ KeyOk hash160 s ∧ ∃ b : Block, t = blockStep hash160 s b

/-- **the rest of the block satisfies `C13H.Between`** -/
theorem between_R (hash160 : Bytes → Bytes) : C13H.Between (R hash160) where
  rankOk := by
    rintro s t ⟨hs, _, b, rfl⟩ _
    exact rankOk_of_inv (blockStep_tr hash160 b (hs.inv b.now)).inv
  pkInj := by
    rintro s t ⟨hs, hk, b, rfl⟩ _ _
    exact pkInj_of_keyOk ((blockStep_tr hash160 b (hs.inv b.now)).key hk)
  valset := by
    rintro s t ⟨hs, _, b, rfl⟩
    exact (blockStep_tr hash160 b (hs.inv b.now)).valset
  pk := by
    rintro s t ⟨hs, _, b, rfl⟩ a ha
    obtain ⟨p, hp⟩ := exists_of_mem_keys ha
    obtain ⟨v, hv⟩ := hs.rankOk.valset_rec a p hp
    obtain ⟨w, hw, hpk⟩ := (blockStep_tr hash160 b (hs.inv b.now)).pk a v hv
    unfold C13H.pkOf
    rw [hv, hw]
    simp [hpk]

/-- a chain of blocks: each block's pre-EndBlocker state, EndBlocker, CometBFT's update -/
def runBlocks (hash160 : Bytes → Bytes) : State → Comet.VSet → List Block → Option (State × Comet.VSet)
  | s, cs, [] => some (s, cs)
  | s, cs, b :: bs =>
    match C13H.blockEnd (blockStep hash160 s b) cs with
    | some (s', cs') => runBlocks hash160 s' cs' bs
    | none => none

/-- no block runs into one of the two excluded failure modes (total power above CometBFT's maximum —
    F6b; emptied set — F10) -/
def Safe (hash160 : Bytes → Bytes) : State → Comet.VSet → List Block → Prop
  | _, _, [] => True
  | s, cs, b :: bs =>
    C13H.SafeBlock (blockStep hash160 s b) ∧
    ∀ s' cs', C13H.blockEnd (blockStep hash160 s b) cs = some (s', cs') → Safe hash160 s' cs' bs

/-- the states in which the successive EndBlockers run -/
def mids (hash160 : Bytes → Bytes) : State → Comet.VSet → List Block → List State
  | _, _, [] => []
  | s, cs, b :: bs =>
    blockStep hash160 s b ::
      (match C13H.blockEnd (blockStep hash160 s b) cs with
       | some (s', cs') => mids hash160 s' cs' bs
       | none => [])

theorem run_mids (hash160 : Bytes → Bytes) : ∀ (bs : List Block) (s : State) (cs : Comet.VSet),
    C13H.run s cs (mids hash160 s cs bs) = runBlocks hash160 s cs bs
  | [], _, _ => rfl
  | b :: bs, s, cs => by
    unfold mids runBlocks C13H.run
    cases hb : C13H.blockEnd (blockStep hash160 s b) cs with
    | none => rfl
    | some r =>
      obtain ⟨s', cs'⟩ := r
      exact run_mids hash160 bs s' cs'

theorem blockEnd_some {t s' : State} {cs cs' : Comet.VSet} (h : C13H.blockEnd t cs = some (s', cs')) :
    ∃ ups, endBlocker t = .ok (s', ups) := by
  unfold C13H.blockEnd at h
  split at h
  · rename_i s2 ups he
    split at h
    · cases h; exact ⟨ups, he⟩
    · cases h
  · cases h

/-- the chain of blocks is `Linked` in the sense of C13H -/
theorem linked_mids (hash160 : Bytes → Bytes) : ∀ (bs : List Block) (s : State) (cs : Comet.VSet),
    Start s → KeyOk hash160 s → Safe hash160 s cs bs → C13H.Linked (R hash160) s cs (mids hash160 s cs bs)
  | [], _, _, _, _, _ => trivial
  | b :: bs, s, cs, hs, hk, hsafe => by
    unfold mids
    refine ⟨⟨hs, hk, b, rfl⟩, hsafe.1, ?_⟩
    intro s' cs' hb
    rw [hb]
    obtain ⟨ups, he⟩ := blockEnd_some hb
    have ht := blockStep_tr hash160 b (hs.inv b.now)
    exact linked_mids hash160 bs s' cs' (start_after_endBlocker ht.inv he)
      (keyOk_after_endBlocker ht.inv (ht.key hk) he) (hsafe.2 s' cs' hb)

theorem mids_take (hash160 : Bytes → Bytes) : ∀ (bs : List Block) (s : State) (cs : Comet.VSet) (n : Nat),
    (mids hash160 s cs bs).take n = mids hash160 s cs (bs.take n)
  | [], _, _, n => by simp [mids]
  | _ :: _, _, _, 0 => by simp [mids]
  | b :: bs, s, cs, n + 1 => by
    rw [List.take_succ_cons]
    unfold mids
    rw [List.take_succ_cons]
    congr 1
    cases hb : C13H.blockEnd (blockStep hash160 s b) cs with
    | none => simp
    | some r =>
      obtain ⟨s', cs'⟩ := r
      exact mids_take hash160 bs s' cs' n

/-- **(C13, accumulated from genesis, with no `RankOk` hypothesis left)**
    From a block-boundary state satisfying `Start` (e.g. an imported genesis) whose addresses are the
    hashes of the consensus keys, with CometBFT holding the recorded set: after every prefix of any
    chain of blocks — arbitrary votes, evidence, request batches, each batch committed or discarded —
    in which no block hits one of the two excluded failure modes, every EndBlocker has succeeded, every
    update list has been accepted, and CometBFT's set equals the module's record.
    Obtained by instantiating `C13H.sync_after_every_block` with `between_R`. -/
theorem sync_chain (hash160 : Bytes → Bytes) (bs : List Block) (s : State) (cs : Comet.VSet)
    (hs : Start s) (hk : KeyOk hash160 s) (hsync : C13H.Sync s cs) (hsafe : Safe hash160 s cs bs) (n : Nat) :
    ∃ s' cs', runBlocks hash160 s cs (bs.take n) = some (s', cs') ∧ C13H.RankOk s' ∧ C13H.Sync s' cs' := by
  have hg : C13H.Good s cs := ⟨hs.rankOk, pkInj_of_keyOk hk, hsync⟩
  obtain ⟨s', cs', hrun, hr, hsy⟩ := C13H.sync_after_every_block (between_R hash160) (mids hash160 s cs bs) s cs hg
    (linked_mids hash160 bs s cs hs hk hsafe) n
  rw [mids_take, run_mids] at hrun
  exact ⟨s', cs', hrun, hr, hsy⟩

/-- the boundary invariant itself is carried along the chain -/
theorem start_chain (hash160 : Bytes → Bytes) : ∀ (bs : List Block) (s : State) (cs : Comet.VSet) (s' : State)
    (cs' : Comet.VSet), Start s → KeyOk hash160 s → runBlocks hash160 s cs bs = some (s', cs') →
    Start s' ∧ KeyOk hash160 s'
  | [], s, cs, s', cs', hs, hk, hrun => by
    unfold runBlocks at hrun
    cases hrun
    exact ⟨hs, hk⟩
  | b :: bs, s, cs, s', cs', hs, hk, hrun => by
    unfold runBlocks at hrun
    cases hb : C13H.blockEnd (blockStep hash160 s b) cs with
    | none => rw [hb] at hrun; cases hrun
    | some r =>
      obtain ⟨s1, cs1⟩ := r
      rw [hb] at hrun
      obtain ⟨ups, he⟩ := blockEnd_some hb
      have ht := blockStep_tr hash160 b (hs.inv b.now)
      exact start_chain hash160 bs s1 cs1 s' cs' (start_after_endBlocker ht.inv he)
        (keyOk_after_endBlocker ht.inv (ht.key hk) he) hrun

/-- **EndBlocker never fails after any block** from a block-boundary state, and re-establishes the
    boundary invariant (no hypothesis on votes, evidence or requests; no `Safe` needed) -/
theorem endBlocker_never_fails_after_block (hash160 : Bytes → Bytes) {s : State} (hs : Start s) (b : Block) :
    ∃ s' ups, endBlocker (blockStep hash160 s b) = .ok (s', ups) ∧ Start s' := by
  have ht := blockStep_tr hash160 b (hs.inv b.now)
  obtain ⟨s', ups, he⟩ := C13H.endBlocker_never_fails (rankOk_of_inv ht.inv)
  exact ⟨s', ups, he, start_after_endBlocker ht.inv he⟩

/-- the locking module alone along a chain of blocks -/
def runLocking (hash160 : Bytes → Bytes) : State → List Block → Option State
  | s, [] => some s
  | s, b :: bs =>
    match endBlocker (blockStep hash160 s b) with
    | .ok (s', _) => runLocking hash160 s' bs
    | _ => none

/-- **for any history of votes, evidence and execution-layer requests no EndBlocker fails** -/
theorem endBlockers_never_fail (hash160 : Bytes → Bytes) : ∀ (bs : List Block) (s : State), Start s →
    ∃ s', runLocking hash160 s bs = some s' ∧ Start s'
  | [], s, hs => ⟨s, rfl, hs⟩
  | b :: bs, s, hs => by
    obtain ⟨s1, ups, he, hs1⟩ := endBlocker_never_fails_after_block hash160 hs b
    obtain ⟨s2, hrun, hs2⟩ := endBlockers_never_fail hash160 bs s1 hs1
    refine ⟨s2, ?_, hs2⟩
    unfold runLocking
    rw [he]
    exact hrun

/-! ### genesis -/

/-- C18's `Derived` (what the import establishes) gives the boundary invariant, given distinct
    addresses and sane parameters -/
theorem start_of_derived {s : State} (hd : C18.Derived s) (hn : (s.validators.map (·.1)).Nodup)
    (hm : 0 ≤ s.params.maxValidators) (hj : 0 ≤ s.params.downtimeJail) : Start s where
  rankOk := C13H.rankOk_of_derived hd hn hm
  members_active := by
    intro a v ha hv
    obtain ⟨p, hp'⟩ := exists_of_mem_keys ha
    obtain ⟨w, hw, hact, _⟩ := (hd.valset_mem a p).mp hp'
    have := C18.assoc_unique _ hn a v w (C13H.mem_of_vget hv) hw
    subst this
    exact hact
  idx_ok := by
    intro d a x hmem
    obtain ⟨v, hv, hel, hc⟩ := (hd.idx_mem d a x).mp hmem
    exact ⟨v, C13H.vget_of_mem hn hv, Or.inl ⟨hel, fun _ => List.mem_map.mpr ⟨(d, x), hc, rfl⟩⟩⟩
  jail_nonneg := hj

/-- **an imported genesis satisfies everything the chain theorem asks of the initial state** -/
theorem start_of_genesis (h : Bytes → Bytes) (g : Genesis.LGenesis) (wf : C18.WfGenesis h g)
    (hnn : ∀ t ∈ g.tokens, 0 ≤ t.2.threshold)
    (hm : 0 ≤ g.params.maxValidators) (hj : 0 ≤ g.params.downtimeJail) :
    Genesis.initGenesis h g = .ok (Genesis.initGenesisCore h g) ∧
    Start (Genesis.initGenesisCore h g).1 ∧ KeyOk h (Genesis.initGenesisCore h g).1 := by
  obtain ⟨hok, hder⟩ := C18.initGenesis_establishes_Derived h g wf hnn
  obtain ⟨sl, uq, hspec, _, _⟩ := C18.initGenesisCore_spec h g wf
  have hvals : (Genesis.initGenesisCore h g).1.validators = C18.keyed h g.validators := by rw [hspec]
  have hpar : (Genesis.initGenesisCore h g).1.params = g.params := by rw [hspec]
  have hn : ((Genesis.initGenesisCore h g).1.validators.map (·.1)).Nodup := by
    rw [hvals]
    unfold C18.keyed
    rw [List.map_map]
    exact wf.vals
  refine ⟨hok, start_of_derived hder hn (by rw [hpar]; exact hm) (by rw [hpar]; exact hj), ?_⟩
  · intro a v hv
    have hmem := C13H.mem_of_vget hv
    rw [hvals] at hmem
    unfold C18.keyed at hmem
    obtain ⟨w, _, heq⟩ := List.mem_map.mp hmem
    have h1 : h w.pubkey = a := congrArg Prod.fst heq
    have h2 : w = v := congrArg Prod.snd heq
    subst h2
    exact h1

/-- **the chain theorem from an imported genesis**: CometBFT is handed the recorded set at InitChain -/
theorem sync_chain_genesis (h : Bytes → Bytes) (g : Genesis.LGenesis) (wf : C18.WfGenesis h g)
    (hnn : ∀ t ∈ g.tokens, 0 ≤ t.2.threshold)
    (hm : 0 ≤ g.params.maxValidators) (hj : 0 ≤ g.params.downtimeJail) (bs : List Block)
    (hsafe : Safe h (Genesis.initGenesisCore h g).1 (C13H.cometOf (Genesis.initGenesisCore h g).1) bs) (n : Nat) :
    ∃ s' cs', runBlocks h (Genesis.initGenesisCore h g).1 (C13H.cometOf (Genesis.initGenesisCore h g).1) (bs.take n)
        = some (s', cs') ∧ C13H.RankOk s' ∧ C13H.Sync s' cs' := by
  obtain ⟨_, hs, hk⟩ := start_of_genesis h g wf hnn hm hj
  exact sync_chain h bs _ _ hs hk (C13H.sync_genesis _) hsafe n

/-! ## 4. the hypothesis `0 ≤ downtimeJail` is necessary -/

section Jail

def cxV : Validator :=
  { pubkey := [1], power := 5, locking := [("goat", 5000000000000000000)], reward := 0, gasReward := 0, status := .active,
    offset := 0, missed := 0, jailedUntil := 0 }

def cxParams (jail : Int) : Params :=
  { (default : Params) with downtimeJail := jail, maxValidators := 2, maxMissed := 1, signedBlocksWindow := 100,
                            slashDowntime := 500000000000000000 }

/-- one Active validator `[1]` (key `[1]`, `hash160 = id`), power 5, recorded; jail period `jail` -/
def cxS (jail : Int) : State :=
  { (default : State) with
    params := cxParams jail,
    validators := [([1], cxV)],
    lockingIdx := [(("goat", [1]), 5000000000000000000)],
    ranking := [(5, [1])],
    valset := [([1], 5)],
    tokens := [("goat", { weight := 1, threshold := 0 })] }

/-- a block at time 100: the validator misses its vote (BeginBlock jails it until `100 + jail`), then a
    lock request for it arrives in the same block -/
def cxBlock : Block :=
  { height := 1, now := 100, votes := [{ address := [1], power := 5, absent := true }], maxAge := none, evs := [],
    ops := [.process (fun _ => false)
      { gas := [0], locks := [{ validator := [1], token := "goat", amount := 2000000000000000000 }] }] }

theorem cx_start : Start (cxS 0) :=
  start_of_derived (by decide +kernel) (by decide) (by decide) (by decide)

theorem cx_keyOk (jail : Int) : KeyOk id (cxS jail) := by
  intro a v hv
  have hm := C13H.mem_of_vget hv
  simp only [cxS, List.mem_cons, Prod.mk.injEq, List.not_mem_nil, or_false] at hm
  obtain ⟨rfl, rfl⟩ := hm
  rfl

/-- with `downtimeJail = 0` (any non-negative value) the block is harmless: EndBlocker succeeds -/
theorem jail_nonneg_ok : ∃ s' ups, endBlocker (blockStep id (cxS 0) cxBlock) = .ok (s', ups) :=
  C13H.endBlocker_never_fails (rankOk_of_inv (blockStep_tr id cxBlock (cx_start.inv cxBlock.now)).inv)

/-- **with `downtimeJail = -10` the same block breaks `pending_out`**: the validator jailed in BeginBlock
    (until 90 < 100) is re-locked to Pending by the lock request of the same block while it is still in
    the recorded set … -/
theorem jail_negative_breaks_invariant :
    (vget (blockStep id (cxS (-10)) cxBlock) [1]).map (fun v => (v.status, v.power)) = some (.pending, 4) ∧
    (blockStep id (cxS (-10)) cxBlock).valset = [([1], 5)] ∧
    (blockStep id (cxS (-10)) cxBlock).ranking = [(4, [1])] := by
  decide +kernel

/-- … **and EndBlocker fails** with "pending-in-set" (in the Go code: an error returned from EndBlocker,
    i.e. a consensus failure).  The initial state differs from `cxS 0` (which satisfies `Start`, `cx_start`)
    only in the sign of the jail period. -/
theorem jail_negative_endBlocker_fails :
    (endBlocker (blockStep id (cxS (-10)) cxBlock)).cls = "err:pending-in-set" := by
  decide +kernel

end Jail

/-! ## 5. non-vacuity: an imported genesis and a block that exercises every writer of the ranking -/

section Examples

def exParams : Params :=
  { (default : Params) with downtimeJail := 60, maxValidators := 2, maxMissed := 1, signedBlocksWindow := 100,
                            slashDowntime := 500000000000000000, unlockDuration := 10, exitingDuration := 20 }

def exVal (pk : Bytes) (pw : Nat) (amt : Int) : Validator :=
  { pubkey := pk, power := pw, locking := [("goat", amt)], reward := 0, gasReward := 0, status := .active,
    offset := 0, missed := 0, jailedUntil := 0 }

/-- genesis: two Active validators (`hash160 = id`: address = key), one token of weight 1 -/
def exGenesis : Genesis.LGenesis :=
  { params := exParams,
    validators := [exVal [11] 5 5000000000000000000, exVal [12] 3 3000000000000000000],
    tokens := [("goat", { weight := 1, threshold := 0 })],
    slashed := [], nonce := 0, qRewards := [], qUnlocks := [], pool := { goat := 0, gas := 0, remain := 0 }, unlockQueue := [] }

def ex0 : State := (Genesis.initGenesisCore id exGenesis).1

/-- block at height 5, time 100: `[12]` misses its vote (→ Downgrade, power 0, un-ranked, slashed);
    then one batch: the token weight doubles (`onWeightChanged`: `[11]` 5 → 10), `[13]` is created
    (Pending, power 0), `[11]` locks 2 more (→ 14) and unlocks 1 (→ 12), `[11]` claims; then a dequeue -/
def exBlock : Block :=
  { height := 5, now := 100,
    votes := [{ address := [11], power := 5, absent := false }, { address := [12], power := 3, absent := true }],
    maxAge := none, evs := [],
    ops := [.process (fun _ => false)
              { gas := [7], weights := [("goat", 2)], creates := [{ validator := [13], compressed := [13] }],
                locks := [{ validator := [11], token := "goat", amount := 2000000000000000000 }],
                unlocks := [{ id := 1, validator := [11], recipient := [99], token := "goat", tokenAddr := [],
                              amount := 1000000000000000000 }],
                claims := [{ id := 2, validator := [11], recipient := [99] }] },
            .dequeue] }

/-- the import succeeds and establishes everything `sync_chain` asks of the initial state -/
theorem ex0_start : Start ex0 ∧ KeyOk id ex0 :=
  (start_of_genesis id exGenesis (by decide) (by decide) (by decide) (by decide)).2

/-- the invariant holds in the state in which the block's EndBlocker runs (by the theorems) … -/
theorem ex_inv : Inv 100 (blockStep id ex0 exBlock) :=
  (blockStep_tr id exBlock (ex0_start.1.inv 100)).inv

/-- … and that state is the expected one (by evaluation): every request was committed -/
theorem ex_state :
    (blockStep id ex0 exBlock).ranking = [(12, [11])] ∧
    (blockStep id ex0 exBlock).valset = [([11], 5), ([12], 3)] ∧
    (vget (blockStep id ex0 exBlock) [11]).map (fun v => (v.status, v.power)) = some (.active, 12) ∧
    (vget (blockStep id ex0 exBlock) [12]).map (fun v => (v.status, v.power, v.jailedUntil)) = some (.downgrade, 0, 160) ∧
    (vget (blockStep id ex0 exBlock) [13]).map (fun v => (v.status, v.power)) = some (.pending, 0) := by
  decide +kernel

theorem ex_top : C13H.top (blockStep id ex0 exBlock) = [(12, [11])] := by decide +kernel

theorem ex_safe : Safe id ex0 (C13H.cometOf ex0) [exBlock] := by
  refine ⟨?_, fun _ _ _ => trivial⟩
  intro s' ups he
  have hr := rankOk_of_inv ex_inv
  constructor
  · rw [C13H.total_after hr he, ex_top]; decide
  · intro h0
    have := (C13H.empty_after_iff hr he).mp h0
    rw [ex_top] at this
    cases this

/-- the chain theorem applies: its hypotheses are satisfiable -/
theorem ex_chain : ∃ s' cs', runBlocks id ex0 (C13H.cometOf ex0) [exBlock] = some (s', cs') ∧
    C13H.RankOk s' ∧ C13H.Sync s' cs' :=
  sync_chain id [exBlock] ex0 (C13H.cometOf ex0) ex0_start.1 ex0_start.2 (C13H.sync_genesis ex0) ex_safe 1

/-- the same by evaluation: EndBlocker reports the new power of key `[11]` and the removal of key `[12]`;
    CometBFT's set and the recorded set are both `{[11] ↦ 12}` -/
theorem ex_run : (runBlocks id ex0 (C13H.cometOf ex0) [exBlock]).map (fun r => (r.1.valset, r.2)) =
    some ([([11], 12)], [([11], 12)]) := by
  decide +kernel

end Examples

end Goat.C13B
