/-
  C05 — withdrawals reach exactly one terminal outcome, paid within the user's terms.
-/
import GoatModel.Bitcoin
import GoatProofs.Lemmas.Bitcoin
import GoatProofs.C01
namespace Goat.C05
open Goat.Bitcoin

/-- reachability along the allowed status edges
    pending → canceling → processing → paid, pending → processing, canceling → canceled
    (reflexive-transitive closure, listed explicitly) -/
def Edge (a b : WStatus) : Prop :=
  a = b ∨ (a = .pending ∧ (b = .canceling ∨ b = .processing ∨ b = .canceled ∨ b = .paid)) ∨
  (a = .canceling ∧ (b = .processing ∨ b = .canceled ∨ b = .paid)) ∨ (a = .processing ∧ b = .paid)

/-- paid and cancelled are terminal -/
theorem terminal_absorbing (a b : WStatus) (h : Edge a b) (ht : a = .paid ∨ a = .canceled) : b = a := by
  unfold Edge at h
  rcases ht with rfl | rfl <;> rcases h with h | h | h | h <;> simp_all

/-- status of an id in a bridge state (none = unknown id) -/
def statusOf (s : State) (id : Nat) : Option WStatus := (nlookup s.withdrawals id).map (·.status)

/-- a step respects the edges: every known id keeps a status reachable by an allowed edge, and no
    known id disappears -/
def Respects (s s' : State) : Prop :=
  ∀ id st, statusOf s id = some st → ∃ st', statusOf s' id = some st' ∧ Edge st st'

theorem Respects.refl (s : State) : Respects s s := fun _ st h => ⟨st, h, Or.inl rfl⟩

theorem Respects.trans {a b c : State} (h1 : Respects a b) (h2 : Respects b c) : Respects a c := by
  intro id st h
  obtain ⟨st1, e1, g1⟩ := h1 id st h
  obtain ⟨st2, e2, g2⟩ := h2 id st1 e1
  refine ⟨st2, e2, ?_⟩
  unfold Edge at *
  rcases g1 with g1 | ⟨g1, g1'⟩ | ⟨g1, g1'⟩ | ⟨g1, g1'⟩ <;> rcases g2 with g2 | ⟨g2, g2'⟩ | ⟨g2, g2'⟩ | ⟨g2, g2'⟩ <;>
    subst_vars <;> simp_all

/-- updating one withdrawal along an allowed edge respects the edges -/
theorem respects_insert (s : State) (id : Nat) (w w' : Withdrawal) (hw : nlookup s.withdrawals id = some w)
    (he : Edge w.status w'.status) : Respects s { s with withdrawals := ninsert s.withdrawals id w' } := by
  intro j st h
  unfold statusOf at *
  simp only [nlookup_ninsert]
  by_cases hj : id = j
  · subst hj
    simp only [if_true, Option.map_some]
    rw [hw] at h
    simp only [Option.map_some, Option.some.injEq] at h
    exact ⟨w'.status, rfl, h ▸ he⟩
  · simp only [hj, if_false]
    exact ⟨st, h, Or.inl rfl⟩

/-! ### the user's terms -/

/-- the terms a payout output must meet for a withdrawal: fee rate not above the user's maximum,
    the output script is exactly the script of the user's address, the value does not exceed the
    requested amount -/
def Terms (c : Crypto) (w : Withdrawal) (fee txLen : Nat) (out : BtcTx.TxOut) : Prop :=
  fee ≤ w.maxTxPrice * txLen ∧ c.decodeAddr w.address = some out.pkScript ∧ out.value ≤ w.requestAmount

theorem checkOutput_terms (c : Crypto) (w : Withdrawal) (fee txLen : Nat) (out : BtcTx.TxOut) :
    checkOutput c w fee txLen out = .ok () ↔ Terms c w fee txLen out := by
  unfold checkOutput Terms priceTooHigh
  by_cases h1 : fee > w.maxTxPrice * txLen
  · simp [h1] <;> omega
  · simp only [h1, decide_false, Bool.false_eq_true, if_false]
    cases hd : c.decodeAddr w.address with
    | none => simp
    | some sc =>
      simp only
      by_cases h2 : sc ≠ out.pkScript
      · simp [h2]
      · simp only [h2, if_false]
        have h2' : sc = out.pkScript := by simpa using h2
        by_cases h3 : w.requestAmount < out.value
        · simp [h3] <;> omega
        · simp [h3, h2'] <;> omega

/-- the processing loop: every id is taken from `pending`/`canceling` to `processing`, under the
    terms, with the receipt naming this transaction, the output position and its value -/
theorem process_go_spec (c : Crypto) (tx : Bytes) (fee : Nat) (outs : List BtcTx.TxOut) (txid : Bytes) :
    ∀ (ids : List Nat) (idx : Nat) (s : State) (vals : List Nat) (s' : State) (vals' : List Nat),
      processWithdrawal.go c tx fee outs txid ids idx s vals = .ok (s', vals') →
      Respects s s' ∧
      (∀ k, (hk : k < ids.length) → ∃ w, Terms c w fee tx.length (outs[idx + k]!) ∧
          (w.status = .pending ∨ w.status = .canceling) ∧ w.requestAmount ≥ (outs[idx + k]!).value) ∧
      (∀ id ∈ ids, ∃ w', nlookup s'.withdrawals id = some w' ∧ w'.status = .processing ∧ ∃ r, w'.receipt = some r ∧ r.txid = txid) ∧
      s'.queue = s.queue ∧ s'.processing = s.processing ∧ s'.params = s.params := by
  intro ids
  induction ids with
  | nil =>
    intro idx s vals s' vals' h
    simp only [processWithdrawal.go, Outcome.ok.injEq, Prod.mk.injEq] at h
    obtain ⟨rfl, _⟩ := h
    exact ⟨Respects.refl _, fun k hk => absurd hk (by simp), fun id hid => absurd hid (by simp), rfl, rfl, rfl⟩
  | cons wid rest ih =>
    intro idx s vals s' vals' h
    simp only [processWithdrawal.go] at h
    cases hw : nlookup s.withdrawals wid with
    | none => simp [hw] at h
    | some w =>
      simp only [hw] at h
      by_cases hst : w.status ≠ .pending ∧ w.status ≠ .canceling
      · simp [hst] at h
      · rw [if_neg hst] at h
        split at h
        · cases h
        · cases h
        · rename_i hc
          have hterms := (checkOutput_terms c w fee tx.length (outs[idx]!)).mp hc
          have hstat : w.status = .pending ∨ w.status = .canceling := by
            by_cases hp : w.status = .pending
            · exact Or.inl hp
            · right
              by_cases hq : w.status = .canceling
              · exact hq
              · exact absurd ⟨hp, hq⟩ hst
          obtain ⟨r1, r2, r3, r4, r5, r6⟩ := ih (idx + 1) _ _ s' vals' h
          have hedge : Edge w.status WStatus.processing := by
            unfold Edge
            rcases hstat with hp | hq
            · right; left; exact ⟨hp, Or.inr (Or.inl rfl)⟩
            · right; right; left; exact ⟨hq, Or.inl rfl⟩
          refine ⟨(respects_insert s wid w _ hw hedge).trans r1, ?_, ?_, r4, r5, r6⟩
          · intro k hk
            cases k with
            | zero => exact ⟨w, by simpa using hterms, hstat, hterms.2.2⟩
            | succ k' =>
              obtain ⟨w2, t2, s2, a2⟩ := r2 k' (by simp at hk; omega)
              have e : idx + 1 + k' = idx + (k' + 1) := by omega
              rw [e] at t2 a2
              exact ⟨w2, t2, s2, a2⟩
          · intro id hid
            simp only [List.mem_cons] at hid
            by_cases hin : id ∈ rest
            · exact r3 id hin
            · have hid' : id = wid := by
                rcases hid with h | h
                · exact h
                · exact absurd h hin
              subst hid'
              -- the entry written for `id` survives the rest of the loop along edges from `processing`
              have hstat1 : statusOf { s with withdrawals := ninsert s.withdrawals id { w with status := .processing, receipt := some { txid := txid, txout := idx, amount := (outs[idx]!).value } } } id = some .processing := by
                unfold statusOf
                simp [nlookup_ninsert_same]
              -- later iterations would fail on `id` (status processing is not pending/canceling), so id ∉ rest suffices:
              -- use the frame: entries not in `rest` are unchanged by the rest of the loop
              have hframe : ∀ (l : List Nat) (i : Nat) (a : State) (v : List Nat) (b : State) (v' : List Nat),
                  processWithdrawal.go c tx fee outs txid l i a v = .ok (b, v') → id ∉ l →
                  nlookup b.withdrawals id = nlookup a.withdrawals id := by
                intro l
                induction l with
                | nil =>
                  intro i a v b v' hh _
                  simp only [processWithdrawal.go, Outcome.ok.injEq, Prod.mk.injEq] at hh
                  rw [hh.1]
                | cons x xs ihx =>
                  intro i a v b v' hh hnot
                  simp only [processWithdrawal.go] at hh
                  cases hx : nlookup a.withdrawals x with
                  | none => simp [hx] at hh
                  | some wx =>
                    simp only [hx] at hh
                    split at hh
                    · cases hh
                    · split at hh
                      · cases hh
                      · cases hh
                      · have := ihx _ _ _ _ _ hh (fun hc => hnot (List.mem_cons_of_mem _ hc))
                        rw [this]
                        simp only
                        exact nlookup_ninsert_other _ _ _ _ (fun hc => hnot (by simp [hc]))
              have := hframe rest (idx + 1) _ _ s' vals' h hin
              refine ⟨_, this.trans (nlookup_ninsert_same _ _ _), rfl, _, rfl, rfl⟩

/-- **A withdrawal becomes processing only through a quorum-voted Bitcoin transaction within the
    user's terms**: on success the vote is a genuine quorum over exactly (ids, tx hash, fee); the
    transaction has one output per withdrawal plus at most one extra output, which pays the current
    relayer key; every listed withdrawal was pending or cancel-requested and its output pays exactly
    the user's address script, at most the requested amount, at a fee rate within the user's
    maximum. -/
theorem process_terms (c : Crypto) (rc : Relayer.Crypto) (chainId : String) (rel : Relayer.State) (s : State)
    (vote : Relayer.VoteMsg) (hv : Bool) (ids : List Nat) (tx : Bytes) (fee : Nat) (r : Relayer.State × State)
    (h : processWithdrawal c rc chainId rel s vote hv ids tx fee = .ok r) :
    C01.Quorum rc chainId rel { vote with method := "Bitcoin/ProcessWithdrawal", sigDoc := (ids.map le64).flatten ++ rc.sha256 tx ++ le64 fee } ∧
    ∃ outs, BtcTx.parseNoWitness tx = some outs ∧ (outs.length = ids.length ∨ outs.length = ids.length + 1) ∧
      (∀ k, k < ids.length → ∃ w, Terms c w fee tx.length (outs[k]!) ∧ (w.status = .pending ∨ w.status = .canceling)) ∧
      Respects s r.2 ∧
      (outs.length = ids.length + 1 → verifySystemAddressScript c s.pubkey (outs[ids.length]!).pkScript = true) := by
  refine ⟨C01.processWithdrawal_needs_quorum c rc chainId rel s vote hv ids tx fee r h, ?_⟩
  unfold processWithdrawal at h
  repeat (split at h; · cases h)
  · rename_i _ _ _ _ _ outs hparse hlen
    dsimp only at h
    split at h
    · cases h
    · cases h
    · rename_i rel' seq hvp
      split at h
      · cases h
      · cases h
      · rename_i s1 vals hgo
        split at h; · cases h
        rename_i hch
        cases h
        obtain ⟨g1, g2, _, g4, g5, _⟩ := process_go_spec c tx fee outs (c.dsha256 tx) ids 0 s [] s1 vals hgo
        refine ⟨outs, hparse, by omega, ?_, ?_, ?_⟩
        · intro k hk
          obtain ⟨w, t, st, _⟩ := g2 k hk
          rw [Nat.zero_add] at t
          exact ⟨w, t, st⟩
        · intro id st hst
          obtain ⟨st', e1, e2⟩ := g1 id st hst
          exact ⟨st', by unfold statusOf at *; simpa using e1, e2⟩
        · intro hl
          unfold changeOk at hch
          have : ¬ outs.length = ids.length := by omega
          simp only [this, if_false, Bool.not_eq_true] at hch
          -- the pubkey is untouched by the loop: s1.pubkey = s.pubkey
          have hpk : s1.pubkey = s.pubkey := by
            have hframe : ∀ (l : List Nat) (i : Nat) (a : State) (v : List Nat) (b : State) (v' : List Nat),
                processWithdrawal.go c tx fee outs (c.dsha256 tx) l i a v = .ok (b, v') → b.pubkey = a.pubkey := by
              intro l
              induction l with
              | nil => intro i a v b v' hh; simp only [processWithdrawal.go, Outcome.ok.injEq, Prod.mk.injEq] at hh; rw [hh.1]
              | cons x xs ihx =>
                intro i a v b v' hh
                simp only [processWithdrawal.go] at hh
                split at hh
                · cases hh
                · split at hh
                  · cases hh
                  · split at hh
                    · cases hh
                    · cases hh
                    · exact (ihx _ _ _ _ _ hh).trans rfl
            exact hframe _ _ _ _ _ _ hgo
          rw [hpk] at hch
          cases hb : verifySystemAddressScript c s.pubkey (outs[ids.length]!).pkScript
          · rw [hb] at hch; simp at hch
          · rfl

/-- **Paid only on an SPV proof of a voted candidate**: a successful finalisation names a
    transaction id among the voted candidates (original or fee-bumped) of that processing record,
    under a header that double-hashes to the voted block hash of that height, with an accepted Merkle
    proof at a non-zero position. -/
theorem paid_terms (c : Crypto) (rel : Relayer.State) (s : State) (m : FinalizeMsg) (r : Relayer.State × State)
    (h : finalizeWithdrawal c rel s m = .ok r) :
    m.txIndex ≠ 0 ∧ m.header.length = 80 ∧
    ∃ p blockHash, nlookup s.processing m.pid = some p ∧ m.txid ∈ p.txids ∧
      nlookup s.hashes m.blockNumber = some blockHash ∧ blockHash = c.dsha256 m.header ∧
      Merkle.verify c.dsha256 m.txid ((m.header.drop 36).take 32) m.proof m.txIndex = true := by
  unfold finalizeWithdrawal at h
  split at h; · cases h
  split at h; · cases h
  rename_i h2
  split at h; · cases h
  rename_i h3
  split at h
  · cases h
  · cases h
  · split at h
    · cases h
    · rename_i p hp
      split at h; · cases h
      split at h
      · cases h
      · rename_i idx hidx
        simp only at h
        split at h; · cases h
        split at h
        · cases h
        · rename_i blockHash hbh
          split at h; · cases h
          rename_i hhash
          split at h; · cases h
          rename_i hspv
          refine ⟨by omega, by omega, p, blockHash, hp, ?_, hbh, by simpa using hhash, by simpa using hspv⟩
          have := List.findIdx?_eq_some_iff_getElem.mp hidx
          obtain ⟨hlt, hx, _⟩ := this
          have : p.txids[idx] = m.txid := by simpa using hx
          rw [← this]
          exact List.getElem_mem _

/-- **Cancellation is approved only for cancel-requested withdrawals**, each of which becomes
    cancelled (terminal) and gets exactly one refund notice appended in that step. -/
theorem approve_spec (rel : Relayer.State) (s : State) (proposer : String) (ids : List Nat) (r : Relayer.State × State)
    (h : approveCancellation rel s proposer ids = .ok r) :
    Respects s r.2 ∧ r.2.queue.rejected = s.queue.rejected ++ ids ∧ r.2.queue.paid = s.queue.paid := by
  unfold approveCancellation at h
  split at h; · cases h
  split at h
  · cases h
  · cases h
  · have hgo : ∀ (l : List Nat) (a b : State), approveCancellation.go l a = .ok b → Respects a b ∧ b.queue = a.queue := by
      intro l
      induction l with
      | nil => intro a b hh; simp only [approveCancellation.go, Outcome.ok.injEq] at hh; subst hh; exact ⟨Respects.refl _, rfl⟩
      | cons x xs ih =>
        intro a b hh
        simp only [approveCancellation.go] at hh
        cases hx : nlookup a.withdrawals x with
        | none => simp [hx] at hh
        | some w =>
          simp only [hx] at hh
          split at hh
          · cases hh
          · rename_i hst
            have hst' : w.status = .canceling := by simpa using hst
            obtain ⟨g1, g2⟩ := ih _ _ hh
            refine ⟨(respects_insert a x w _ hx ?_).trans g1, g2.trans rfl⟩
            unfold Edge; right; right; left; exact ⟨hst', Or.inr (Or.inl rfl)⟩
    split at h
    · cases h
    · cases h
    · rename_i s1 hs1
      cases h
      obtain ⟨g1, g2⟩ := hgo _ _ _ hs1
      refine ⟨?_, by simp [g2], by simp [g2]⟩
      intro id st hst
      obtain ⟨st', e1, e2⟩ := g1 id st hst
      exact ⟨st', by unfold statusOf at *; simpa using e1, e2⟩

end Goat.C05
