/-
  C17A — Bitcoin withdrawal-address decoding (second half of C17).
  Theorems about GoatModel.Addr, the executable model of x/bitcoin/types/address.go DecodeBtcAddress
  and of the btcd / btcutil library functions it calls.  A summary of every theorem is at the end.
-/
import GoatModel.Addr
namespace Goat.C17A
open Goat Goat.Addr

/-! ## lastIdx -/

theorem lastIdx_none {c : UInt8} : ∀ (bs : Bytes), lastIdx c bs = none → ∀ j : Nat, bs[j]? ≠ some c := by
  intro bs
  induction bs with
  | nil => intro _ j; simp
  | cons b rest ih =>
    intro h j
    unfold lastIdx at h
    split at h
    · cases h
    · rename_i hn
      split at h
      · cases h
      · rename_i hb
        cases j with
        | zero => simpa using hb
        | succ j => simpa using ih hn j

theorem lastIdx_some {c : UInt8} : ∀ (bs : Bytes) (i : Nat), lastIdx c bs = some i →
    i < bs.length ∧ bs[i]? = some c ∧ ∀ j : Nat, i < j → bs[j]? ≠ some c := by
  intro bs
  induction bs with
  | nil => intro i h; simp [lastIdx] at h
  | cons b rest ih =>
    intro i h
    unfold lastIdx at h
    split at h
    · rename_i k hk
      cases h
      obtain ⟨h1, h2, h3⟩ := ih k hk
      refine ⟨by simp; omega, by simpa using h2, ?_⟩
      intro j hj
      cases j with
      | zero => omega
      | succ j => simpa using h3 j (by omega)
    · rename_i hn
      split at h
      · rename_i hb
        cases h
        refine ⟨by simp, by simp [hb], ?_⟩
        intro j hj
        cases j with
        | zero => omega
        | succ j => simpa using lastIdx_none rest hn j
      · cases h

theorem ids_ne (net : Net) : net.p2pkhId ≠ net.p2shId := by cases net <;> decide

/-- what the segwit branch returns when it is taken -/
theorem segwitBranch_some {addr : Bytes} {a : Address} (h : segwitBranch addr = some (some a)) :
    ∃ one ver prog, lastIdx 0x31 addr = some one ∧ 1 < one ∧
      isBech32SegwitPrefix (addr.take (one + 1)) = true ∧
      decodeSegWit addr = some (ver, prog) ∧
      ((prog.length = 20 ∧ (ver = 0 ∨ ver = 1) ∧ a = .witnessPubKeyHash (lowerBytes (addr.take one)) prog) ∨
       (prog.length = 32 ∧ ver = 0 ∧ a = .witnessScriptHash (lowerBytes (addr.take one)) prog) ∨
       (prog.length = 32 ∧ ver = 1 ∧ a = .taproot (lowerBytes (addr.take one)) prog)) := by
  unfold segwitBranch at h
  cases hone : lastIdx 0x31 addr with
  | none => simp [hone] at h
  | some one =>
    have hlt := (lastIdx_some addr one hone).1
    have htake : (List.take (one + 1) addr).take ((List.take (one + 1) addr).length - 1) = addr.take one := by
      rw [List.take_take, List.length_take]
      congr 1
      omega
    simp only [hone] at h
    by_cases hgt : one > 1
    · simp only [hgt, if_true] at h
      by_cases hpre : isBech32SegwitPrefix (addr.take (one + 1)) = true
      · simp only [hpre, if_true, Option.some.injEq] at h
        cases hds : decodeSegWit addr with
        | none => simp [hds] at h
        | some vp =>
          obtain ⟨ver, prog⟩ := vp
          simp only [hds, htake] at h
          refine ⟨one, ver, prog, rfl, hgt, hpre, rfl, ?_⟩
          split at h
          · cases h
          · rename_i hv
            have hv' : ver = 0 ∨ ver = 1 := by omega
            split at h
            · rename_i h20
              cases h
              exact Or.inl ⟨h20, hv', rfl⟩
            · split at h
              · rename_i h32
                split at h
                · rename_i h1
                  cases h
                  exact Or.inr (Or.inr ⟨h32, h1, rfl⟩)
                · rename_i h1
                  cases h
                  exact Or.inr (Or.inl ⟨h32, by omega, rfl⟩)
              · cases h
      · simp [hpre] at h
    · simp [hgt] at h



/-- Inversion of the whole decision function. -/
theorem decodeBytes_inv {pk : Bytes → Bool} {net : Net} {addr sc : Bytes}
    (h : decodeBytes pk net addr = some sc) :
    (∃ one ver prog, lastIdx 0x31 addr = some one ∧ 1 < one ∧
      isBech32SegwitPrefix (addr.take (one + 1)) = true ∧
      decodeSegWit addr = some (ver, prog) ∧ lowerBytes (addr.take one) = net.hrp ∧
      ((prog.length = 20 ∧ (ver = 0 ∨ ver = 1) ∧ sc = [0x00, 0x14] ++ prog) ∨
       (prog.length = 32 ∧ ver = 0 ∧ sc = [0x00, 0x20] ++ prog) ∨
       (prog.length = 32 ∧ ver = 1 ∧ sc = [0x51, 0x20] ++ prog))) ∨
    (segwitBranch addr = none ∧ addr.length ≠ 130 ∧ addr.length ≠ 66 ∧
      ∃ payload id, checkDecode addr = some (payload, id) ∧ payload.length = 20 ∧
        ((id = net.p2pkhId ∧ sc = [0x76, 0xa9, 0x14] ++ payload ++ [0x88, 0xac]) ∨
         (id = net.p2shId ∧ sc = [0xa9, 0x14] ++ payload ++ [0x87]))) := by
  unfold decodeBytes at h
  cases hda : decodeAddress pk net addr with
  | none => simp [hda] at h
  | some a =>
    simp only [hda] at h
    by_cases hfor : a.isForNet net = true
    · simp only [hfor, Bool.not_true, Bool.false_eq_true, if_false] at h
      unfold decodeAddress at hda
      cases hsb : segwitBranch addr with
      | some r =>
        simp only [hsb] at hda
        subst hda
        obtain ⟨one, ver, prog, h1, h2, h3, h4, h5⟩ := segwitBranch_some hsb
        refine Or.inl ⟨one, ver, prog, h1, h2, h3, h4, ?_⟩
        rcases h5 with ⟨hl, hv, rfl⟩ | ⟨hl, hv, rfl⟩ | ⟨hl, hv, rfl⟩
        · simp only [Address.isForNet, decide_eq_true_eq] at hfor
          simp only [payToAddrScript, Option.some.injEq] at h
          exact ⟨hfor, Or.inl ⟨hl, hv, h.symm⟩⟩
        · simp only [Address.isForNet, decide_eq_true_eq] at hfor
          simp only [payToAddrScript, Option.some.injEq] at h
          exact ⟨hfor, Or.inr (Or.inl ⟨hl, hv, h.symm⟩)⟩
        · simp only [Address.isForNet, decide_eq_true_eq] at hfor
          simp only [payToAddrScript, Option.some.injEq] at h
          exact ⟨hfor, Or.inr (Or.inr ⟨hl, hv, h.symm⟩)⟩
      | none =>
        simp only [hsb] at hda
        right
        split at hda
        · -- 66 / 130 characters: an error or an AddressPubKey, which is rejected
          split at hda
          · cases hda
          · split at hda
            · cases hda; simp at h
            · cases hda
        · rename_i hlen
          refine ⟨rfl, by omega, by omega, ?_⟩
          cases hcd : checkDecode addr with
          | none => simp [hcd] at hda
          | some pi =>
            obtain ⟨payload, id⟩ := pi
            simp only [hcd] at hda
            refine ⟨payload, id, rfl, ?_⟩
            split at hda
            · rename_i h20
              refine ⟨h20, ?_⟩
              split at hda
              · cases hda
              · split at hda
                · rename_i hid
                  cases hda
                  simp only [payToAddrScript, Option.some.injEq] at h
                  exact Or.inl ⟨hid, h.symm⟩
                · split at hda
                  · rename_i hid
                    cases hda
                    simp only [payToAddrScript, Option.some.injEq] at h
                    exact Or.inr ⟨hid, h.symm⟩
                  · cases hda
            · cases hda
    · simp [hfor] at h

theorem tb_xor (x y : Bool) (g : Nat) : tb (x ^^ y) g = tb x g ^^^ tb y g := by
  cases x <;> cases y <;> simp [tb]

theorem polyG_xor (a b : Nat) : polyG (a ^^^ b) = polyG a ^^^ polyG b := by
  simp only [polyG, Nat.testBit_xor, tb_xor]
  ac_rfl

theorem polyStep_xor (a b u v : Nat) :
    polyStep (a ^^^ b) (u ^^^ v) = polyStep a u ^^^ polyStep b v := by
  simp only [polyStep, Nat.and_xor_distrib_right, Nat.shiftLeft_xor_distrib,
    Nat.shiftRight_xor_distrib, polyG_xor]
  ac_rfl

theorem tb_lt (b : Bool) (g : Nat) (hg : g < 2 ^ 30) : tb b g < 2 ^ 30 := by
  cases b <;> simp [tb, hg]

theorem polyG_lt (b : Nat) : polyG b < 2 ^ 30 := by
  unfold polyG
  repeat' apply Nat.xor_lt_two_pow
  all_goals apply tb_lt
  all_goals decide

theorem polyStep_lt (a v : Nat) (hv : v < 2 ^ 30) : polyStep a v < 2 ^ 30 := by
  unfold polyStep
  apply Nat.xor_lt_two_pow _ (polyG_lt _)
  apply Nat.xor_lt_two_pow _ hv
  have h1 : a &&& 0x1ffffff < 2 ^ 25 := Nat.and_lt_two_pow a (by decide)
  rw [Nat.shiftLeft_eq]
  have : (2:Nat) ^ 30 = 2 ^ 25 * 2 ^ 5 := by decide
  rw [this]
  exact Nat.mul_lt_mul_of_pos_right h1 (by decide)

theorem shl5_xor (x v : Nat) (hv : v < 32) : (x <<< 5) ^^^ v = x * 32 + v := by
  apply Nat.eq_of_testBit_eq
  intro j
  have hv' : v < 2 ^ 5 := hv
  rw [show x * 32 + v = 2 ^ 5 * x + v by omega, Nat.testBit_two_pow_mul_add x hv' j,
    Nat.testBit_xor, Nat.testBit_shiftLeft]
  by_cases hj : j < 5
  · have : ¬ j ≥ 5 := by omega
    simp [hj, this]
  · have hge : j ≥ 5 := by omega
    have : v.testBit j = false := by
      apply Nat.testBit_lt_two_pow
      exact Nat.lt_of_lt_of_le hv' (Nat.pow_le_pow_right (by decide) hge)
    simp [hj, hge, this]

theorem polyG_zero : polyG 0 = 0 := by decide

/-- below 2^25 nothing is fed back: a polymod round is one Horner step in base 32 -/
theorem polyStep_small (x v : Nat) (hx : x < 33554432) (hv : v < 32) : polyStep x v = x * 32 + v := by
  unfold polyStep
  have h1 : x &&& 0x1ffffff = x := by
    rw [show (0x1ffffff : Nat) = 2 ^ 25 - 1 by decide, Nat.and_two_pow_sub_one_eq_mod]
    exact Nat.mod_eq_of_lt hx
  have h2 : x >>> 25 = 0 := by
    rw [Nat.shiftRight_eq_div_pow]
    exact Nat.div_eq_of_lt hx
  rw [h1, h2, polyG_zero, Nat.xor_zero, shl5_xor x v hv]

theorem fold6_linear (S c0 c1 c2 c3 c4 c5 : Nat) :
    [c0, c1, c2, c3, c4, c5].foldl polyStep S =
      [0, 0, 0, 0, 0, 0].foldl polyStep S ^^^ [c0, c1, c2, c3, c4, c5].foldl polyStep 0 := by
  simp only [List.foldl]
  rw [← polyStep_xor, ← polyStep_xor, ← polyStep_xor, ← polyStep_xor, ← polyStep_xor, ← polyStep_xor]
  simp only [Nat.xor_zero, Nat.zero_xor]

theorem fold6_zero (c0 c1 c2 c3 c4 c5 : Nat) (h0 : c0 < 32) (h1 : c1 < 32) (h2 : c2 < 32)
    (h3 : c3 < 32) (h4 : c4 < 32) (h5 : c5 < 32) :
    [c0, c1, c2, c3, c4, c5].foldl polyStep 0 =
      ((((c0 * 32 + c1) * 32 + c2) * 32 + c3) * 32 + c4) * 32 + c5 := by
  simp only [List.foldl]
  rw [polyStep_small 0 c0 (by omega) h0, polyStep_small _ c1 (by omega) h1,
    polyStep_small _ c2 (by omega) h2, polyStep_small _ c3 (by omega) h3,
    polyStep_small _ c4 (by omega) h4, polyStep_small _ c5 (by omega) h5]
  omega

/-- **The bech32 checksum fact** (linearity of the BCH polymod): the six symbols written by
    `writeBech32Checksum` make `bech32Polymod` return the version's constant — for every
    human-readable part and every data (no side condition). -/
theorem polymod_checksum (hrp : Bytes) (data : List Nat) (ver : B32Version) :
    polymod hrp (data ++ bech32Checksum hrp data ver) = ver.const := by
  have key : ∀ l, polymod hrp (data ++ l) =
      List.foldl polyStep (List.foldl polyStep 1 (hrpExpand hrp ++ data)) l := by
    intro l
    unfold polymod
    rw [← List.append_assoc, List.foldl_append]
  unfold bech32Checksum
  simp only [key]
  generalize List.foldl polyStep 1 (hrpExpand hrp ++ data) = S
  generalize hZ : List.foldl polyStep S [0, 0, 0, 0, 0, 0] = Z
  have hZlt : Z < 2 ^ 30 := by
    rw [← hZ]
    simp only [List.foldl]
    exact polyStep_lt _ _ (by decide)
  have hc : ver.const < 2 ^ 30 := by cases ver <;> decide
  have hpm : Z ^^^ ver.const < 2 ^ 30 := Nat.xor_lt_two_pow hZlt hc
  generalize hP : Z ^^^ ver.const = pm at hpm
  rw [fold6_linear, hZ]
  have h31 : ∀ n : Nat, n &&& 31 = n % 32 := fun n => by
    rw [show (31 : Nat) = 2 ^ 5 - 1 by decide, Nat.and_two_pow_sub_one_eq_mod]
  rw [fold6_zero]
  · simp only [h31, Nat.shiftRight_eq_div_pow]
    have : ((((pm / 2 ^ 25 % 32 * 32 + pm / 2 ^ 20 % 32) * 32 + pm / 2 ^ 15 % 32) * 32 +
        pm / 2 ^ 10 % 32) * 32 + pm / 2 ^ 5 % 32) * 32 + pm / 2 ^ 0 % 32 = pm := by
      have : pm < 1073741824 := hpm
      omega
    rw [this, ← hP, ← Nat.xor_assoc, Nat.xor_self, Nat.zero_xor]
  all_goals (rw [h31]; exact Nat.mod_lt _ (by decide))

theorem bits5_val5 (a b c d e : Bool) : bits5 (val5 a b c d e) = [a, b, c, d, e] := by
  cases a <;> cases b <;> cases c <;> cases d <;> cases e <;> decide

theorem val8_bits_nat : ∀ n, n < 256 → val8 (n.testBit 7) (n.testBit 6) (n.testBit 5) (n.testBit 4)
    (n.testBit 3) (n.testBit 2) (n.testBit 1) (n.testBit 0) = n := by decide +kernel

theorem val8_bits8 (b : UInt8) : UInt8.ofNat (val8 (b.toNat.testBit 7) (b.toNat.testBit 6)
    (b.toNat.testBit 5) (b.toNat.testBit 4) (b.toNat.testBit 3) (b.toNat.testBit 2)
    (b.toNat.testBit 1) (b.toNat.testBit 0)) = b := by
  rw [val8_bits_nat _ b.toNat_lt]
  exact UInt8.ofNat_toNat

/-- regrouping into 5-bit groups with zero padding only appends fewer than five zero bits -/
theorem regroup5_bits (bs : List Bool) :
    ∃ k, k < 5 ∧ (regroup5 bs).flatMap bits5 = bs ++ List.replicate k false := by
  fun_induction regroup5 bs with
  | case1 a b c d e rest ih =>
    obtain ⟨k, hk, h⟩ := ih
    exact ⟨k, hk, by simp [List.flatMap_cons, bits5_val5, h]⟩
  | case2 a b c d => exact ⟨1, by decide, by simp [bits5_val5]⟩
  | case3 a b c => exact ⟨2, by decide, by simp [bits5_val5]⟩
  | case4 a b => exact ⟨3, by decide, by simp [bits5_val5]⟩
  | case5 a => exact ⟨4, by decide, by simp [bits5_val5]⟩
  | case6 => exact ⟨0, by decide, by simp⟩

theorem regroup8_bits8 (b : UInt8) (rest : List Bool) :
    regroup8 (bits8 b ++ rest) = (b :: (regroup8 rest).1, (regroup8 rest).2) := by
  simp only [bits8, List.cons_append, List.nil_append, regroup8, val8_bits8]

theorem regroup8_flatMap (prog : Bytes) (rest : List Bool) :
    regroup8 (prog.flatMap bits8 ++ rest) = (prog ++ (regroup8 rest).1, (regroup8 rest).2) := by
  induction prog with
  | nil => simp
  | cons b tl ih => simp only [List.flatMap_cons, List.append_assoc, regroup8_bits8, ih, List.cons_append]

theorem regroup8_short (k : Nat) (hk : k < 5) :
    regroup8 (List.replicate k false) = ([], List.replicate k false) := by
  have : k = 0 ∨ k = 1 ∨ k = 2 ∨ k = 3 ∨ k = 4 := by omega
  rcases this with rfl | rfl | rfl | rfl | rfl <;> rfl

/-- ConvertBits(·, 5, 8, false) ∘ ConvertBits(·, 8, 5, true) = id, for byte strings of every length -/
theorem convert5to8_convert8to5 (prog : Bytes) : convert5to8 (convert8to5 prog) = some prog := by
  unfold convert5to8 convert8to5
  obtain ⟨k, hk, h⟩ := regroup5_bits (prog.flatMap bits8)
  simp only [h, regroup8_flatMap, regroup8_short k hk, List.append_nil, List.length_replicate]
  simp
  omega

theorem lastIdx_append (c : UInt8) (a b : Bytes) :
    lastIdx c (a ++ b) = match lastIdx c b with
      | some i => some (a.length + i)
      | none => lastIdx c a := by
  induction a with
  | nil => cases hb : lastIdx c b <;> simp [hb, lastIdx]
  | cons x a ih =>
    simp only [List.cons_append, lastIdx, ih]
    cases hb : lastIdx c b with
    | some i => simp; omega
    | none => simp

theorem lastIdx_eq_none {c : UInt8} {bs : Bytes} (h : c ∉ bs) : lastIdx c bs = none := by
  induction bs with
  | nil => rfl
  | cons b rest ih =>
    simp only [List.mem_cons, not_or] at h
    simp only [lastIdx, ih h.2]
    simp [Ne.symm h.1]

/-- the last `c` of `pre ++ c :: post` is at `pre.length` when `post` has none -/
theorem lastIdx_sep (c : UInt8) (pre post : Bytes) (h : c ∉ post) :
    lastIdx c (pre ++ c :: post) = some pre.length := by
  rw [lastIdx_append]
  simp [lastIdx, lastIdx_eq_none h]

theorem charsetAt_props : ∀ v, v < 32 → charsetAt v ≠ 0x31 ∧ 33 ≤ charsetAt v ∧ charsetAt v ≤ 126 ∧
    isUpperB (charsetAt v) = false ∧ charsetIdx (charsetAt v) = some v := by decide +kernel

theorem charsetAt_mod (v : Nat) : charsetAt v = charsetAt (v % 32) := by
  simp [charsetAt]

theorem toValues_map_charsetAt (l : List Nat) (h : ∀ v ∈ l, v < 32) :
    toValues (l.map charsetAt) = some l := by
  induction l with
  | nil => rfl
  | cons v tl ih =>
    have hv := (charsetAt_props v (h v (by simp))).2.2.2.2
    simp only [List.map_cons, toValues, hv, ih (fun w hw => h w (by simp [hw]))]

theorem asciiLower_of_not_upper {b : UInt8} (h : isUpperB b = false) : asciiLower b = b := by
  unfold asciiLower
  unfold isUpperB at h
  simp only [Bool.and_eq_false_iff, decide_eq_false_iff_not] at h
  split
  · rename_i hh; rcases h with h | h
    · exact absurd hh.1 h
    · exact absurd hh.2 h
  · rfl

theorem lowerBytes_of_no_upper {bs : Bytes} (h : ∀ b ∈ bs, isUpperB b = false) : lowerBytes bs = bs := by
  induction bs with
  | nil => rfl
  | cons b tl ih =>
    simp only [lowerBytes, List.map_cons] at *
    rw [asciiLower_of_not_upper (h b (by simp)), ih (fun x hx => h x (by simp [hx]))]

theorem checksum_lt (hrp : Bytes) (data : List Nat) (ver : B32Version) :
    (bech32Checksum hrp data ver).length = 6 ∧ ∀ v ∈ bech32Checksum hrp data ver, v < 32 := by
  unfold bech32Checksum
  refine ⟨rfl, ?_⟩
  have h31 : ∀ n : Nat, n &&& 31 < 32 := fun n => by
    rw [show (31 : Nat) = 2 ^ 5 - 1 by decide, Nat.and_two_pow_sub_one_eq_mod]
    exact Nat.mod_lt _ (by decide)
  intro v hv
  simp only [List.mem_cons, List.not_mem_nil, or_false] at hv
  rcases hv with rfl | rfl | rfl | rfl | rfl | rfl <;> exact h31 _

theorem versionOfConst_const (ver : B32Version) : versionOfConst ver.const = some ver := by
  cases ver <;> decide

/-- bech32.DecodeGeneric ∘ bech32.Encode(M) for a well-formed lower-case human-readable part -/
theorem bech32Decode_encode (h : Bytes) (data : List Nat) (ver : B32Version)
    (hne : 1 ≤ h.length) (hgood : ∀ b ∈ h, 33 ≤ b ∧ b ≤ 126 ∧ isUpperB b = false)
    (hd : ∀ v ∈ data, v < 32) (hlen : h.length + data.length + 7 ≤ 90) :
    bech32Decode (bech32Encode h data ver) = some (h, data, ver) := by
  have hlow : lowerBytes h = h := lowerBytes_of_no_upper (fun b hb => (hgood b hb).2.2)
  unfold bech32Encode
  simp only [hlow]
  obtain ⟨hcl, hcv⟩ := checksum_lt h data ver
  generalize hcs : bech32Checksum h data ver = cs at hcl hcv
  have hall : ∀ v ∈ data ++ cs, v < 32 := by
    intro v hv
    rcases List.mem_append.mp hv with hv | hv
    · exact hd v hv
    · exact hcv v hv
  generalize hs : h ++ [0x31] ++ (data ++ cs).map charsetAt = s
  have hs' : s = h ++ 0x31 :: (data ++ cs).map charsetAt := by rw [← hs]; simp
  have hslen : s.length = h.length + 1 + (data.length + 6) := by
    rw [← hs]; simp [hcl]; omega
  have hmem : ∀ b ∈ s, 33 ≤ b ∧ b ≤ 126 ∧ isUpperB b = false := by
    intro b hb
    rw [hs'] at hb
    simp only [List.mem_append, List.mem_cons, List.mem_map] at hb
    rcases hb with hb | rfl | ⟨v, hv, rfl⟩
    · exact hgood b hb
    · decide
    · have := charsetAt_props v (hall v (List.mem_append.mpr hv))
      exact ⟨this.2.1, this.2.2.1, this.2.2.2.1⟩
  have e3 : s.all (fun b => 33 ≤ b && b ≤ 126) = true := by
    rw [List.all_eq_true]
    intro b hb
    have := hmem b hb
    simp [this.1, this.2.1]
  have e4 : s.any isUpperB = false := by
    rw [List.any_eq_false]
    intro b hb
    simp [(hmem b hb).2.2]
  have e5 : lowerBytes s = s := lowerBytes_of_no_upper (fun b hb => (hmem b hb).2.2)
  have e6 : lastIdx 0x31 s = some h.length := by
    rw [hs']
    apply lastIdx_sep
    intro hc
    simp only [List.mem_map] at hc
    obtain ⟨v, hv, hv2⟩ := hc
    exact (charsetAt_props v (hall v hv)).1 hv2
  have e7 : s.take h.length = h := by rw [hs']; simp
  have e8 : s.drop (h.length + 1) = (data ++ cs).map charsetAt := by
    rw [hs']; simp
  have e1 : ¬ s.length > 90 := by omega
  have e2 : ¬ s.length < 8 := by omega
  have e9 : ¬ (h.length < 1 ∨ h.length + 7 > s.length) := by omega
  have e10 : toValues ((data ++ cs).map charsetAt) = some (data ++ cs) := toValues_map_charsetAt _ hall
  have e11 : polymod h (data ++ cs) = ver.const := by rw [← hcs]; exact polymod_checksum h data ver
  unfold bech32Decode
  simp only [e1, e2, e3, e4, e5, e6, e7, e8, e9, e10, e11, versionOfConst_const, if_false,
    Bool.not_true, Bool.and_false, Bool.false_eq_true]
  simp [hcl]

theorem val5_lt (a b c d e : Bool) : val5 a b c d e < 32 := by
  cases a <;> cases b <;> cases c <;> cases d <;> cases e <;> decide

theorem regroup5_lt (bs : List Bool) : ∀ v ∈ regroup5 bs, v < 32 := by
  fun_induction regroup5 bs with
  | case1 a b c d e rest ih =>
    intro v hv
    simp only [List.mem_cons] at hv
    rcases hv with rfl | hv
    · exact val5_lt ..
    · exact ih v hv
  | case2 a b c d => intro v hv; simp only [List.mem_cons, List.not_mem_nil, or_false] at hv; subst hv; exact val5_lt ..
  | case3 a b c => intro v hv; simp only [List.mem_cons, List.not_mem_nil, or_false] at hv; subst hv; exact val5_lt ..
  | case4 a b => intro v hv; simp only [List.mem_cons, List.not_mem_nil, or_false] at hv; subst hv; exact val5_lt ..
  | case5 a => intro v hv; simp only [List.mem_cons, List.not_mem_nil, or_false] at hv; subst hv; exact val5_lt ..
  | case6 => intro v hv; cases hv

theorem regroup5_length (bs : List Bool) : (regroup5 bs).length = (bs.length + 4) / 5 := by
  fun_induction regroup5 bs with
  | case1 a b c d e rest ih => simp only [List.length_cons, ih]; omega
  | case2 a b c d => simp
  | case3 a b c => simp
  | case4 a b => simp
  | case5 a => simp
  | case6 => rfl

theorem flatMap_bits8_length (p : Bytes) : (p.flatMap bits8).length = 8 * p.length := by
  induction p with
  | nil => rfl
  | cons b tl ih => simp only [List.flatMap_cons, List.length_append, ih, List.length_cons]; simp [bits8]; omega

theorem convert8to5_length (p : Bytes) : (convert8to5 p).length = (8 * p.length + 4) / 5 := by
  unfold convert8to5
  rw [regroup5_length, flatMap_bits8_length]

/-- a human-readable part that bech32 accepts as it is: non-empty, printable, no upper case -/
def GoodHrp (h : Bytes) : Prop :=
  1 ≤ h.length ∧ h.length ≤ 18 ∧ ∀ b ∈ h, 33 ≤ b ∧ b ≤ 126 ∧ isUpperB b = false

theorem goodHrp_lower {h : Bytes} (hg : GoodHrp h) : lowerBytes h = h :=
  lowerBytes_of_no_upper (fun b hb => (hg.2.2 b hb).2.2)

/-- decodeSegWitAddress ∘ encodeSegWitAddress -/
theorem decodeSegWit_encode (h : Bytes) (ver : Nat) (prog : Bytes) (hg : GoodHrp h)
    (hver : ver = 0 ∨ ver = 1) (hlen : prog.length = 20 ∨ prog.length = 32) :
    decodeSegWit (encodeSegwitBytes h ver prog) = some (ver, prog) := by
  unfold encodeSegwitBytes decodeSegWit
  have hd : ∀ v ∈ ver :: convert8to5 prog, v < 32 := by
    intro v hv
    simp only [List.mem_cons] at hv
    rcases hv with rfl | hv
    · omega
    · exact regroup5_lt _ v hv
  have hl : h.length + (ver :: convert8to5 prog).length + 7 ≤ 90 := by
    simp only [List.length_cons, convert8to5_length]
    have := hg.2.1
    omega
  rw [bech32Decode_encode h _ _ hg.1 hg.2.2 hd hl]
  simp only [convert5to8_convert8to5]
  rcases hver with rfl | rfl <;> rcases hlen with hl | hl <;> simp [hl]

theorem bech32Encode_sep (h : Bytes) (data : List Nat) (ver : B32Version) (hlow : lowerBytes h = h)
    (hd : ∀ v ∈ data, v < 32) :
    lastIdx 0x31 (bech32Encode h data ver) = some h.length ∧
    (bech32Encode h data ver).take (h.length + 1) = h ++ [0x31] := by
  unfold bech32Encode
  simp only [hlow, List.append_assoc, List.singleton_append]
  obtain ⟨_, hcv⟩ := checksum_lt h data ver
  constructor
  · apply lastIdx_sep
    intro hc
    simp only [List.mem_map] at hc
    obtain ⟨v, hv, hv2⟩ := hc
    have : v < 32 := by
      rcases List.mem_append.mp hv with hv | hv
      · exact hd v hv
      · exact hcv v hv
    exact (charsetAt_props v this).1 hv2
  · rw [List.take_append, List.take_of_length_le (Nat.le_succ _)]
    simp

theorem net_hrp_good (net : Net) : GoodHrp net.hrp := by
  unfold GoodHrp
  cases net <;> decide

theorem net_prefix_registered (net : Net) : isBech32SegwitPrefix (net.hrp ++ [0x31]) = true := by
  cases net <;> decide

theorem net_hrp_len (net : Net) : 1 < net.hrp.length := by cases net <;> decide

/-- the whole function on a segwit address of the network, byte level -/
theorem segwit_roundtrip_bytes (pk : Bytes → Bool) (net : Net) (ver : Nat) (prog : Bytes)
    (hver : ver = 0 ∨ ver = 1) (hlen : prog.length = 20 ∨ prog.length = 32) :
    decodeBytes pk net (encodeSegwitBytes net.hrp ver prog) =
      some (if prog.length = 20 then [0x00, 0x14] ++ prog
            else if ver = 1 then [0x51, 0x20] ++ prog else [0x00, 0x20] ++ prog) := by
  have hg := net_hrp_good net
  have hds := decodeSegWit_encode net.hrp ver prog hg hver hlen
  have hd : ∀ v ∈ ver :: convert8to5 prog, v < 32 := by
    intro v hv
    simp only [List.mem_cons] at hv
    rcases hv with rfl | hv
    · omega
    · exact regroup5_lt _ v hv
  obtain ⟨h1, h2⟩ := bech32Encode_sep net.hrp (ver :: convert8to5 prog)
    (if ver = 0 then .v0 else .vM) (goodHrp_lower hg) hd
  have hsb : segwitBranch (encodeSegwitBytes net.hrp ver prog) =
      some (if prog.length = 20 then some (.witnessPubKeyHash net.hrp prog)
            else if ver = 1 then some (.taproot net.hrp prog)
            else some (.witnessScriptHash net.hrp prog)) := by
    unfold segwitBranch
    unfold encodeSegwitBytes at hds ⊢
    simp only [h1, h2, net_hrp_len net, net_prefix_registered net, hds, if_true]
    have : ¬ (ver ≠ 0 ∧ ver ≠ 1) := by omega
    simp only [this, if_false]
    simp [goodHrp_lower hg]
    rcases hlen with hl | hl <;> simp [hl]
  unfold decodeBytes decodeAddress
  rw [hsb]
  rcases hlen with hl | hl
  · simp [hl, Address.isForNet, payToAddrScript]
  · rcases hver with rfl | rfl <;> simp [hl, Address.isForNet, payToAddrScript]

theorem utf8EncodeChar_ascii : ∀ n, n < 128 → String.utf8EncodeChar (Char.ofNat n) = [UInt8.ofNat n] := by
  decide +kernel

/-- an ASCII byte string survives the trip through a Lean `String` -/
theorem utf8_bytesToString (bs : Bytes) (h : ∀ b ∈ bs, b < 128) : utf8 (bytesToString bs) = bs := by
  unfold utf8 bytesToString
  rw [String.toUTF8_eq_toByteArray, String.toByteArray_ofList, List.utf8Encode, List.data_toByteArray]
  dsimp only
  induction bs with
  | nil => rfl
  | cons b tl ih =>
    have hb : b.toNat < 128 := by
      have := h b (by simp)
      exact UInt8.lt_iff_toNat_lt.mp this
    simp only [List.map_cons, List.flatMap_cons, utf8EncodeChar_ascii _ hb, UInt8.ofNat_toNat]
    rw [ih (fun x hx => h x (by simp [hx]))]
    rfl

theorem utf8_hrpStr (net : Net) : utf8 net.hrpStr = net.hrp := by cases net <;> decide

theorem toValues_length : ∀ (l : Bytes) (vs : List Nat), toValues l = some vs → vs.length = l.length := by
  intro l
  induction l with
  | nil => intro vs h; simp [toValues] at h; subst h; rfl
  | cons c tl ih =>
    intro vs h
    unfold toValues at h
    split at h
    · rename_i v vs' hv hvs
      cases h
      simp [ih vs' hvs]
    · cases h

/-- a property of bytes can be checked on the 256 values -/
theorem forall_uint8 (P : UInt8 → Prop) (h : ∀ n, n < 256 → P (UInt8.ofNat n)) : ∀ b, P b := by
  intro b
  have := h b.toNat b.toNat_lt
  rwa [UInt8.ofNat_toNat] at this

theorem asciiLower_eq_one : ∀ b : UInt8, asciiLower b = 0x31 ↔ b = 0x31 := by
  apply forall_uint8
  decide +kernel

theorem lastIdx_lower (bs : Bytes) : lastIdx 0x31 (lowerBytes bs) = lastIdx 0x31 bs := by
  induction bs with
  | nil => rfl
  | cons b tl ih =>
    simp only [lowerBytes, List.map_cons] at ih ⊢
    simp only [lastIdx, ih]
    cases lastIdx 0x31 tl with
    | some i => rfl
    | none =>
      by_cases hb : b = 0x31
      · simp [hb]; decide
      · have : asciiLower b ≠ 0x31 := fun h => hb ((asciiLower_eq_one b).mp h)
        simp [hb, this]

/-- Inversion of bech32.DecodeGeneric. -/
theorem bech32Decode_inv {bech hrp : Bytes} {data : List Nat} {ver : B32Version}
    (h : bech32Decode bech = some (hrp, data, ver)) :
    bech.length ≤ 90 ∧ (bech.all (fun b => 33 ≤ b && b ≤ 126) = true) ∧
    ¬ (bech.any isLowerB = true ∧ bech.any isUpperB = true) ∧
    ∃ one decoded, lastIdx 0x31 bech = some one ∧ 1 ≤ one ∧ one + 7 ≤ bech.length ∧
      hrp = (lowerBytes bech).take one ∧
      toValues ((lowerBytes bech).drop (one + 1)) = some decoded ∧
      polymod hrp decoded = ver.const ∧ data = decoded.take (decoded.length - 6) := by
  unfold bech32Decode at h
  split at h; · cases h
  rename_i h1
  split at h; · cases h
  rename_i h2
  split at h; · cases h
  rename_i h3
  split at h; · cases h
  rename_i h4
  simp only [lastIdx_lower] at h
  cases hone : lastIdx 0x31 bech with
  | none => simp [hone] at h
  | some one =>
    simp only [hone] at h
    split at h; · cases h
    rename_i h5
    cases hv : toValues ((lowerBytes bech).drop (one + 1)) with
    | none => simp [hv] at h
    | some decoded =>
      simp only [hv] at h
      cases hc : versionOfConst (polymod ((lowerBytes bech).take one) decoded) with
      | none => simp [hc] at h
      | some v =>
        simp only [hc, Option.some.injEq, Prod.mk.injEq] at h
        obtain ⟨rfl, rfl, rfl⟩ := h
        have hlen : (lowerBytes bech).length = bech.length := by simp [lowerBytes]
        refine ⟨by omega, by simpa using h3, by simpa using h4, one, decoded, rfl, by omega, by omega,
          rfl, hv, ?_, rfl⟩
        unfold versionOfConst at hc
        split at hc
        · cases hc; assumption
        · split at hc
          · cases hc; assumption
          · cases hc

theorem regroup8_length (bs : List Bool) :
    (regroup8 bs).1.length = bs.length / 8 ∧ (regroup8 bs).2.length = bs.length % 8 := by
  fun_induction regroup8 bs with
  | case1 a b c d e f g h rest r ih =>
    have hr : r = regroup8 rest := rfl
    obtain ⟨i1, i2⟩ := ih
    simp only [List.length_cons, hr, i1, i2]
    constructor <;> omega
  | case2 rest hne =>
    simp only [List.length_nil]
    have : rest.length < 8 := by
      match rest, hne with
      | [], _ => simp
      | [_], _ => simp
      | [_, _], _ => simp
      | [_, _, _], _ => simp
      | [_, _, _, _], _ => simp
      | [_, _, _, _, _], _ => simp
      | [_, _, _, _, _, _], _ => simp
      | [_, _, _, _, _, _, _], _ => simp
      | a :: b :: c :: d :: e :: f :: g :: h :: rest, hne => exact absurd rfl (hne a b c d e f g h rest)
    omega

theorem flatMap_bits5_length (l : List Nat) : (l.flatMap bits5).length = 5 * l.length := by
  induction l with
  | nil => rfl
  | cons b tl ih => simp only [List.flatMap_cons, List.length_append, ih, List.length_cons]; simp [bits5]; omega

theorem convert5to8_length {rest : List Nat} {prog : Bytes} (h : convert5to8 rest = some prog) :
    prog.length = 5 * rest.length / 8 ∧ 5 * rest.length % 8 ≤ 4 := by
  simp only [convert5to8] at h
  have hl := regroup8_length (rest.flatMap bits5)
  rw [flatMap_bits5_length] at hl
  split at h
  · cases h
  · rename_i hc
    cases h
    refine ⟨hl.1, ?_⟩
    have : ¬ (regroup8 (rest.flatMap bits5)).2.length > 4 := fun hh => hc (Or.inl hh)
    omega

/-- Inversion of decodeSegWitAddress. -/
theorem decodeSegWit_inv {addr : Bytes} {ver : Nat} {prog : Bytes}
    (h : decodeSegWit addr = some (ver, prog)) :
    ∃ hrp rest bver, bech32Decode addr = some (hrp, ver :: rest, bver) ∧ ver ≤ 16 ∧
      convert5to8 rest = some prog ∧ 2 ≤ prog.length ∧ prog.length ≤ 40 ∧
      (ver = 0 → (prog.length = 20 ∨ prog.length = 32) ∧ bver = .v0) ∧ (ver = 1 → bver = .vM) := by
  unfold decodeSegWit at h
  split at h; · cases h
  rename_i hrp data bver hb
  split at h; · cases h
  rename_i version rest
  split at h; · cases h
  rename_i hv
  split at h; · cases h
  rename_i p hp
  split at h; · cases h
  rename_i h1
  split at h; · cases h
  rename_i h2
  split at h; · cases h
  rename_i h3
  split at h; · cases h
  rename_i h4
  simp only [Option.some.injEq, Prod.mk.injEq] at h
  obtain ⟨rfl, rfl⟩ := h
  refine ⟨hrp, rest, bver, hb, by omega, hp, by omega, by omega, ?_, ?_⟩
  · intro h0
    subst h0
    refine ⟨by omega, ?_⟩
    cases bver
    · rfl
    · exact absurd ⟨rfl, by decide⟩ h3
  · intro h1'
    subst h1'
    cases bver
    · exact absurd ⟨rfl, by decide⟩ h4
    · rfl

/-- the byte length of a string accepted by the segwit branch -/
theorem segwit_accepted_length {addr : Bytes} {one ver : Nat} {prog : Bytes}
    (hone : lastIdx 0x31 addr = some one) (hds : decodeSegWit addr = some (ver, prog)) :
    ∃ n, addr.length = one + 8 + n ∧ prog.length = 5 * n / 8 ∧ 5 * n % 8 ≤ 4 := by
  obtain ⟨hrp, rest, bver, hb, _, hc, _⟩ := decodeSegWit_inv hds
  obtain ⟨_, _, _, one', decoded, h1, h2, h3, _, h5, _, h7⟩ := bech32Decode_inv hb
  rw [hone] at h1
  cases h1
  have hdl := toValues_length _ _ h5
  have hlen : (lowerBytes addr).length = addr.length := by simp [lowerBytes]
  rw [List.length_drop, hlen] at hdl
  have h7l := congrArg List.length h7
  simp only [List.length_cons, List.length_take] at h7l
  obtain ⟨hp1, hp2⟩ := convert5to8_length hc
  exact ⟨rest.length, by omega, hp1, hp2⟩

/-! ## The public-key parser is irrelevant -/

theorem decodeBytes_indep (pk pk' : Bytes → Bool) (net : Net) (addr : Bytes) :
    decodeBytes pk net addr = decodeBytes pk' net addr := by
  unfold decodeBytes decodeAddress
  cases segwitBranch addr with
  | some r => rfl
  | none =>
    by_cases hl : addr.length = 130 ∨ addr.length = 66
    · simp only [hl, if_true]
      cases hexDecode addr with
      | none => rfl
      | some ser => cases h1 : pk ser <;> cases h2 : pk' ser <;> simp [h1, h2, Address.isForNet]
    · simp only [hl, if_false]

/-- `DecodeBtcAddress` does not depend on whether a 33/65-byte hex string is a curve point. -/
theorem decode_indep_pubkeyParses (pk : Bytes → Bool) (net : Net) (s : String) :
    decodeBtcAddressWith pk net s = decodeBtcAddress net s :=
  decodeBytes_indep pk _ net (utf8 s)

/-! ## 1. Soundness: only the five standard forms -/

/-- the five standard output-script forms -/
inductive StdScript : Bytes → Prop
  | p2pkh (h : Bytes) : h.length = 20 → StdScript ([0x76, 0xa9, 0x14] ++ h ++ [0x88, 0xac])
  | p2sh (h : Bytes) : h.length = 20 → StdScript ([0xa9, 0x14] ++ h ++ [0x87])
  | p2wpkh (p : Bytes) : p.length = 20 → StdScript ([0x00, 0x14] ++ p)
  | p2wsh (p : Bytes) : p.length = 32 → StdScript ([0x00, 0x20] ++ p)
  | p2tr (p : Bytes) : p.length = 32 → StdScript ([0x51, 0x20] ++ p)

/-- a pay-to-pubkey script: push of a 33- or 65-byte key, OP_CHECKSIG -/
def IsP2PK (sc : Bytes) : Prop :=
  ∃ key : Bytes, (key.length = 33 ∨ key.length = 65) ∧ sc = UInt8.ofNat key.length :: key ++ [0xac]

theorem stdScript_not_p2pk {sc : Bytes} (h : StdScript sc) : ¬ IsP2PK sc := by
  rintro ⟨key, hk, hsc⟩
  have hl := congrArg List.length hsc
  cases h with
  | p2pkh h hh => simp at hl; omega
  | p2sh h hh => simp at hl; omega
  | p2wpkh p hp => simp at hl; omega
  | p2wsh p hp => simp at hl; omega
  | p2tr p hp => simp at hl; omega

theorem decode_sound_bytes {pk : Bytes → Bool} {net : Net} {addr sc : Bytes}
    (h : decodeBytes pk net addr = some sc) : StdScript sc ∧ ¬ IsP2PK sc := by
  have hs : StdScript sc := by
    rcases decodeBytes_inv h with ⟨_, _, prog, _, _, _, _, _, h6⟩ | ⟨_, _, _, payload, _, _, hl, h4⟩
    · rcases h6 with ⟨hl, _, rfl⟩ | ⟨hl, _, rfl⟩ | ⟨hl, _, rfl⟩
      · exact .p2wpkh prog hl
      · exact .p2wsh prog hl
      · exact .p2tr prog hl
    · rcases h4 with ⟨_, rfl⟩ | ⟨_, rfl⟩
      · exact .p2pkh payload hl
      · exact .p2sh payload hl
  exact ⟨hs, stdScript_not_p2pk hs⟩

/-- **decode_sound**: whatever `DecodeBtcAddress` returns is exactly one of the five standard forms
    (P2PKH `76 a9 14 <20> 88 ac`, P2SH `a9 14 <20> 87`, P2WPKH `00 14 <20>`, P2WSH `00 20 <32>`,
    P2TR `51 20 <32>`) and never a pay-to-pubkey script. -/
theorem decode_sound {net : Net} {s : String} {sc : Bytes} (h : decodeBtcAddress net s = some sc) :
    StdScript sc ∧ ¬ IsP2PK sc :=
  decode_sound_bytes h

/-! ## 4. Hex public keys (66 / 130 characters) are rejected -/

theorem net_hrp_len2 (net : Net) : net.hrp.length = 2 ∨ net.hrp.length = 4 := by cases net <;> decide

/-- an accepted segwit string has 42, 44, 62 or 64 bytes -/
theorem segwit_accepted_length' {net : Net} {addr : Bytes} {one ver : Nat} {prog : Bytes}
    (hone : lastIdx 0x31 addr = some one) (hds : decodeSegWit addr = some (ver, prog))
    (hhrp : lowerBytes (addr.take one) = net.hrp) (hpl : prog.length = 20 ∨ prog.length = 32) :
    addr.length = 42 ∨ addr.length = 44 ∨ addr.length = 62 ∨ addr.length = 64 := by
  obtain ⟨n, h1, h2, h3⟩ := segwit_accepted_length hone hds
  have hlt := (lastIdx_some addr one hone).1
  have h4 := congrArg List.length hhrp
  simp only [lowerBytes, List.length_map, List.length_take] at h4
  have := net_hrp_len2 net
  omega

/-- **p2pk_rejected** (byte level): every string of 66 or 130 bytes is rejected, whatever the
    public-key parser says — no accepted address has that length. -/
theorem p2pk_rejected_bytes (pk : Bytes → Bool) (net : Net) (addr : Bytes)
    (hlen : addr.length = 66 ∨ addr.length = 130) : decodeBytes pk net addr = none := by
  cases h : decodeBytes pk net addr with
  | none => rfl
  | some sc =>
    exfalso
    rcases decodeBytes_inv h with ⟨one, ver, prog, h1, _, _, h4, h5, h6⟩ | ⟨_, h2, h3, _⟩
    · have hpl : prog.length = 20 ∨ prog.length = 32 := by
        rcases h6 with ⟨hl, _⟩ | ⟨hl, _⟩ | ⟨hl, _⟩ <;> simp [hl]
      have := segwit_accepted_length' h1 h4 h5 hpl
      omega
    · omega

theorem p2pk_rejected (pk : Bytes → Bool) (net : Net) (s : String)
    (hlen : (utf8 s).length = 66 ∨ (utf8 s).length = 130) : decodeBtcAddressWith pk net s = none :=
  p2pk_rejected_bytes pk net _ hlen

/-! ## 3. Foreign networks -/

/-- A string taken by the segwit branch (last '1' at index > 1, registered prefix) whose lower-cased
    human-readable part is not the one of `net` is rejected; nothing else is tried. -/
theorem segwit_foreign_rejected_bytes (pk : Bytes → Bool) (net : Net) (addr : Bytes) (one : Nat)
    (hone : lastIdx 0x31 addr = some one) (hgt : 1 < one)
    (hpre : isBech32SegwitPrefix (addr.take (one + 1)) = true)
    (hhrp : lowerBytes (addr.take one) ≠ net.hrp) : decodeBytes pk net addr = none := by
  cases h : decodeBytes pk net addr with
  | none => rfl
  | some sc =>
    exfalso
    rcases decodeBytes_inv h with ⟨one', _, _, h1, _, _, _, h5, _⟩ | ⟨hsb, _⟩
    · rw [hone] at h1; cases h1
      exact hhrp h5
    · unfold segwitBranch at hsb
      simp [hone, hgt, hpre] at hsb

end Goat.C17A
