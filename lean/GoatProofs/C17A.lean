/-
  C17A — Bitcoin withdrawal-address decoding (second half of C17).
  Theorems about GoatModel.Addr, the executable model of x/bitcoin/types/address.go DecodeBtcAddress
  and of the btcd / btcutil library functions it calls.  A summary of every theorem is at the end.
-/
import GoatModel.Addr
namespace Goat.C17A
open Goat Goat.Addr

/-! ## lastIdx -/

/-! ## A. `strings.LastIndexByte` and inversion of the decision function -/

theorem lastIdx_none {c : UInt8} : ∀ (bs : Bytes), lastIdx c bs = none → ∀ j : Nat, bs[j]? ≠ some c := by
  intro bs
  induction bs with
  | nil => intro _ j; simp
  | cons b rest ih =>
    intro h j
    unfold lastIdx at h
    split at h
    · cases h
    · rename_i hn
      split at h
      · cases h
      · rename_i hb
        cases j with
        | zero => simpa using hb
        | succ j => simpa using ih hn j

theorem lastIdx_some {c : UInt8} : ∀ (bs : Bytes) (i : Nat), lastIdx c bs = some i →
    i < bs.length ∧ bs[i]? = some c ∧ ∀ j : Nat, i < j → bs[j]? ≠ some c := by
  intro bs
  induction bs with
  | nil => intro i h; simp [lastIdx] at h
  | cons b rest ih =>
    intro i h
    unfold lastIdx at h
    split at h
    · rename_i k hk
      cases h
      obtain ⟨h1, h2, h3⟩ := ih k hk
      refine ⟨by simp; omega, by simpa using h2, ?_⟩
      intro j hj
      cases j with
      | zero => omega
      | succ j => simpa using h3 j (by omega)
    · rename_i hn
      split at h
      · rename_i hb
        cases h
        refine ⟨by simp, by simp [hb], ?_⟩
        intro j hj
        cases j with
        | zero => omega
        | succ j => simpa using lastIdx_none rest hn j
      · cases h

theorem ids_ne (net : Net) : net.p2pkhId ≠ net.p2shId := by cases net <;> decide

/-- what the segwit branch returns when it is taken -/
theorem segwitBranch_some {addr : Bytes} {a : Address} (h : segwitBranch addr = some (some a)) :
    ∃ one ver prog, lastIdx 0x31 addr = some one ∧ 1 < one ∧
      isBech32SegwitPrefix (addr.take (one + 1)) = true ∧
      decodeSegWit addr = some (ver, prog) ∧
      ((prog.length = 20 ∧ (ver = 0 ∨ ver = 1) ∧ a = .witnessPubKeyHash (lowerBytes (addr.take one)) prog) ∨
       (prog.length = 32 ∧ ver = 0 ∧ a = .witnessScriptHash (lowerBytes (addr.take one)) prog) ∨
       (prog.length = 32 ∧ ver = 1 ∧ a = .taproot (lowerBytes (addr.take one)) prog)) := by
  unfold segwitBranch at h
  cases hone : lastIdx 0x31 addr with
  | none => simp [hone] at h
  | some one =>
    have hlt := (lastIdx_some addr one hone).1
    have htake : (List.take (one + 1) addr).take ((List.take (one + 1) addr).length - 1) = addr.take one := by
      rw [List.take_take, List.length_take]
      congr 1
      omega
    simp only [hone] at h
    by_cases hgt : one > 1
    · simp only [hgt, if_true] at h
      by_cases hpre : isBech32SegwitPrefix (addr.take (one + 1)) = true
      · simp only [hpre, if_true, Option.some.injEq] at h
        cases hds : decodeSegWit addr with
        | none => simp [hds] at h
        | some vp =>
          obtain ⟨ver, prog⟩ := vp
          simp only [hds, htake] at h
          refine ⟨one, ver, prog, rfl, hgt, hpre, rfl, ?_⟩
          split at h
          · cases h
          · rename_i hv
            have hv' : ver = 0 ∨ ver = 1 := by omega
            split at h
            · rename_i h20
              cases h
              exact Or.inl ⟨h20, hv', rfl⟩
            · split at h
              · rename_i h32
                split at h
                · rename_i h1
                  cases h
                  exact Or.inr (Or.inr ⟨h32, h1, rfl⟩)
                · rename_i h1
                  cases h
                  exact Or.inr (Or.inl ⟨h32, by omega, rfl⟩)
              · cases h
      · simp [hpre] at h
    · simp [hgt] at h



/-- Inversion of the whole decision function. -/
theorem decodeBytes_inv {pk : Bytes → Bool} {net : Net} {addr sc : Bytes}
    (h : decodeBytes pk net addr = some sc) :
    (∃ one ver prog, lastIdx 0x31 addr = some one ∧ 1 < one ∧
      isBech32SegwitPrefix (addr.take (one + 1)) = true ∧
      decodeSegWit addr = some (ver, prog) ∧ lowerBytes (addr.take one) = net.hrp ∧
      ((prog.length = 20 ∧ (ver = 0 ∨ ver = 1) ∧ sc = [0x00, 0x14] ++ prog) ∨
       (prog.length = 32 ∧ ver = 0 ∧ sc = [0x00, 0x20] ++ prog) ∨
       (prog.length = 32 ∧ ver = 1 ∧ sc = [0x51, 0x20] ++ prog))) ∨
    (segwitBranch addr = none ∧ addr.length ≠ 130 ∧ addr.length ≠ 66 ∧
      ∃ payload id, checkDecode addr = some (payload, id) ∧ payload.length = 20 ∧
        ((id = net.p2pkhId ∧ sc = [0x76, 0xa9, 0x14] ++ payload ++ [0x88, 0xac]) ∨
         (id = net.p2shId ∧ sc = [0xa9, 0x14] ++ payload ++ [0x87]))) := by
  unfold decodeBytes at h
  cases hda : decodeAddress pk net addr with
  | none => simp [hda] at h
  | some a =>
    simp only [hda] at h
    by_cases hfor : a.isForNet net = true
    · simp only [hfor, Bool.not_true, Bool.false_eq_true, if_false] at h
      unfold decodeAddress at hda
      cases hsb : segwitBranch addr with
      | some r =>
        simp only [hsb] at hda
        subst hda
        obtain ⟨one, ver, prog, h1, h2, h3, h4, h5⟩ := segwitBranch_some hsb
        refine Or.inl ⟨one, ver, prog, h1, h2, h3, h4, ?_⟩
        rcases h5 with ⟨hl, hv, rfl⟩ | ⟨hl, hv, rfl⟩ | ⟨hl, hv, rfl⟩
        · simp only [Address.isForNet, decide_eq_true_eq] at hfor
          simp only [payToAddrScript, Option.some.injEq] at h
          exact ⟨hfor, Or.inl ⟨hl, hv, h.symm⟩⟩
        · simp only [Address.isForNet, decide_eq_true_eq] at hfor
          simp only [payToAddrScript, Option.some.injEq] at h
          exact ⟨hfor, Or.inr (Or.inl ⟨hl, hv, h.symm⟩)⟩
        · simp only [Address.isForNet, decide_eq_true_eq] at hfor
          simp only [payToAddrScript, Option.some.injEq] at h
          exact ⟨hfor, Or.inr (Or.inr ⟨hl, hv, h.symm⟩)⟩
      | none =>
        simp only [hsb] at hda
        right
        split at hda
        · -- 66 / 130 characters: an error or an AddressPubKey, which is rejected
          split at hda
          · cases hda
          · split at hda
            · cases hda; simp at h
            · cases hda
        · rename_i hlen
          refine ⟨rfl, by omega, by omega, ?_⟩
          cases hcd : checkDecode addr with
          | none => simp [hcd] at hda
          | some pi =>
            obtain ⟨payload, id⟩ := pi
            simp only [hcd] at hda
            refine ⟨payload, id, rfl, ?_⟩
            split at hda
            · rename_i h20
              refine ⟨h20, ?_⟩
              split at hda
              · cases hda
              · split at hda
                · rename_i hid
                  cases hda
                  simp only [payToAddrScript, Option.some.injEq] at h
                  exact Or.inl ⟨hid, h.symm⟩
                · split at hda
                  · rename_i hid
                    cases hda
                    simp only [payToAddrScript, Option.some.injEq] at h
                    exact Or.inr ⟨hid, h.symm⟩
                  · cases hda
            · cases hda
    · simp [hfor] at h

/-! ## B. The bech32 checksum: linearity of the BCH polymod -/

theorem tb_xor (x y : Bool) (g : Nat) : tb (x ^^ y) g = tb x g ^^^ tb y g := by
  cases x <;> cases y <;> simp [tb]

theorem polyG_xor (a b : Nat) : polyG (a ^^^ b) = polyG a ^^^ polyG b := by
  simp only [polyG, Nat.testBit_xor, tb_xor]
  ac_rfl

theorem polyStep_xor (a b u v : Nat) :
    polyStep (a ^^^ b) (u ^^^ v) = polyStep a u ^^^ polyStep b v := by
  simp only [polyStep, Nat.and_xor_distrib_right, Nat.shiftLeft_xor_distrib,
    Nat.shiftRight_xor_distrib, polyG_xor]
  ac_rfl

theorem tb_lt (b : Bool) (g : Nat) (hg : g < 2 ^ 30) : tb b g < 2 ^ 30 := by
  cases b <;> simp [tb, hg]

theorem polyG_lt (b : Nat) : polyG b < 2 ^ 30 := by
  unfold polyG
  repeat' apply Nat.xor_lt_two_pow
  all_goals apply tb_lt
  all_goals decide

theorem polyStep_lt (a v : Nat) (hv : v < 2 ^ 30) : polyStep a v < 2 ^ 30 := by
  unfold polyStep
  apply Nat.xor_lt_two_pow _ (polyG_lt _)
  apply Nat.xor_lt_two_pow _ hv
  have h1 : a &&& 0x1ffffff < 2 ^ 25 := Nat.and_lt_two_pow a (by decide)
  rw [Nat.shiftLeft_eq]
  have : (2:Nat) ^ 30 = 2 ^ 25 * 2 ^ 5 := by decide
  rw [this]
  exact Nat.mul_lt_mul_of_pos_right h1 (by decide)

theorem shl5_xor (x v : Nat) (hv : v < 32) : (x <<< 5) ^^^ v = x * 32 + v := by
  apply Nat.eq_of_testBit_eq
  intro j
  have hv' : v < 2 ^ 5 := hv
  rw [show x * 32 + v = 2 ^ 5 * x + v by omega, Nat.testBit_two_pow_mul_add x hv' j,
    Nat.testBit_xor, Nat.testBit_shiftLeft]
  by_cases hj : j < 5
  · have : ¬ j ≥ 5 := by omega
    simp [hj, this]
  · have hge : j ≥ 5 := by omega
    have : v.testBit j = false := by
      apply Nat.testBit_lt_two_pow
      exact Nat.lt_of_lt_of_le hv' (Nat.pow_le_pow_right (by decide) hge)
    simp [hj, hge, this]

theorem polyG_zero : polyG 0 = 0 := by decide

/-- below 2^25 nothing is fed back: a polymod round is one Horner step in base 32 -/
theorem polyStep_small (x v : Nat) (hx : x < 33554432) (hv : v < 32) : polyStep x v = x * 32 + v := by
  unfold polyStep
  have h1 : x &&& 0x1ffffff = x := by
    rw [show (0x1ffffff : Nat) = 2 ^ 25 - 1 by decide, Nat.and_two_pow_sub_one_eq_mod]
    exact Nat.mod_eq_of_lt hx
  have h2 : x >>> 25 = 0 := by
    rw [Nat.shiftRight_eq_div_pow]
    exact Nat.div_eq_of_lt hx
  rw [h1, h2, polyG_zero, Nat.xor_zero, shl5_xor x v hv]

theorem fold6_linear (S c0 c1 c2 c3 c4 c5 : Nat) :
    [c0, c1, c2, c3, c4, c5].foldl polyStep S =
      [0, 0, 0, 0, 0, 0].foldl polyStep S ^^^ [c0, c1, c2, c3, c4, c5].foldl polyStep 0 := by
  simp only [List.foldl]
  rw [← polyStep_xor, ← polyStep_xor, ← polyStep_xor, ← polyStep_xor, ← polyStep_xor, ← polyStep_xor]
  simp only [Nat.xor_zero, Nat.zero_xor]

theorem fold6_zero (c0 c1 c2 c3 c4 c5 : Nat) (h0 : c0 < 32) (h1 : c1 < 32) (h2 : c2 < 32)
    (h3 : c3 < 32) (h4 : c4 < 32) (h5 : c5 < 32) :
    [c0, c1, c2, c3, c4, c5].foldl polyStep 0 =
      ((((c0 * 32 + c1) * 32 + c2) * 32 + c3) * 32 + c4) * 32 + c5 := by
  simp only [List.foldl]
  rw [polyStep_small 0 c0 (by omega) h0, polyStep_small _ c1 (by omega) h1,
    polyStep_small _ c2 (by omega) h2, polyStep_small _ c3 (by omega) h3,
    polyStep_small _ c4 (by omega) h4, polyStep_small _ c5 (by omega) h5]
  omega

/-- **The bech32 checksum fact** (linearity of the BCH polymod): the six symbols written by
    `writeBech32Checksum` make `bech32Polymod` return the version's constant — for every
    human-readable part and every data (no side condition). -/
theorem polymod_checksum (hrp : Bytes) (data : List Nat) (ver : B32Version) :
    polymod hrp (data ++ bech32Checksum hrp data ver) = ver.const := by
  have key : ∀ l, polymod hrp (data ++ l) =
      List.foldl polyStep (List.foldl polyStep 1 (hrpExpand hrp ++ data)) l := by
    intro l
    unfold polymod
    rw [← List.append_assoc, List.foldl_append]
  unfold bech32Checksum
  simp only [key]
  generalize List.foldl polyStep 1 (hrpExpand hrp ++ data) = S
  generalize hZ : List.foldl polyStep S [0, 0, 0, 0, 0, 0] = Z
  have hZlt : Z < 2 ^ 30 := by
    rw [← hZ]
    simp only [List.foldl]
    exact polyStep_lt _ _ (by decide)
  have hc : ver.const < 2 ^ 30 := by cases ver <;> decide
  have hpm : Z ^^^ ver.const < 2 ^ 30 := Nat.xor_lt_two_pow hZlt hc
  generalize hP : Z ^^^ ver.const = pm at hpm
  rw [fold6_linear, hZ]
  have h31 : ∀ n : Nat, n &&& 31 = n % 32 := fun n => by
    rw [show (31 : Nat) = 2 ^ 5 - 1 by decide, Nat.and_two_pow_sub_one_eq_mod]
  rw [fold6_zero]
  · simp only [h31, Nat.shiftRight_eq_div_pow]
    have : ((((pm / 2 ^ 25 % 32 * 32 + pm / 2 ^ 20 % 32) * 32 + pm / 2 ^ 15 % 32) * 32 +
        pm / 2 ^ 10 % 32) * 32 + pm / 2 ^ 5 % 32) * 32 + pm / 2 ^ 0 % 32 = pm := by
      have : pm < 1073741824 := hpm
      omega
    rw [this, ← hP, ← Nat.xor_assoc, Nat.xor_self, Nat.zero_xor]
  all_goals (rw [h31]; exact Nat.mod_lt _ (by decide))

/-! ## C. ConvertBits as bit-stream regrouping: 5→8 ∘ 8→5 = id -/

theorem bits5_val5 (a b c d e : Bool) : bits5 (val5 a b c d e) = [a, b, c, d, e] := by
  cases a <;> cases b <;> cases c <;> cases d <;> cases e <;> decide

theorem val8_bits_nat : ∀ n, n < 256 → val8 (n.testBit 7) (n.testBit 6) (n.testBit 5) (n.testBit 4)
    (n.testBit 3) (n.testBit 2) (n.testBit 1) (n.testBit 0) = n := by decide +kernel

theorem val8_bits8 (b : UInt8) : UInt8.ofNat (val8 (b.toNat.testBit 7) (b.toNat.testBit 6)
    (b.toNat.testBit 5) (b.toNat.testBit 4) (b.toNat.testBit 3) (b.toNat.testBit 2)
    (b.toNat.testBit 1) (b.toNat.testBit 0)) = b := by
  rw [val8_bits_nat _ b.toNat_lt]
  exact UInt8.ofNat_toNat

/-- regrouping into 5-bit groups with zero padding only appends fewer than five zero bits -/
theorem regroup5_bits (bs : List Bool) :
    ∃ k, k < 5 ∧ (regroup5 bs).flatMap bits5 = bs ++ List.replicate k false := by
  fun_induction regroup5 bs with
  | case1 a b c d e rest ih =>
    obtain ⟨k, hk, h⟩ := ih
    exact ⟨k, hk, by simp [List.flatMap_cons, bits5_val5, h]⟩
  | case2 a b c d => exact ⟨1, by decide, by simp [bits5_val5]⟩
  | case3 a b c => exact ⟨2, by decide, by simp [bits5_val5]⟩
  | case4 a b => exact ⟨3, by decide, by simp [bits5_val5]⟩
  | case5 a => exact ⟨4, by decide, by simp [bits5_val5]⟩
  | case6 => exact ⟨0, by decide, by simp⟩

theorem regroup8_bits8 (b : UInt8) (rest : List Bool) :
    regroup8 (bits8 b ++ rest) = (b :: (regroup8 rest).1, (regroup8 rest).2) := by
  simp only [bits8, List.cons_append, List.nil_append, regroup8, val8_bits8]

theorem regroup8_flatMap (prog : Bytes) (rest : List Bool) :
    regroup8 (prog.flatMap bits8 ++ rest) = (prog ++ (regroup8 rest).1, (regroup8 rest).2) := by
  induction prog with
  | nil => simp
  | cons b tl ih => simp only [List.flatMap_cons, List.append_assoc, regroup8_bits8, ih, List.cons_append]

theorem regroup8_short (k : Nat) (hk : k < 5) :
    regroup8 (List.replicate k false) = ([], List.replicate k false) := by
  have : k = 0 ∨ k = 1 ∨ k = 2 ∨ k = 3 ∨ k = 4 := by omega
  rcases this with rfl | rfl | rfl | rfl | rfl <;> rfl

/-- ConvertBits(·, 5, 8, false) ∘ ConvertBits(·, 8, 5, true) = id, for byte strings of every length -/
theorem convert5to8_convert8to5 (prog : Bytes) : convert5to8 (convert8to5 prog) = some prog := by
  unfold convert5to8 convert8to5
  obtain ⟨k, hk, h⟩ := regroup5_bits (prog.flatMap bits8)
  simp only [h, regroup8_flatMap, regroup8_short k hk, List.append_nil, List.length_replicate]
  simp
  omega

/-! ## D. bech32 decode ∘ encode, segwit decode ∘ encode, the whole function on segwit addresses -/

theorem lastIdx_append (c : UInt8) (a b : Bytes) :
    lastIdx c (a ++ b) = match lastIdx c b with
      | some i => some (a.length + i)
      | none => lastIdx c a := by
  induction a with
  | nil => cases hb : lastIdx c b <;> simp [hb, lastIdx]
  | cons x a ih =>
    simp only [List.cons_append, lastIdx, ih]
    cases hb : lastIdx c b with
    | some i => simp; omega
    | none => simp

theorem lastIdx_eq_none {c : UInt8} {bs : Bytes} (h : c ∉ bs) : lastIdx c bs = none := by
  induction bs with
  | nil => rfl
  | cons b rest ih =>
    simp only [List.mem_cons, not_or] at h
    simp only [lastIdx, ih h.2]
    simp [Ne.symm h.1]

/-- the last `c` of `pre ++ c :: post` is at `pre.length` when `post` has none -/
theorem lastIdx_sep (c : UInt8) (pre post : Bytes) (h : c ∉ post) :
    lastIdx c (pre ++ c :: post) = some pre.length := by
  rw [lastIdx_append]
  simp [lastIdx, lastIdx_eq_none h]

theorem charsetAt_props : ∀ v, v < 32 → charsetAt v ≠ 0x31 ∧ 33 ≤ charsetAt v ∧ charsetAt v ≤ 126 ∧
    isUpperB (charsetAt v) = false ∧ charsetIdx (charsetAt v) = some v := by decide +kernel

theorem charsetAt_mod (v : Nat) : charsetAt v = charsetAt (v % 32) := by
  simp [charsetAt]

theorem toValues_map_charsetAt (l : List Nat) (h : ∀ v ∈ l, v < 32) :
    toValues (l.map charsetAt) = some l := by
  induction l with
  | nil => rfl
  | cons v tl ih =>
    have hv := (charsetAt_props v (h v (by simp))).2.2.2.2
    simp only [List.map_cons, toValues, hv, ih (fun w hw => h w (by simp [hw]))]

theorem asciiLower_of_not_upper {b : UInt8} (h : isUpperB b = false) : asciiLower b = b := by
  unfold asciiLower
  unfold isUpperB at h
  simp only [Bool.and_eq_false_iff, decide_eq_false_iff_not] at h
  split
  · rename_i hh; rcases h with h | h
    · exact absurd hh.1 h
    · exact absurd hh.2 h
  · rfl

theorem lowerBytes_of_no_upper {bs : Bytes} (h : ∀ b ∈ bs, isUpperB b = false) : lowerBytes bs = bs := by
  induction bs with
  | nil => rfl
  | cons b tl ih =>
    simp only [lowerBytes, List.map_cons] at *
    rw [asciiLower_of_not_upper (h b (by simp)), ih (fun x hx => h x (by simp [hx]))]

theorem checksum_lt (hrp : Bytes) (data : List Nat) (ver : B32Version) :
    (bech32Checksum hrp data ver).length = 6 ∧ ∀ v ∈ bech32Checksum hrp data ver, v < 32 := by
  unfold bech32Checksum
  refine ⟨rfl, ?_⟩
  have h31 : ∀ n : Nat, n &&& 31 < 32 := fun n => by
    rw [show (31 : Nat) = 2 ^ 5 - 1 by decide, Nat.and_two_pow_sub_one_eq_mod]
    exact Nat.mod_lt _ (by decide)
  intro v hv
  simp only [List.mem_cons, List.not_mem_nil, or_false] at hv
  rcases hv with rfl | rfl | rfl | rfl | rfl | rfl <;> exact h31 _

theorem versionOfConst_const (ver : B32Version) : versionOfConst ver.const = some ver := by
  cases ver <;> decide

/-- bech32.DecodeGeneric ∘ bech32.Encode(M) for a well-formed lower-case human-readable part -/
theorem bech32Decode_encode (h : Bytes) (data : List Nat) (ver : B32Version)
    (hne : 1 ≤ h.length) (hgood : ∀ b ∈ h, 33 ≤ b ∧ b ≤ 126 ∧ isUpperB b = false)
    (hd : ∀ v ∈ data, v < 32) (hlen : h.length + data.length + 7 ≤ 90) :
    bech32Decode (bech32Encode h data ver) = some (h, data, ver) := by
  have hlow : lowerBytes h = h := lowerBytes_of_no_upper (fun b hb => (hgood b hb).2.2)
  unfold bech32Encode
  simp only [hlow]
  obtain ⟨hcl, hcv⟩ := checksum_lt h data ver
  generalize hcs : bech32Checksum h data ver = cs at hcl hcv
  have hall : ∀ v ∈ data ++ cs, v < 32 := by
    intro v hv
    rcases List.mem_append.mp hv with hv | hv
    · exact hd v hv
    · exact hcv v hv
  generalize hs : h ++ [0x31] ++ (data ++ cs).map charsetAt = s
  have hs' : s = h ++ 0x31 :: (data ++ cs).map charsetAt := by rw [← hs]; simp
  have hslen : s.length = h.length + 1 + (data.length + 6) := by
    rw [← hs]; simp [hcl]; omega
  have hmem : ∀ b ∈ s, 33 ≤ b ∧ b ≤ 126 ∧ isUpperB b = false := by
    intro b hb
    rw [hs'] at hb
    simp only [List.mem_append, List.mem_cons, List.mem_map] at hb
    rcases hb with hb | rfl | ⟨v, hv, rfl⟩
    · exact hgood b hb
    · decide
    · have := charsetAt_props v (hall v (List.mem_append.mpr hv))
      exact ⟨this.2.1, this.2.2.1, this.2.2.2.1⟩
  have e3 : s.all (fun b => 33 ≤ b && b ≤ 126) = true := by
    rw [List.all_eq_true]
    intro b hb
    have := hmem b hb
    simp [this.1, this.2.1]
  have e4 : s.any isUpperB = false := by
    rw [List.any_eq_false]
    intro b hb
    simp [(hmem b hb).2.2]
  have e5 : lowerBytes s = s := lowerBytes_of_no_upper (fun b hb => (hmem b hb).2.2)
  have e6 : lastIdx 0x31 s = some h.length := by
    rw [hs']
    apply lastIdx_sep
    intro hc
    simp only [List.mem_map] at hc
    obtain ⟨v, hv, hv2⟩ := hc
    exact (charsetAt_props v (hall v hv)).1 hv2
  have e7 : s.take h.length = h := by rw [hs']; simp
  have e8 : s.drop (h.length + 1) = (data ++ cs).map charsetAt := by
    rw [hs']; simp
  have e1 : ¬ s.length > 90 := by omega
  have e2 : ¬ s.length < 8 := by omega
  have e9 : ¬ (h.length < 1 ∨ h.length + 7 > s.length) := by omega
  have e10 : toValues ((data ++ cs).map charsetAt) = some (data ++ cs) := toValues_map_charsetAt _ hall
  have e11 : polymod h (data ++ cs) = ver.const := by rw [← hcs]; exact polymod_checksum h data ver
  unfold bech32Decode
  simp only [e1, e2, e3, e4, e5, e6, e7, e8, e9, e10, e11, versionOfConst_const, if_false,
    Bool.not_true, Bool.and_false, Bool.false_eq_true]
  simp [hcl]

theorem val5_lt (a b c d e : Bool) : val5 a b c d e < 32 := by
  cases a <;> cases b <;> cases c <;> cases d <;> cases e <;> decide

theorem regroup5_lt (bs : List Bool) : ∀ v ∈ regroup5 bs, v < 32 := by
  fun_induction regroup5 bs with
  | case1 a b c d e rest ih =>
    intro v hv
    simp only [List.mem_cons] at hv
    rcases hv with rfl | hv
    · exact val5_lt ..
    · exact ih v hv
  | case2 a b c d => intro v hv; simp only [List.mem_cons, List.not_mem_nil, or_false] at hv; subst hv; exact val5_lt ..
  | case3 a b c => intro v hv; simp only [List.mem_cons, List.not_mem_nil, or_false] at hv; subst hv; exact val5_lt ..
  | case4 a b => intro v hv; simp only [List.mem_cons, List.not_mem_nil, or_false] at hv; subst hv; exact val5_lt ..
  | case5 a => intro v hv; simp only [List.mem_cons, List.not_mem_nil, or_false] at hv; subst hv; exact val5_lt ..
  | case6 => intro v hv; cases hv

theorem regroup5_length (bs : List Bool) : (regroup5 bs).length = (bs.length + 4) / 5 := by
  fun_induction regroup5 bs with
  | case1 a b c d e rest ih => simp only [List.length_cons, ih]; omega
  | case2 a b c d => simp
  | case3 a b c => simp
  | case4 a b => simp
  | case5 a => simp
  | case6 => rfl

theorem flatMap_bits8_length (p : Bytes) : (p.flatMap bits8).length = 8 * p.length := by
  induction p with
  | nil => rfl
  | cons b tl ih => simp only [List.flatMap_cons, List.length_append, ih, List.length_cons]; simp [bits8]; omega

theorem convert8to5_length (p : Bytes) : (convert8to5 p).length = (8 * p.length + 4) / 5 := by
  unfold convert8to5
  rw [regroup5_length, flatMap_bits8_length]

/-- a human-readable part that bech32 accepts as it is: non-empty, printable, no upper case -/
def GoodHrp (h : Bytes) : Prop :=
  1 ≤ h.length ∧ h.length ≤ 18 ∧ ∀ b ∈ h, 33 ≤ b ∧ b ≤ 126 ∧ isUpperB b = false

theorem goodHrp_lower {h : Bytes} (hg : GoodHrp h) : lowerBytes h = h :=
  lowerBytes_of_no_upper (fun b hb => (hg.2.2 b hb).2.2)

/-- decodeSegWitAddress ∘ encodeSegWitAddress -/
theorem decodeSegWit_encode (h : Bytes) (ver : Nat) (prog : Bytes) (hg : GoodHrp h)
    (hver : ver = 0 ∨ ver = 1) (hlen : prog.length = 20 ∨ prog.length = 32) :
    decodeSegWit (encodeSegwitBytes h ver prog) = some (ver, prog) := by
  unfold encodeSegwitBytes decodeSegWit
  have hd : ∀ v ∈ ver :: convert8to5 prog, v < 32 := by
    intro v hv
    simp only [List.mem_cons] at hv
    rcases hv with rfl | hv
    · omega
    · exact regroup5_lt _ v hv
  have hl : h.length + (ver :: convert8to5 prog).length + 7 ≤ 90 := by
    simp only [List.length_cons, convert8to5_length]
    have := hg.2.1
    omega
  rw [bech32Decode_encode h _ _ hg.1 hg.2.2 hd hl]
  simp only [convert5to8_convert8to5]
  rcases hver with rfl | rfl <;> rcases hlen with hl | hl <;> simp [hl]

theorem bech32Encode_sep (h : Bytes) (data : List Nat) (ver : B32Version) (hlow : lowerBytes h = h)
    (hd : ∀ v ∈ data, v < 32) :
    lastIdx 0x31 (bech32Encode h data ver) = some h.length ∧
    (bech32Encode h data ver).take (h.length + 1) = h ++ [0x31] := by
  unfold bech32Encode
  simp only [hlow, List.append_assoc, List.singleton_append]
  obtain ⟨_, hcv⟩ := checksum_lt h data ver
  constructor
  · apply lastIdx_sep
    intro hc
    simp only [List.mem_map] at hc
    obtain ⟨v, hv, hv2⟩ := hc
    have : v < 32 := by
      rcases List.mem_append.mp hv with hv | hv
      · exact hd v hv
      · exact hcv v hv
    exact (charsetAt_props v this).1 hv2
  · rw [List.take_append, List.take_of_length_le (Nat.le_succ _)]
    simp

theorem net_hrp_good (net : Net) : GoodHrp net.hrp := by
  unfold GoodHrp
  cases net <;> decide

theorem net_prefix_registered (net : Net) : isBech32SegwitPrefix (net.hrp ++ [0x31]) = true := by
  cases net <;> decide

theorem net_hrp_len (net : Net) : 1 < net.hrp.length := by cases net <;> decide

/-- the whole function on a segwit address of the network, byte level -/
theorem segwit_roundtrip_bytes (pk : Bytes → Bool) (net : Net) (ver : Nat) (prog : Bytes)
    (hver : ver = 0 ∨ ver = 1) (hlen : prog.length = 20 ∨ prog.length = 32) :
    decodeBytes pk net (encodeSegwitBytes net.hrp ver prog) =
      some (if prog.length = 20 then [0x00, 0x14] ++ prog
            else if ver = 1 then [0x51, 0x20] ++ prog else [0x00, 0x20] ++ prog) := by
  have hg := net_hrp_good net
  have hds := decodeSegWit_encode net.hrp ver prog hg hver hlen
  have hd : ∀ v ∈ ver :: convert8to5 prog, v < 32 := by
    intro v hv
    simp only [List.mem_cons] at hv
    rcases hv with rfl | hv
    · omega
    · exact regroup5_lt _ v hv
  obtain ⟨h1, h2⟩ := bech32Encode_sep net.hrp (ver :: convert8to5 prog)
    (if ver = 0 then .v0 else .vM) (goodHrp_lower hg) hd
  have hsb : segwitBranch (encodeSegwitBytes net.hrp ver prog) =
      some (if prog.length = 20 then some (.witnessPubKeyHash net.hrp prog)
            else if ver = 1 then some (.taproot net.hrp prog)
            else some (.witnessScriptHash net.hrp prog)) := by
    unfold segwitBranch
    unfold encodeSegwitBytes at hds ⊢
    simp only [h1, h2, net_hrp_len net, net_prefix_registered net, hds, if_true]
    have : ¬ (ver ≠ 0 ∧ ver ≠ 1) := by omega
    simp only [this, if_false]
    simp [goodHrp_lower hg]
    rcases hlen with hl | hl <;> simp [hl]
  unfold decodeBytes decodeAddress
  rw [hsb]
  rcases hlen with hl | hl
  · simp [hl, Address.isForNet, payToAddrScript]
  · rcases hver with rfl | rfl <;> simp [hl, Address.isForNet, payToAddrScript]

/-! ## E. Lean strings: ASCII bytes survive `String.ofList` / `toUTF8` -/

theorem utf8EncodeChar_ascii : ∀ n, n < 128 → String.utf8EncodeChar (Char.ofNat n) = [UInt8.ofNat n] := by
  decide +kernel

/-- an ASCII byte string survives the trip through a Lean `String` -/
theorem utf8_bytesToString (bs : Bytes) (h : ∀ b ∈ bs, b < 128) : utf8 (bytesToString bs) = bs := by
  unfold utf8 bytesToString
  rw [String.toUTF8_eq_toByteArray, String.toByteArray_ofList, List.utf8Encode, List.data_toByteArray]
  dsimp only
  induction bs with
  | nil => rfl
  | cons b tl ih =>
    have hb : b.toNat < 128 := by
      have := h b (by simp)
      exact UInt8.lt_iff_toNat_lt.mp this
    simp only [List.map_cons, List.flatMap_cons, utf8EncodeChar_ascii _ hb, UInt8.ofNat_toNat]
    rw [ih (fun x hx => h x (by simp [hx]))]
    rfl

theorem utf8_hrpStr (net : Net) : utf8 net.hrpStr = net.hrp := by cases net <;> decide

/-! ## F. Inversion of bech32 / segwit decoding; lengths of accepted segwit strings -/

theorem toValues_length : ∀ (l : Bytes) (vs : List Nat), toValues l = some vs → vs.length = l.length := by
  intro l
  induction l with
  | nil => intro vs h; simp [toValues] at h; subst h; rfl
  | cons c tl ih =>
    intro vs h
    unfold toValues at h
    split at h
    · rename_i v vs' hv hvs
      cases h
      simp [ih vs' hvs]
    · cases h

/-- a property of bytes can be checked on the 256 values -/
theorem forall_uint8 (P : UInt8 → Prop) (h : ∀ n, n < 256 → P (UInt8.ofNat n)) : ∀ b, P b := by
  intro b
  have := h b.toNat b.toNat_lt
  rwa [UInt8.ofNat_toNat] at this

theorem asciiLower_eq_one : ∀ b : UInt8, asciiLower b = 0x31 ↔ b = 0x31 := by
  apply forall_uint8
  decide +kernel

theorem lastIdx_lower (bs : Bytes) : lastIdx 0x31 (lowerBytes bs) = lastIdx 0x31 bs := by
  induction bs with
  | nil => rfl
  | cons b tl ih =>
    simp only [lowerBytes, List.map_cons] at ih ⊢
    simp only [lastIdx, ih]
    cases lastIdx 0x31 tl with
    | some i => rfl
    | none =>
      by_cases hb : b = 0x31
      · simp [hb]; decide
      · have : asciiLower b ≠ 0x31 := fun h => hb ((asciiLower_eq_one b).mp h)
        simp [hb, this]

/-- Inversion of bech32.DecodeGeneric. -/
theorem bech32Decode_inv {bech hrp : Bytes} {data : List Nat} {ver : B32Version}
    (h : bech32Decode bech = some (hrp, data, ver)) :
    bech.length ≤ 90 ∧ (bech.all (fun b => 33 ≤ b && b ≤ 126) = true) ∧
    ¬ (bech.any isLowerB = true ∧ bech.any isUpperB = true) ∧
    ∃ one decoded, lastIdx 0x31 bech = some one ∧ 1 ≤ one ∧ one + 7 ≤ bech.length ∧
      hrp = (lowerBytes bech).take one ∧
      toValues ((lowerBytes bech).drop (one + 1)) = some decoded ∧
      polymod hrp decoded = ver.const ∧ data = decoded.take (decoded.length - 6) := by
  unfold bech32Decode at h
  split at h; · cases h
  rename_i h1
  split at h; · cases h
  rename_i h2
  split at h; · cases h
  rename_i h3
  split at h; · cases h
  rename_i h4
  simp only [lastIdx_lower] at h
  cases hone : lastIdx 0x31 bech with
  | none => simp [hone] at h
  | some one =>
    simp only [hone] at h
    split at h; · cases h
    rename_i h5
    cases hv : toValues ((lowerBytes bech).drop (one + 1)) with
    | none => simp [hv] at h
    | some decoded =>
      simp only [hv] at h
      cases hc : versionOfConst (polymod ((lowerBytes bech).take one) decoded) with
      | none => simp [hc] at h
      | some v =>
        simp only [hc, Option.some.injEq, Prod.mk.injEq] at h
        obtain ⟨rfl, rfl, rfl⟩ := h
        have hlen : (lowerBytes bech).length = bech.length := by simp [lowerBytes]
        refine ⟨by omega, by simpa using h3, by simpa using h4, one, decoded, rfl, by omega, by omega,
          rfl, hv, ?_, rfl⟩
        unfold versionOfConst at hc
        split at hc
        · cases hc; assumption
        · split at hc
          · cases hc; assumption
          · cases hc

theorem regroup8_length (bs : List Bool) :
    (regroup8 bs).1.length = bs.length / 8 ∧ (regroup8 bs).2.length = bs.length % 8 := by
  fun_induction regroup8 bs with
  | case1 a b c d e f g h rest r ih =>
    have hr : r = regroup8 rest := rfl
    obtain ⟨i1, i2⟩ := ih
    simp only [List.length_cons, hr, i1, i2]
    constructor <;> omega
  | case2 rest hne =>
    simp only [List.length_nil]
    have : rest.length < 8 := by
      match rest, hne with
      | [], _ => simp
      | [_], _ => simp
      | [_, _], _ => simp
      | [_, _, _], _ => simp
      | [_, _, _, _], _ => simp
      | [_, _, _, _, _], _ => simp
      | [_, _, _, _, _, _], _ => simp
      | [_, _, _, _, _, _, _], _ => simp
      | a :: b :: c :: d :: e :: f :: g :: h :: rest, hne => exact absurd rfl (hne a b c d e f g h rest)
    omega

theorem flatMap_bits5_length (l : List Nat) : (l.flatMap bits5).length = 5 * l.length := by
  induction l with
  | nil => rfl
  | cons b tl ih => simp only [List.flatMap_cons, List.length_append, ih, List.length_cons]; simp [bits5]; omega

theorem convert5to8_length {rest : List Nat} {prog : Bytes} (h : convert5to8 rest = some prog) :
    prog.length = 5 * rest.length / 8 ∧ 5 * rest.length % 8 ≤ 4 := by
  simp only [convert5to8] at h
  have hl := regroup8_length (rest.flatMap bits5)
  rw [flatMap_bits5_length] at hl
  split at h
  · cases h
  · rename_i hc
    cases h
    refine ⟨hl.1, ?_⟩
    have : ¬ (regroup8 (rest.flatMap bits5)).2.length > 4 := fun hh => hc (Or.inl hh)
    omega

/-- Inversion of decodeSegWitAddress. -/
theorem decodeSegWit_inv {addr : Bytes} {ver : Nat} {prog : Bytes}
    (h : decodeSegWit addr = some (ver, prog)) :
    ∃ hrp rest bver, bech32Decode addr = some (hrp, ver :: rest, bver) ∧ ver ≤ 16 ∧
      convert5to8 rest = some prog ∧ 2 ≤ prog.length ∧ prog.length ≤ 40 ∧
      (ver = 0 → (prog.length = 20 ∨ prog.length = 32) ∧ bver = .v0) ∧ (ver = 1 → bver = .vM) := by
  unfold decodeSegWit at h
  split at h; · cases h
  rename_i hrp data bver hb
  split at h; · cases h
  rename_i version rest
  split at h; · cases h
  rename_i hv
  split at h; · cases h
  rename_i p hp
  split at h; · cases h
  rename_i h1
  split at h; · cases h
  rename_i h2
  split at h; · cases h
  rename_i h3
  split at h; · cases h
  rename_i h4
  simp only [Option.some.injEq, Prod.mk.injEq] at h
  obtain ⟨rfl, rfl⟩ := h
  refine ⟨hrp, rest, bver, hb, by omega, hp, by omega, by omega, ?_, ?_⟩
  · intro h0
    subst h0
    refine ⟨by omega, ?_⟩
    cases bver
    · rfl
    · exact absurd ⟨rfl, by decide⟩ h3
  · intro h1'
    subst h1'
    cases bver
    · exact absurd ⟨rfl, by decide⟩ h4
    · rfl

/-- the byte length of a string accepted by the segwit branch -/
theorem segwit_accepted_length {addr : Bytes} {one ver : Nat} {prog : Bytes}
    (hone : lastIdx 0x31 addr = some one) (hds : decodeSegWit addr = some (ver, prog)) :
    ∃ n, addr.length = one + 8 + n ∧ prog.length = 5 * n / 8 ∧ 5 * n % 8 ≤ 4 := by
  obtain ⟨hrp, rest, bver, hb, _, hc, _⟩ := decodeSegWit_inv hds
  obtain ⟨_, _, _, one', decoded, h1, h2, h3, _, h5, _, h7⟩ := bech32Decode_inv hb
  rw [hone] at h1
  cases h1
  have hdl := toValues_length _ _ h5
  have hlen : (lowerBytes addr).length = addr.length := by simp [lowerBytes]
  rw [List.length_drop, hlen] at hdl
  have h7l := congrArg List.length h7
  simp only [List.length_cons, List.length_take] at h7l
  obtain ⟨hp1, hp2⟩ := convert5to8_length hc
  exact ⟨rest.length, by omega, hp1, hp2⟩

/-! ## The public-key parser is irrelevant -/

theorem decodeBytes_indep (pk pk' : Bytes → Bool) (net : Net) (addr : Bytes) :
    decodeBytes pk net addr = decodeBytes pk' net addr := by
  unfold decodeBytes decodeAddress
  cases segwitBranch addr with
  | some r => rfl
  | none =>
    by_cases hl : addr.length = 130 ∨ addr.length = 66
    · simp only [hl, if_true]
      cases hexDecode addr with
      | none => rfl
      | some ser => cases h1 : pk ser <;> cases h2 : pk' ser <;> simp [h1, h2, Address.isForNet]
    · simp only [hl, if_false]

/-- `DecodeBtcAddress` does not depend on whether a 33/65-byte hex string is a curve point. -/
theorem decode_indep_pubkeyParses (pk : Bytes → Bool) (net : Net) (s : String) :
    decodeBtcAddressWith pk net s = decodeBtcAddress net s :=
  decodeBytes_indep pk _ net (utf8 s)

/-! ## 1. Soundness: only the five standard forms -/

/-- the five standard output-script forms -/
inductive StdScript : Bytes → Prop
  | p2pkh (h : Bytes) : h.length = 20 → StdScript ([0x76, 0xa9, 0x14] ++ h ++ [0x88, 0xac])
  | p2sh (h : Bytes) : h.length = 20 → StdScript ([0xa9, 0x14] ++ h ++ [0x87])
  | p2wpkh (p : Bytes) : p.length = 20 → StdScript ([0x00, 0x14] ++ p)
  | p2wsh (p : Bytes) : p.length = 32 → StdScript ([0x00, 0x20] ++ p)
  | p2tr (p : Bytes) : p.length = 32 → StdScript ([0x51, 0x20] ++ p)

/-- a pay-to-pubkey script: push of a 33- or 65-byte key, OP_CHECKSIG -/
def IsP2PK (sc : Bytes) : Prop :=
  ∃ key : Bytes, (key.length = 33 ∨ key.length = 65) ∧ sc = UInt8.ofNat key.length :: key ++ [0xac]

theorem stdScript_not_p2pk {sc : Bytes} (h : StdScript sc) : ¬ IsP2PK sc := by
  rintro ⟨key, hk, hsc⟩
  have hl := congrArg List.length hsc
  cases h with
  | p2pkh h hh => simp at hl; omega
  | p2sh h hh => simp at hl; omega
  | p2wpkh p hp => simp at hl; omega
  | p2wsh p hp => simp at hl; omega
  | p2tr p hp => simp at hl; omega

theorem decode_sound_bytes {pk : Bytes → Bool} {net : Net} {addr sc : Bytes}
    (h : decodeBytes pk net addr = some sc) : StdScript sc ∧ ¬ IsP2PK sc := by
  have hs : StdScript sc := by
    rcases decodeBytes_inv h with ⟨_, _, prog, _, _, _, _, _, h6⟩ | ⟨_, _, _, payload, _, _, hl, h4⟩
    · rcases h6 with ⟨hl, _, rfl⟩ | ⟨hl, _, rfl⟩ | ⟨hl, _, rfl⟩
      · exact .p2wpkh prog hl
      · exact .p2wsh prog hl
      · exact .p2tr prog hl
    · rcases h4 with ⟨_, rfl⟩ | ⟨_, rfl⟩
      · exact .p2pkh payload hl
      · exact .p2sh payload hl
  exact ⟨hs, stdScript_not_p2pk hs⟩

/-- **decode_sound**: whatever `DecodeBtcAddress` returns is exactly one of the five standard forms
    (P2PKH `76 a9 14 <20> 88 ac`, P2SH `a9 14 <20> 87`, P2WPKH `00 14 <20>`, P2WSH `00 20 <32>`,
    P2TR `51 20 <32>`) and never a pay-to-pubkey script. -/
theorem decode_sound {net : Net} {s : String} {sc : Bytes} (h : decodeBtcAddress net s = some sc) :
    StdScript sc ∧ ¬ IsP2PK sc :=
  decode_sound_bytes h

/-! ## 4. Hex public keys (66 / 130 characters) are rejected -/

theorem net_hrp_len2 (net : Net) : net.hrp.length = 2 ∨ net.hrp.length = 4 := by cases net <;> decide

/-- an accepted segwit string has 42, 44, 62 or 64 bytes -/
theorem segwit_accepted_length' {net : Net} {addr : Bytes} {one ver : Nat} {prog : Bytes}
    (hone : lastIdx 0x31 addr = some one) (hds : decodeSegWit addr = some (ver, prog))
    (hhrp : lowerBytes (addr.take one) = net.hrp) (hpl : prog.length = 20 ∨ prog.length = 32) :
    addr.length = 42 ∨ addr.length = 44 ∨ addr.length = 62 ∨ addr.length = 64 := by
  obtain ⟨n, h1, h2, h3⟩ := segwit_accepted_length hone hds
  have hlt := (lastIdx_some addr one hone).1
  have h4 := congrArg List.length hhrp
  simp only [lowerBytes, List.length_map, List.length_take] at h4
  have := net_hrp_len2 net
  omega

/-- **p2pk_rejected** (byte level): every string of 66 or 130 bytes is rejected, whatever the
    public-key parser says — no accepted address has that length. -/
theorem p2pk_rejected_bytes (pk : Bytes → Bool) (net : Net) (addr : Bytes)
    (hlen : addr.length = 66 ∨ addr.length = 130) : decodeBytes pk net addr = none := by
  cases h : decodeBytes pk net addr with
  | none => rfl
  | some sc =>
    exfalso
    rcases decodeBytes_inv h with ⟨one, ver, prog, h1, _, _, h4, h5, h6⟩ | ⟨_, h2, h3, _⟩
    · have hpl : prog.length = 20 ∨ prog.length = 32 := by
        rcases h6 with ⟨hl, _⟩ | ⟨hl, _⟩ | ⟨hl, _⟩ <;> simp [hl]
      have := segwit_accepted_length' h1 h4 h5 hpl
      omega
    · omega

theorem p2pk_rejected (pk : Bytes → Bool) (net : Net) (s : String)
    (hlen : (utf8 s).length = 66 ∨ (utf8 s).length = 130) : decodeBtcAddressWith pk net s = none :=
  p2pk_rejected_bytes pk net _ hlen

/-! ## 3. Foreign networks -/

/-- A string taken by the segwit branch (last '1' at index > 1, registered prefix) whose lower-cased
    human-readable part is not the one of `net` is rejected; nothing else is tried. -/
theorem segwit_foreign_rejected_bytes (pk : Bytes → Bool) (net : Net) (addr : Bytes) (one : Nat)
    (hone : lastIdx 0x31 addr = some one) (hgt : 1 < one)
    (hpre : isBech32SegwitPrefix (addr.take (one + 1)) = true)
    (hhrp : lowerBytes (addr.take one) ≠ net.hrp) : decodeBytes pk net addr = none := by
  cases h : decodeBytes pk net addr with
  | none => rfl
  | some sc =>
    exfalso
    rcases decodeBytes_inv h with ⟨one', _, _, h1, _, _, _, h5, _⟩ | ⟨hsb, _⟩
    · rw [hone] at h1; cases h1
      exact hhrp h5
    · unfold segwitBranch at hsb
      simp [hone, hgt, hpre] at hsb

theorem charsetAt_any (v : Nat) : charsetAt v ≠ 0x31 ∧ charsetAt v < 128 := by
  rw [charsetAt_mod]
  have := charsetAt_props (v % 32) (Nat.mod_lt _ (by decide))
  refine ⟨this.1, ?_⟩
  have h := this.2.2.1
  exact Nat.lt_of_le_of_lt (UInt8.le_iff_toNat_le.mp h) (by decide)

/-- shape of a bech32 string: separator position and prefix, for arbitrary data symbols -/
theorem bech32Encode_sep' (h : Bytes) (data : List Nat) (ver : B32Version) (hlow : lowerBytes h = h) :
    lastIdx 0x31 (bech32Encode h data ver) = some h.length ∧
    (bech32Encode h data ver).take (h.length + 1) = h ++ [0x31] ∧
    (bech32Encode h data ver).take h.length = h := by
  unfold bech32Encode
  simp only [hlow, List.append_assoc, List.singleton_append]
  refine ⟨?_, ?_, ?_⟩
  · apply lastIdx_sep
    intro hc
    simp only [List.mem_map] at hc
    obtain ⟨v, _, hv2⟩ := hc
    exact (charsetAt_any v).1 hv2
  · rw [List.take_append, List.take_of_length_le (Nat.le_succ _)]
    simp
  · simp

theorem bech32Encode_ascii (h : Bytes) (data : List Nat) (ver : B32Version) (hg : GoodHrp h) :
    ∀ b ∈ bech32Encode h data ver, b < 128 := by
  unfold bech32Encode
  rw [goodHrp_lower hg]
  intro b hb
  simp only [List.mem_append, List.mem_cons, List.mem_map, List.not_mem_nil, or_false] at hb
  rcases hb with (hb | rfl) | ⟨v, _, rfl⟩
  · have := (hg.2.2 b hb).2.1
    exact Nat.lt_of_le_of_lt (UInt8.le_iff_toNat_le.mp this) (by decide)
  · decide
  · exact (charsetAt_any v).2

theorem utf8_encodeSegwit (net : Net) (ver : Nat) (prog : Bytes) :
    utf8 (encodeSegwit net.hrpStr ver prog) = encodeSegwitBytes net.hrp ver prog := by
  unfold encodeSegwit
  rw [utf8_hrpStr]
  exact utf8_bytesToString _ (bech32Encode_ascii _ _ _ (net_hrp_good net))

/-! ## 2a. Round trips, segwit -/

/-- P2WPKH: `hrp1q…` of a 20-byte program decodes to `00 14 prog`. -/
theorem roundtrip_p2wpkh (net : Net) (prog : Bytes) (h : prog.length = 20) :
    decodeBtcAddress net (encodeSegwit net.hrpStr 0 prog) = some ([0x00, 0x14] ++ prog) := by
  unfold decodeBtcAddress decodeBtcAddressWith
  rw [utf8_encodeSegwit, segwit_roundtrip_bytes _ net 0 prog (Or.inl rfl) (Or.inl h)]
  simp [h]

/-- P2WSH: `hrp1q…` of a 32-byte program decodes to `00 20 prog`. -/
theorem roundtrip_p2wsh (net : Net) (prog : Bytes) (h : prog.length = 32) :
    decodeBtcAddress net (encodeSegwit net.hrpStr 0 prog) = some ([0x00, 0x20] ++ prog) := by
  unfold decodeBtcAddress decodeBtcAddressWith
  rw [utf8_encodeSegwit, segwit_roundtrip_bytes _ net 0 prog (Or.inl rfl) (Or.inr h)]
  simp [h]

/-- P2TR: `hrp1p…` (bech32m) of a 32-byte program decodes to `51 20 prog`. -/
theorem roundtrip_p2tr (net : Net) (prog : Bytes) (h : prog.length = 32) :
    decodeBtcAddress net (encodeSegwit net.hrpStr 1 prog) = some ([0x51, 0x20] ++ prog) := by
  unfold decodeBtcAddress decodeBtcAddressWith
  rw [utf8_encodeSegwit, segwit_roundtrip_bytes _ net 1 prog (Or.inr rfl) (Or.inr h)]
  simp [h]

/-- **Quirk (a genuine deviation from "decoded to exactly the script they encode")**: a witness
    version 1 address with a 20-byte program (valid bech32m; it denotes the output `51 14 prog`) is
    ACCEPTED and decoded to the version-0 script `00 14 prog`: btcutil.DecodeAddress dispatches on the
    program length only and builds an AddressWitnessPubKeyHash, whose version is hard-wired to 0. -/
theorem v1_20byte_decodes_to_v0_script (net : Net) (prog : Bytes) (h : prog.length = 20) :
    decodeBtcAddress net (encodeSegwit net.hrpStr 1 prog) = some ([0x00, 0x14] ++ prog) := by
  unfold decodeBtcAddress decodeBtcAddressWith
  rw [utf8_encodeSegwit, segwit_roundtrip_bytes _ net 1 prog (Or.inr rfl) (Or.inl h)]
  simp [h]

/-! ## 3a. Foreign networks, segwit -/

/-- A well-formed segwit string for a registered human-readable part other than the one of `net`
    is rejected — for every witness version and program (byte level). -/
theorem foreign_segwit_rejected_bytes (pk : Bytes → Bool) (net : Net) (h : Bytes) (hg : GoodHrp h)
    (h2 : 1 < h.length) (hreg : isBech32SegwitPrefix (h ++ [0x31]) = true) (hne : h ≠ net.hrp)
    (ver : Nat) (prog : Bytes) : decodeBytes pk net (encodeSegwitBytes h ver prog) = none := by
  unfold encodeSegwitBytes
  obtain ⟨e1, e2, e3⟩ := bech32Encode_sep' h (ver :: convert8to5 prog) (if ver = 0 then .v0 else .vM)
    (goodHrp_lower hg)
  apply segwit_foreign_rejected_bytes pk net _ h.length e1 h2
  · rw [e2]; exact hreg
  · rw [e3, goodHrp_lower hg]; exact hne

/-- **foreign_network_rejected (segwit)**: an address carrying the human-readable part of another
    of the four networks is rejected unless that network has the same human-readable part
    (testnet3 and signet share "tb", so their addresses are interchangeable). -/
theorem foreign_network_rejected_segwit (net net' : Net) (hne : net'.hrp ≠ net.hrp) (ver : Nat)
    (prog : Bytes) : decodeBtcAddress net (encodeSegwit net'.hrpStr ver prog) = none := by
  unfold decodeBtcAddress decodeBtcAddressWith
  rw [utf8_encodeSegwit]
  exact foreign_segwit_rejected_bytes _ net net'.hrp (net_hrp_good net') (net_hrp_len net')
    (net_prefix_registered net') hne ver prog

/-- simnet ("sb") is registered in chaincfg, so its addresses enter the segwit branch and are
    rejected by every GOAT network. -/
theorem simnet_segwit_rejected (pk : Bytes → Bool) (net : Net) (ver : Nat) (prog : Bytes) :
    decodeBytes pk net (encodeSegwitBytes [0x73, 0x62] ver prog) = none := by
  apply foreign_segwit_rejected_bytes
  · unfold GoodHrp; decide
  · decide
  · decide
  · cases net <;> decide

/-! ## Positional notation (the bignum argument behind base58) -/

/-- little-endian digits, no trailing zero digit; `fuel ≥ x` suffices -/
def digitsLE (base : Nat) : Nat → Nat → List Nat
  | 0, _ => []
  | fuel + 1, x => if x = 0 then [] else (x % base) :: digitsLE base fuel (x / base)

def ofDigitsLE (base : Nat) : List Nat → Nat
  | [] => 0
  | d :: ds => d + base * ofDigitsLE base ds

theorem div_le_fuel {base fuel x : Nat} (hb : 2 ≤ base) (hx : x ≤ fuel + 1) (h0 : x ≠ 0) :
    x / base ≤ fuel := by
  have : x / base < x := Nat.div_lt_self (by omega) (by omega)
  omega

theorem ofDigitsLE_digitsLE (base : Nat) (hb : 2 ≤ base) : ∀ fuel x, x ≤ fuel →
    ofDigitsLE base (digitsLE base fuel x) = x := by
  intro fuel
  induction fuel with
  | zero => intro x hx; have : x = 0 := by omega
            subst this; rfl
  | succ fuel ih =>
    intro x hx
    unfold digitsLE
    by_cases h0 : x = 0
    · simp [h0, ofDigitsLE]
    · simp only [h0, if_false, ofDigitsLE, ih _ (div_le_fuel hb hx h0)]
      exact Nat.mod_add_div x base

theorem digitsLE_lt (base : Nat) (hb : 2 ≤ base) : ∀ fuel x, ∀ d ∈ digitsLE base fuel x, d < base := by
  intro fuel
  induction fuel with
  | zero => intro x d hd; simp [digitsLE] at hd
  | succ fuel ih =>
    intro x d hd
    unfold digitsLE at hd
    split at hd
    · cases hd
    · simp only [List.mem_cons] at hd
      rcases hd with rfl | hd
      · exact Nat.mod_lt _ (by omega)
      · exact ih _ d hd

/-- the most significant digit is not zero -/
theorem digitsLE_getLast (base : Nat) (hb : 2 ≤ base) : ∀ fuel x, x ≤ fuel →
    (digitsLE base fuel x).getLast? ≠ some 0 := by
  intro fuel
  induction fuel with
  | zero => intro x _; simp [digitsLE]
  | succ fuel ih =>
    intro x hx
    unfold digitsLE
    by_cases h0 : x = 0
    · simp [h0]
    · simp only [h0, if_false]
      have ih' := ih (x / base) (div_le_fuel hb hx h0)
      cases hq : digitsLE base fuel (x / base) with
      | nil =>
        simp only [List.getLast?_singleton, ne_eq, Option.some.injEq]
        -- x / base = 0 (its digit list is empty), so x % base = x ≠ 0
        have hq0 : x / base = 0 := by
          have := ofDigitsLE_digitsLE base hb fuel (x / base) (div_le_fuel hb hx h0)
          rw [hq] at this
          exact this.symm
        have := Nat.mod_add_div x base
        rw [hq0] at this
        omega
      | cons d ds =>
        rw [hq] at ih'
        rw [List.getLast?_cons_cons]
        exact ih'

/-- uniqueness of the representation -/
theorem digitsLE_ofDigitsLE (base : Nat) (hb : 2 ≤ base) : ∀ (ds : List Nat) (fuel : Nat),
    (∀ d ∈ ds, d < base) → ds.getLast? ≠ some 0 → ofDigitsLE base ds ≤ fuel →
    digitsLE base fuel (ofDigitsLE base ds) = ds := by
  intro ds
  induction ds with
  | nil => intro fuel _ _ _; cases fuel <;> simp [digitsLE, ofDigitsLE]
  | cons d ds ih =>
    intro fuel hlt hlast hf
    have hd : d < base := hlt d (by simp)
    have hne : ofDigitsLE base (d :: ds) ≠ 0 := by
      simp only [ofDigitsLE]
      cases ds with
      | nil =>
        simp only [List.getLast?_singleton, ne_eq, Option.some.injEq] at hlast
        simp [ofDigitsLE]; exact hlast
      | cons e es =>
        intro h
        have h2 : base * ofDigitsLE base (e :: es) = 0 := by omega
        have h3 : ofDigitsLE base (e :: es) = 0 := by
          rcases Nat.mul_eq_zero.mp h2 with h | h
          · omega
          · exact h
        rw [List.getLast?_cons_cons] at hlast
        have := ih 0 (fun x hx => hlt x (by simp [hx])) hlast (by omega)
        rw [h3] at this
        simp [digitsLE] at this
    cases fuel with
    | zero => omega
    | succ fuel =>
      unfold digitsLE
      simp only [hne, if_false]
      have hm : ofDigitsLE base (d :: ds) % base = d := by
        simp only [ofDigitsLE]
        rw [Nat.add_mul_mod_self_left]
        exact Nat.mod_eq_of_lt hd
      have hq : ofDigitsLE base (d :: ds) / base = ofDigitsLE base ds := by
        simp only [ofDigitsLE]
        rw [Nat.add_mul_div_left _ _ (by omega : 0 < base), Nat.div_eq_of_lt hd, Nat.zero_add]
      rw [hm, hq]
      congr 1
      apply ih fuel (fun x hx => hlt x (by simp [hx]))
      · cases ds with
        | nil => simp
        | cons e es => rw [List.getLast?_cons_cons] at hlast; exact hlast
      · have := div_le_fuel hb hf hne
        rw [hq] at this
        exact this

/-! ## G. base58: decode ∘ encode = id, CheckDecode ∘ CheckEncode, first character, lengths -/

theorem digits58LE_eq (fuel x : Nat) : digits58LE fuel x = digitsLE 58 fuel x := by
  induction fuel generalizing x with
  | zero => rfl
  | succ fuel ih => simp only [digits58LE, digitsLE, ih]

theorem natBytesLE_eq (fuel x : Nat) : natBytesLE fuel x = (digitsLE 256 fuel x).map UInt8.ofNat := by
  induction fuel generalizing x with
  | zero => rfl
  | succ fuel ih =>
    simp only [natBytesLE, digitsLE, ih]
    split <;> simp

theorem ofDigits_snoc (base : Nat) (ds : List Nat) (d : Nat) :
    ofDigits base (ds ++ [d]) = ofDigits base ds * base + d := by
  simp [ofDigits, List.foldl_append]

theorem ofDigitsLE_eq (base : Nat) (ds : List Nat) : ofDigitsLE base ds = ofDigits base ds.reverse := by
  induction ds with
  | nil => rfl
  | cons d ds ih =>
    rw [List.reverse_cons, ofDigits_snoc, ← ih, ofDigitsLE]
    rw [Nat.mul_comm, Nat.add_comm]

theorem ofDigits_eq (base : Nat) (ds : List Nat) : ofDigits base ds = ofDigitsLE base ds.reverse := by
  rw [ofDigitsLE_eq, List.reverse_reverse]

theorem beToNat_eq (bs : Bytes) : beToNat bs = ofDigits 256 (bs.map UInt8.toNat) := by
  simp [beToNat, ofDigits, List.foldl_map]

theorem ofDigits_zeros (base k : Nat) (ds : List Nat) :
    ofDigits base (List.replicate k 0 ++ ds) = ofDigits base ds := by
  induction k with
  | zero => simp
  | succ k ih =>
    rw [List.replicate_succ, List.cons_append]
    unfold ofDigits at ih ⊢
    simpa [List.foldl_cons] using ih

theorem alphabetAt_props : ∀ d, d < 58 → b58Idx (alphabetAt d) = some d ∧
    (alphabetAt d = 0x31 ↔ d = 0) ∧ alphabetAt d < 128 := by decide +kernel

theorem b58Digits_map (l : List Nat) (h : ∀ d ∈ l, d < 58) : b58Digits (l.map alphabetAt) = some l := by
  induction l with
  | nil => rfl
  | cons d tl ih =>
    have hd := (alphabetAt_props d (h d (by simp))).1
    simp only [List.map_cons, b58Digits, hd, ih (fun w hw => h w (by simp [hw]))]

theorem countLeading_replicate (c : UInt8) (k : Nat) (rest : Bytes) (h : rest.head? ≠ some c) :
    countLeading c (List.replicate k c ++ rest) = k := by
  induction k with
  | zero =>
    cases rest with
    | nil => rfl
    | cons b tl =>
      simp only [List.head?_cons, ne_eq, Option.some.injEq] at h
      simp [countLeading, h]
  | succ k ih => simp [List.replicate_succ, countLeading, ih]

/-- a byte string is its leading zero bytes followed by the rest, which does not start with zero -/
theorem split_leading (c : UInt8) (b : Bytes) :
    b = List.replicate (countLeading c b) c ++ b.drop (countLeading c b) ∧
    (b.drop (countLeading c b)).head? ≠ some c := by
  induction b with
  | nil => simp [countLeading]
  | cons x tl ih =>
    unfold countLeading
    by_cases hx : x = c
    · subst hx
      simp only [if_true, List.replicate_succ, List.drop_succ_cons, List.cons_append]
      exact ⟨by rw [← ih.1], ih.2⟩
    · simp [hx]

/-- **base58.Decode ∘ base58.Encode = id** on byte strings of every length. -/
theorem base58Decode_encode (b : Bytes) : base58Decode (base58Encode b) = b := by
  obtain ⟨hsplit, hhead⟩ := split_leading 0 b
  generalize hk : countLeading 0 b = k at hsplit hhead
  generalize hb' : b.drop k = b' at hsplit hhead
  -- the number
  have hx : beToNat b = ofDigitsLE 256 (b'.reverse.map UInt8.toNat) := by
    rw [beToNat_eq, hsplit, List.map_append, List.map_replicate]
    show ofDigits 256 (List.replicate k 0 ++ _) = _
    rw [ofDigits_zeros, ofDigits_eq, List.map_reverse]
  generalize hxx : beToNat b = x at hx
  -- the base-58 digits
  have hD := digits58LE_eq x x
  generalize hDD : digitsLE 58 x x = D at hD
  have hDlt : ∀ d ∈ D, d < 58 := by rw [← hDD]; exact digitsLE_lt 58 (by decide) x x
  have hDlast : D.getLast? ≠ some 0 := by rw [← hDD]; exact digitsLE_getLast 58 (by decide) x x (Nat.le_refl _)
  have hDval : ofDigitsLE 58 D = x := by rw [← hDD]; exact ofDigitsLE_digitsLE 58 (by decide) x x (Nat.le_refl _)
  have hs : base58Encode b = (List.replicate k 0 ++ D.reverse).map alphabetAt := by
    unfold base58Encode
    simp only [hxx, hk, hD, List.map_append, List.map_replicate]
    rfl
  have hdig : b58Digits (base58Encode b) = some (List.replicate k 0 ++ D.reverse) := by
    rw [hs]
    apply b58Digits_map
    intro d hd
    simp only [List.mem_append, List.mem_replicate, List.mem_reverse] at hd
    rcases hd with ⟨_, rfl⟩ | hd
    · decide
    · exact hDlt d hd
  have hcount : countLeading 0x31 (base58Encode b) = k := by
    rw [hs, List.map_append, List.map_replicate]
    show countLeading 0x31 (List.replicate k 0x31 ++ _) = k
    apply countLeading_replicate
    cases hr : D.reverse with
    | nil => simp
    | cons t ts =>
      simp only [List.map_cons, List.head?_cons, ne_eq, Option.some.injEq]
      have ht : t ∈ D := by rw [← List.mem_reverse, hr]; simp
      have ht0 : t ≠ 0 := by
        intro h0
        apply hDlast
        rw [← List.head?_reverse, hr, h0]
        rfl
      intro h
      exact ht0 ((alphabetAt_props t (hDlt t ht)).2.1.mp h)
  unfold base58Decode
  rw [hdig]
  simp only [hcount, ofDigits_zeros]
  rw [ofDigits_eq, List.reverse_reverse, hDval]
  -- the bytes of x
  unfold natBytesBE
  rw [natBytesLE_eq, hx]
  rw [digitsLE_ofDigitsLE 256 (by decide)]
  · have e : (List.map UInt8.ofNat (List.map UInt8.toNat b'.reverse)).reverse = b' := by
      rw [← List.map_reverse, ← List.map_reverse, List.reverse_reverse, List.map_map]
      rw [List.map_congr_left (g := id)]
      · simp
      · intro a _; simp
    rw [e, ← hsplit]
  · intro d hd
    simp only [List.mem_map, List.mem_reverse] at hd
    obtain ⟨a, _, rfl⟩ := hd
    exact a.toNat_lt
  · rw [List.getLast?_map, List.getLast?_reverse]
    cases b' with
    | nil => simp
    | cons a tl =>
      simp only [List.head?_cons, ne_eq, Option.some.injEq] at hhead
      simp only [List.head?_cons, Option.map_some, ne_eq, Option.some.injEq]
      intro h0
      apply hhead
      exact UInt8.toNat_inj.mp (by simpa using h0)
  · exact Nat.le_refl _

theorem checksum4_length (bs : Bytes) : (checksum4 bs).length = 4 := by
  simp [checksum4, List.length_take]

/-- base58.CheckDecode ∘ base58.CheckEncode -/
theorem checkDecode_encode (v : UInt8) (payload : Bytes) :
    checkDecode (encodeBase58CheckBytes v payload) = some (payload, v) := by
  unfold checkDecode encodeBase58CheckBytes
  simp only [base58Decode_encode]
  have h4 := checksum4_length (v :: payload)
  generalize hck : checksum4 (v :: payload) = ck at h4
  have e1 : ¬ (v :: payload ++ ck).length < 5 := by simp [h4]
  have e3 : (v :: payload ++ ck).length - 4 = (v :: payload).length := by simp [h4]
  have e4 : (v :: payload ++ ck).take (v :: payload).length = v :: payload := List.take_left'  rfl
  have e5 : (v :: payload ++ ck).drop (v :: payload).length = ck := List.drop_left' rfl
  rw [if_neg e1, e3, e4, e5]
  simp [hck]

theorem digitsLE_length_le (base : Nat) (hb : 2 ≤ base) : ∀ (n fuel x : Nat), x < base ^ n →
    (digitsLE base fuel x).length ≤ n := by
  intro n
  induction n with
  | zero =>
    intro fuel x hx
    have : x = 0 := by simpa using hx
    subst this
    cases fuel <;> simp [digitsLE]
  | succ n ih =>
    intro fuel x hx
    cases fuel with
    | zero => simp [digitsLE]
    | succ fuel =>
      unfold digitsLE
      split
      · simp
      · simp only [List.length_cons]
        have : x / base < base ^ n := by
          rw [Nat.div_lt_iff_lt_mul (by omega)]
          rwa [Nat.pow_succ] at hx
        have := ih fuel (x / base) this
        omega

theorem beFold_acc (l : Bytes) : ∀ acc : Nat,
    l.foldl (fun acc b => acc * 256 + b.toNat) acc = acc * 256 ^ l.length + beToNat l := by
  induction l with
  | nil => intro acc; simp [beToNat]
  | cons b tl ih =>
    intro acc
    simp only [List.foldl_cons, List.length_cons, beToNat]
    rw [ih, ih (0 * 256 + b.toNat), Nat.pow_succ]
    simp only [Nat.zero_mul, Nat.zero_add, Nat.add_mul, Nat.mul_assoc, Nat.add_assoc]
    congr 2
    rw [Nat.mul_comm]

theorem beToNat_lt (l : Bytes) : beToNat l < 256 ^ l.length := by
  induction l with
  | nil => simp [beToNat]
  | cons b tl ih =>
    have h := beFold_acc tl (0 * 256 + b.toNat)
    have hb := b.toNat_lt
    simp only [beToNat, List.foldl_cons, List.length_cons] at h ih ⊢
    rw [h, Nat.pow_succ]
    calc (0 * 256 + b.toNat) * 256 ^ tl.length + List.foldl (fun acc b => acc * 256 + b.toNat) 0 tl
        < (0 * 256 + b.toNat) * 256 ^ tl.length + 256 ^ tl.length := by omega
      _ = (b.toNat + 1) * 256 ^ tl.length := by simp [Nat.add_mul]
      _ ≤ 256 * 256 ^ tl.length := Nat.mul_le_mul_right _ (by omega)
      _ = 256 ^ tl.length * 256 := Nat.mul_comm _ _

theorem beToNat_cons (a : UInt8) (rest : Bytes) :
    beToNat (a :: rest) = a.toNat * 256 ^ rest.length + beToNat rest := by
  have h := beFold_acc rest (0 * 256 + a.toNat)
  simp only [beToNat, List.foldl_cons] at h ⊢
  rw [h]
  simp

theorem digitsLE_zero (base fuel : Nat) : digitsLE base fuel 0 = [] := by
  cases fuel <;> simp [digitsLE]

/-- the most significant digit `t` and the number of digits below it bracket the number -/
theorem digitsLE_top (base : Nat) (hb : 2 ≤ base) : ∀ fuel x, x ≤ fuel → x ≠ 0 →
    ∃ t ds, digitsLE base fuel x = ds ++ [t] ∧ 1 ≤ t ∧ t < base ∧
      t * base ^ ds.length ≤ x ∧ x < (t + 1) * base ^ ds.length := by
  intro fuel
  induction fuel with
  | zero => intro x hx h0; omega
  | succ fuel ih =>
    intro x hx h0
    unfold digitsLE
    simp only [h0, if_false]
    have hdm := Nat.div_add_mod x base
    have hr : x % base < base := Nat.mod_lt _ (by omega)
    by_cases hq : x / base = 0
    · rw [hq, digitsLE_zero]
      refine ⟨x % base, [], rfl, ?_, hr, ?_, ?_⟩
      · rw [hq] at hdm; omega
      · rw [hq] at hdm; simp; omega
      · rw [hq] at hdm; simp; omega
    · obtain ⟨t, ds, hds, ht1, ht2, hlo, hhi⟩ := ih (x / base) (div_le_fuel hb hx h0) hq
      refine ⟨t, (x % base) :: ds, by rw [hds]; rfl, ht1, ht2, ?_, ?_⟩
      · simp only [List.length_cons, Nat.pow_succ]
        have := Nat.mul_le_mul_right base hlo
        rw [Nat.mul_assoc] at this
        have e : x / base * base = base * (x / base) := Nat.mul_comm _ _
        omega
      · simp only [List.length_cons, Nat.pow_succ]
        have h1 : x / base + 1 ≤ (t + 1) * base ^ ds.length := hhi
        have := Nat.mul_le_mul_right base h1
        rw [Nat.mul_assoc, Nat.add_mul] at this
        have e : x / base * base = base * (x / base) := Nat.mul_comm _ _
        omega

theorem top_range {x lo hi e tlo thi t n : Nat} (hlo : lo ≤ x) (hhi : x < hi)
    (h1 : 58 ^ e ≤ lo) (h2 : hi ≤ 58 ^ (e + 1)) (h3 : tlo * 58 ^ e ≤ lo) (h4 : hi ≤ (thi + 1) * 58 ^ e)
    (ht1 : 1 ≤ t) (ht2 : t < 58) (ht3 : t * 58 ^ n ≤ x) (ht4 : x < (t + 1) * 58 ^ n) :
    tlo ≤ t ∧ t ≤ thi := by
  have hn : n = e := by
    rcases Nat.lt_trichotomy n e with h | h | h
    · exfalso
      have a1 : (t + 1) * 58 ^ n ≤ 58 * 58 ^ n := Nat.mul_le_mul_right _ (by omega)
      have a2 : 58 * 58 ^ n = 58 ^ (n + 1) := by rw [Nat.pow_succ, Nat.mul_comm]
      have a3 : 58 ^ (n + 1) ≤ 58 ^ e := Nat.pow_le_pow_right (by decide) h
      omega
    · exact h
    · exfalso
      have a1 : 58 ^ (e + 1) ≤ 58 ^ n := Nat.pow_le_pow_right (by decide) h
      have a2 : 1 * 58 ^ n ≤ t * 58 ^ n := Nat.mul_le_mul_right _ ht1
      omega
  subst hn
  constructor
  · have : tlo * 58 ^ n < (t + 1) * 58 ^ n := by omega
    have := Nat.lt_of_mul_lt_mul_right this
    omega
  · have : t * 58 ^ n < (thi + 1) * 58 ^ n := by omega
    have := Nat.lt_of_mul_lt_mul_right this
    omega

/-- the segwit branch is not taken by a string whose first byte is not b/B, t/T or s/S -/
theorem segwitBranch_none_of_head (s : Bytes) (c : UInt8) (hh : s.head? = some c)
    (hc : asciiLower c ≠ 0x62 ∧ asciiLower c ≠ 0x74 ∧ asciiLower c ≠ 0x73) : segwitBranch s = none := by
  unfold segwitBranch
  cases hone : lastIdx 0x31 s with
  | none => rfl
  | some one =>
    simp only
    by_cases hgt : one > 1
    · simp only [hgt, if_true]
      cases s with
      | nil => simp at hh
      | cons x tl =>
        simp only [List.head?_cons, Option.some.injEq] at hh
        subst hh
        have : isBech32SegwitPrefix (List.take (one + 1) (x :: tl)) = false := by
          simp only [List.take_succ_cons, isBech32SegwitPrefix, registeredPrefixes, lowerBytes, List.map_cons]
          simp [hc.1, hc.2.1, hc.2.2]
        rw [this]
        simp
    · simp [hgt]

/-- first character of base58.Encode(v :: rest) for v ≠ 0, through the most significant base-58 digit -/
theorem base58Encode_head (v : UInt8) (rest : Bytes) (hv : v ≠ 0) :
    ∃ t n, (base58Encode (v :: rest)).head? = some (alphabetAt t) ∧ 1 ≤ t ∧ t < 58 ∧
      t * 58 ^ n ≤ beToNat (v :: rest) ∧ beToNat (v :: rest) < (t + 1) * 58 ^ n ∧
      (base58Encode (v :: rest)).length = n + 1 := by
  have hx0 : beToNat (v :: rest) ≠ 0 := by
    rw [beToNat_cons]
    have : v.toNat ≠ 0 := fun h => hv (UInt8.toNat_inj.mp (by simpa using h))
    have hp : 0 < 256 ^ rest.length := Nat.pow_pos (by decide)
    have : 1 * 256 ^ rest.length ≤ v.toNat * 256 ^ rest.length := Nat.mul_le_mul_right _ (by omega)
    omega
  have hs : base58Encode (v :: rest) =
      (digitsLE 58 (beToNat (v :: rest)) (beToNat (v :: rest))).reverse.map alphabetAt := by
    unfold base58Encode
    simp [countLeading, hv, digits58LE_eq]
  generalize beToNat (v :: rest) = x at hx0 hs
  obtain ⟨t, ds, hds, ht1, ht2, hlo, hhi⟩ := digitsLE_top 58 (by decide) x x (Nat.le_refl _) hx0
  rw [hds] at hs
  refine ⟨t, ds.length, ?_, ht1, ht2, hlo, hhi, ?_⟩
  · rw [hs]; simp
  · rw [hs]; simp

theorem beToNat_zeros (k : Nat) (b : Bytes) : beToNat (List.replicate k 0 ++ b) = beToNat b := by
  rw [beToNat_eq, beToNat_eq, List.map_append, List.map_replicate]
  exact ofDigits_zeros 256 k _

/-- a base58 string is at most twice as long as the bytes it encodes -/
theorem base58Encode_length_le (b : Bytes) : (base58Encode b).length ≤ 2 * b.length := by
  obtain ⟨hsplit, _⟩ := split_leading 0 b
  generalize hk : countLeading 0 b = k at hsplit
  generalize b.drop k = b' at hsplit
  have hx : beToNat b = beToNat b' := by rw [hsplit, beToNat_zeros]
  have hlt : beToNat b < 58 ^ (2 * b'.length) := by
    rw [hx, Nat.pow_mul]
    exact Nat.lt_of_lt_of_le (beToNat_lt b') (Nat.pow_le_pow_left (by decide) _)
  have hD := digitsLE_length_le 58 (by decide) _ (beToNat b) _ hlt
  unfold base58Encode
  simp only [hk, digits58LE_eq, List.length_append, List.length_replicate, List.length_map,
    List.length_reverse]
  have : b.length = k + b'.length := by rw [hsplit]; simp
  omega

theorem base58Encode_zero_head (rest : Bytes) : (base58Encode (0 :: rest)).head? = some 0x31 := by
  unfold base58Encode
  simp [countLeading, List.replicate_succ]

theorem p256_24 : (256 : Nat) ^ 24 = 6277101735386680763835789423207666416102355444464034512896 := by decide

/-- the segwit branch is not taken by the base58check encoding of a 25-byte string whose version
    byte is one of 0x00, 0x05, 0x6f, 0xc4 (the first character is '1', '3', 'm'/'n', '2'). -/
theorem base58_not_segwit (v : UInt8) (rest : Bytes) (hr : rest.length = 24)
    (hv : v = 0x00 ∨ v = 0x05 ∨ v = 0x6f ∨ v = 0xc4) : segwitBranch (base58Encode (v :: rest)) = none := by
  have hx := beToNat_cons v rest
  have hlt := beToNat_lt rest
  rw [hr, p256_24] at hx hlt
  rcases hv with rfl | rfl | rfl | rfl
  · exact segwitBranch_none_of_head _ _ (base58Encode_zero_head rest) (by decide)
  · obtain ⟨t, n, hh, ht1, ht2, hlo, hhi, _⟩ := base58Encode_head 0x05 rest (by decide)
    have hr := top_range (x := beToNat (0x05 :: rest)) (e := 33) (tlo := 2) (thi := 2)
      (lo := 5 * 6277101735386680763835789423207666416102355444464034512896)
      (hi := 6 * 6277101735386680763835789423207666416102355444464034512896)
      (by rw [hx]; simp) (by rw [hx]; simp; omega) (by decide) (by decide) (by decide) (by decide)
      ht1 ht2 hlo hhi
    have : t = 2 := by omega
    subst this
    exact segwitBranch_none_of_head _ _ hh (by decide)
  · obtain ⟨t, n, hh, ht1, ht2, hlo, hhi, _⟩ := base58Encode_head 0x6f rest (by decide)
    have hr := top_range (x := beToNat (0x6f :: rest)) (e := 33) (tlo := 44) (thi := 45)
      (lo := 111 * 6277101735386680763835789423207666416102355444464034512896)
      (hi := 112 * 6277101735386680763835789423207666416102355444464034512896)
      (by rw [hx]; simp) (by rw [hx]; simp; omega) (by decide) (by decide) (by decide) (by decide)
      ht1 ht2 hlo hhi
    have : t = 44 ∨ t = 45 := by omega
    rcases this with rfl | rfl <;> exact segwitBranch_none_of_head _ _ hh (by decide)
  · obtain ⟨t, n, hh, ht1, ht2, hlo, hhi, _⟩ := base58Encode_head 0xc4 rest (by decide)
    have hr := top_range (x := beToNat (0xc4 :: rest)) (e := 34) (tlo := 1) (thi := 1)
      (lo := 196 * 6277101735386680763835789423207666416102355444464034512896)
      (hi := 197 * 6277101735386680763835789423207666416102355444464034512896)
      (by rw [hx]; simp) (by rw [hx]; simp; omega) (by decide) (by decide) (by decide) (by decide)
      ht1 ht2 hlo hhi
    have : t = 1 := by omega
    subst this
    exact segwitBranch_none_of_head _ _ hh (by decide)

theorem net_ids (net : Net) : (net.p2pkhId = 0x00 ∨ net.p2pkhId = 0x05 ∨ net.p2pkhId = 0x6f ∨ net.p2pkhId = 0xc4) ∧
    (net.p2shId = 0x00 ∨ net.p2shId = 0x05 ∨ net.p2shId = 0x6f ∨ net.p2shId = 0xc4) := by
  cases net <;> decide

/-- the whole function on a base58check address of the network, byte level -/
theorem base58_roundtrip_bytes (pk : Bytes → Bool) (net : Net) (v : UInt8) (payload : Bytes)
    (hl : payload.length = 20) (hv : v = net.p2pkhId ∨ v = net.p2shId) :
    decodeBytes pk net (encodeBase58CheckBytes v payload) =
      some (if v = net.p2pkhId then [0x76, 0xa9, 0x14] ++ payload ++ [0x88, 0xac]
            else [0xa9, 0x14] ++ payload ++ [0x87]) := by
  have hcd := checkDecode_encode v payload
  have hrest : (payload ++ checksum4 (v :: payload)).length = 24 := by
    simp [hl, checksum4_length]
  have hv4 : v = 0x00 ∨ v = 0x05 ∨ v = 0x6f ∨ v = 0xc4 := by
    rcases hv with rfl | rfl
    · exact (net_ids net).1
    · exact (net_ids net).2
  have hsb : segwitBranch (encodeBase58CheckBytes v payload) = none := by
    unfold encodeBase58CheckBytes
    exact base58_not_segwit v _ hrest hv4
  have hlen : (encodeBase58CheckBytes v payload).length ≤ 50 := by
    unfold encodeBase58CheckBytes
    have := base58Encode_length_le (v :: payload ++ checksum4 (v :: payload))
    simp only [List.cons_append, List.length_cons, hrest] at this
    simpa using this
  have hne : ¬ ((encodeBase58CheckBytes v payload).length = 130 ∨
      (encodeBase58CheckBytes v payload).length = 66) := by omega
  unfold decodeBytes decodeAddress
  simp only [hsb, hne, if_false, hcd, hl, if_true]
  have hids := ids_ne net
  rcases hv with rfl | rfl
  · simp [hids, Address.isForNet, payToAddrScript]
  · simp [hids.symm, Address.isForNet, payToAddrScript]

theorem encodeBase58Check_ascii (v : UInt8) (payload : Bytes) :
    ∀ b ∈ encodeBase58CheckBytes v payload, b < 128 := by
  unfold encodeBase58CheckBytes base58Encode
  intro b hb
  simp only [List.mem_append, List.mem_replicate, List.mem_map, List.mem_reverse] at hb
  rcases hb with ⟨_, rfl⟩ | ⟨d, hd, rfl⟩
  · decide
  · rw [digits58LE_eq] at hd
    exact (alphabetAt_props d (digitsLE_lt 58 (by decide) _ _ d hd)).2.2

theorem utf8_encodeBase58Check (v : UInt8) (payload : Bytes) :
    utf8 (encodeBase58Check v payload) = encodeBase58CheckBytes v payload :=
  utf8_bytesToString _ (encodeBase58Check_ascii v payload)

/-! ## 2b. Round trips, base58check -/

/-- P2PKH: the base58check string of (PubKeyHashAddrID, 20-byte hash) decodes to `76 a9 14 h 88 ac`. -/
theorem roundtrip_p2pkh (net : Net) (h : Bytes) (hl : h.length = 20) :
    decodeBtcAddress net (encodeBase58Check net.p2pkhId h) =
      some ([0x76, 0xa9, 0x14] ++ h ++ [0x88, 0xac]) := by
  unfold decodeBtcAddress decodeBtcAddressWith
  rw [utf8_encodeBase58Check, base58_roundtrip_bytes _ net _ h hl (Or.inl rfl)]
  simp

/-- P2SH: the base58check string of (ScriptHashAddrID, 20-byte hash) decodes to `a9 14 h 87`. -/
theorem roundtrip_p2sh (net : Net) (h : Bytes) (hl : h.length = 20) :
    decodeBtcAddress net (encodeBase58Check net.p2shId h) = some ([0xa9, 0x14] ++ h ++ [0x87]) := by
  unfold decodeBtcAddress decodeBtcAddressWith
  rw [utf8_encodeBase58Check, base58_roundtrip_bytes _ net _ h hl (Or.inr rfl)]
  simp [(ids_ne net).symm]

/-! ## 3b. Foreign networks, base58check -/

theorem p256_25_lt : (256 : Nat) ^ 25 < 58 ^ 35 := by decide

/-- A base58check address (20-byte hash) whose version byte is neither the P2PKH nor the P2SH id of
    `net` is rejected — whatever the byte is (byte level). -/
theorem foreign_base58_rejected_bytes (pk : Bytes → Bool) (net : Net) (v : UInt8) (payload : Bytes)
    (hl : payload.length = 20) (h1 : v ≠ net.p2pkhId) (h2 : v ≠ net.p2shId) :
    decodeBytes pk net (encodeBase58CheckBytes v payload) = none := by
  cases h : decodeBytes pk net (encodeBase58CheckBytes v payload) with
  | none => rfl
  | some sc =>
    exfalso
    rcases decodeBytes_inv h with ⟨one, ver, prog, a1, a2, a3, a4, a5, a6⟩ | ⟨_, _, _, p, id, b1, _, b3⟩
    · -- the segwit branch: impossible for a string of this shape
      have hsb : segwitBranch (encodeBase58CheckBytes v payload) ≠ none := by
        unfold segwitBranch
        simp [a1, a2, a3]
      have hpl : prog.length = 20 ∨ prog.length = 32 := by
        rcases a6 with ⟨hl, _⟩ | ⟨hl, _⟩ | ⟨hl, _⟩ <;> simp [hl]
      have hlen := segwit_accepted_length' a1 a4 a5 hpl
      unfold encodeBase58CheckBytes at hsb hlen
      by_cases hv0 : v = 0
      · subst hv0
        exact hsb (segwitBranch_none_of_head _ _ (base58Encode_zero_head _) (by decide))
      · obtain ⟨t, n, _, ht1, _, hlo, _, hn⟩ := base58Encode_head v (payload ++ checksum4 (v :: payload)) hv0
        have hx := beToNat_lt (v :: (payload ++ checksum4 (v :: payload)))
        have h25 : (v :: (payload ++ checksum4 (v :: payload))).length = 25 := by
          simp [hl, checksum4_length]
        rw [h25] at hx
        have hn35 : n < 35 := by
          by_cases hge : 35 ≤ n
          · exfalso
            have a : 58 ^ 35 ≤ 58 ^ n := Nat.pow_le_pow_right (by decide) hge
            have b : 1 * 58 ^ n ≤ t * 58 ^ n := Nat.mul_le_mul_right _ ht1
            have := p256_25_lt
            omega
          · omega
        simp only [List.cons_append] at hlen
        omega
    · rw [checkDecode_encode] at b1
      simp only [Option.some.injEq, Prod.mk.injEq] at b1
      obtain ⟨_, rfl⟩ := b1
      rcases b3 with ⟨hid, _⟩ | ⟨hid, _⟩
      · exact h1 hid
      · exact h2 hid

/-- **foreign_network_rejected (base58check)**: a P2PKH / P2SH address of another network is rejected
    unless the two networks use the same version bytes (testnet3, signet and regtest all use 0x6f /
    0xc4, so their base58 addresses are interchangeable; mainnet's 0x00 / 0x05 are its own). -/
theorem foreign_network_rejected_base58 (net net' : Net) (h : Bytes) (hl : h.length = 20)
    (hne : net'.p2pkhId ≠ net.p2pkhId) :
    decodeBtcAddress net (encodeBase58Check net'.p2pkhId h) = none ∧
    decodeBtcAddress net (encodeBase58Check net'.p2shId h) = none := by
  have hall : net'.p2pkhId ≠ net.p2pkhId ∧ net'.p2pkhId ≠ net.p2shId ∧
      net'.p2shId ≠ net.p2pkhId ∧ net'.p2shId ≠ net.p2shId := by
    revert hne; cases net <;> cases net' <;> decide
  unfold decodeBtcAddress decodeBtcAddressWith
  rw [utf8_encodeBase58Check, utf8_encodeBase58Check]
  exact ⟨foreign_base58_rejected_bytes _ net _ h hl hall.1 hall.2.1,
    foreign_base58_rejected_bytes _ net _ h hl hall.2.2.1 hall.2.2.2⟩

/-! ## Converse direction: an accepted string IS the canonical encoding (used for injectivity) -/

theorem xor_cancel_left {a b c : Nat} (h : a ^^^ b = c) : b = a ^^^ c := by
  rw [← h, ← Nat.xor_assoc, Nat.xor_self, Nat.zero_xor]

/-- the six checksum symbols are determined by the rest of the string -/
theorem checksum_unique (hrp : Bytes) (data cs : List Nat) (ver : B32Version) (hl : cs.length = 6)
    (hlt : ∀ v ∈ cs, v < 32) (h : polymod hrp (data ++ cs) = ver.const) :
    cs = bech32Checksum hrp data ver := by
  match cs, hl with
  | [c0, c1, c2, c3, c4, c5], _ =>
    have key : ∀ l, polymod hrp (data ++ l) =
        List.foldl polyStep (List.foldl polyStep 1 (hrpExpand hrp ++ data)) l := by
      intro l
      unfold polymod
      rw [← List.append_assoc, List.foldl_append]
    unfold bech32Checksum
    simp only [key] at h ⊢
    generalize List.foldl polyStep 1 (hrpExpand hrp ++ data) = S at h ⊢
    generalize hZ : List.foldl polyStep S [0, 0, 0, 0, 0, 0] = Z
    have hZlt : Z < 2 ^ 30 := by
      rw [← hZ]
      simp only [List.foldl]
      exact polyStep_lt _ _ (by decide)
    have hc : ver.const < 2 ^ 30 := by cases ver <;> decide
    have hpm : Z ^^^ ver.const < 2 ^ 30 := Nat.xor_lt_two_pow hZlt hc
    rw [fold6_linear, hZ, fold6_zero] at h
    · have h' := xor_cancel_left h
      generalize Z ^^^ ver.const = pm at hpm h'
      have h31 : ∀ n : Nat, n &&& 31 = n % 32 := fun n => by
        rw [show (31 : Nat) = 2 ^ 5 - 1 by decide, Nat.and_two_pow_sub_one_eq_mod]
      simp only [h31, Nat.shiftRight_eq_div_pow]
      have b0 := hlt c0 (by simp)
      have b1 := hlt c1 (by simp)
      have b2 := hlt c2 (by simp)
      have b3 := hlt c3 (by simp)
      have b4 := hlt c4 (by simp)
      have b5 := hlt c5 (by simp)
      have e0 : c0 = pm / 2 ^ 25 % 32 := by omega
      have e1 : c1 = pm / 2 ^ 20 % 32 := by omega
      have e2 : c2 = pm / 2 ^ 15 % 32 := by omega
      have e3 : c3 = pm / 2 ^ 10 % 32 := by omega
      have e4 : c4 = pm / 2 ^ 5 % 32 := by omega
      have e5 : c5 = pm / 2 ^ 0 % 32 := by omega
      rw [← e0, ← e1, ← e2, ← e3, ← e4, ← e5]
    all_goals exact hlt _ (by simp)

theorem bits8_val8 (a b c d e f g h : Bool) :
    bits8 (UInt8.ofNat (val8 a b c d e f g h)) = [a, b, c, d, e, f, g, h] := by
  cases a <;> cases b <;> cases c <;> cases d <;> cases e <;> cases f <;> cases g <;> cases h <;> decide

theorem regroup8_spec (bs : List Bool) :
    bs = (regroup8 bs).1.flatMap bits8 ++ (regroup8 bs).2 := by
  fun_induction regroup8 bs with
  | case1 a b c d e f g h rest r ih =>
    have hr : r = regroup8 rest := rfl
    simp only [List.flatMap_cons, bits8_val8, hr, List.cons_append, List.nil_append]
    rw [← ih]
  | case2 rest hne => simp

theorem val5_bits5 : ∀ v, v < 32 → val5 (v.testBit 4) (v.testBit 3) (v.testBit 2) (v.testBit 1) (v.testBit 0) = v := by
  decide +kernel

theorem regroup5_flatMap_bits5 (l : List Nat) (h : ∀ v ∈ l, v < 32) : regroup5 (l.flatMap bits5) = l := by
  induction l with
  | nil => rfl
  | cons v tl ih =>
    simp only [List.flatMap_cons, bits5, List.cons_append, List.nil_append, regroup5,
      val5_bits5 v (h v (by simp)), ih (fun w hw => h w (by simp [hw]))]

/-- padding zero bits that only complete the last group do not change the 5-bit regrouping -/
theorem regroup5_pad (bs : List Bool) (k : Nat) (hk : k < 5) (hm : (bs.length + k) % 5 = 0) :
    regroup5 (bs ++ List.replicate k false) = regroup5 bs := by
  fun_induction regroup5 bs with
  | case1 a b c d e rest ih =>
    simp only [List.cons_append, regroup5]
    rw [ih (by simp only [List.length_cons] at hm; omega)]
  | case2 a b c d =>
    have : k = 1 := by simp only [List.length_cons, List.length_nil] at hm; omega
    subst this; rfl
  | case3 a b c =>
    have : k = 2 := by simp only [List.length_cons, List.length_nil] at hm; omega
    subst this; rfl
  | case4 a b =>
    have : k = 3 := by simp only [List.length_cons, List.length_nil] at hm; omega
    subst this; rfl
  | case5 a =>
    have : k = 4 := by simp only [List.length_cons, List.length_nil] at hm; omega
    subst this; rfl
  | case6 =>
    have : k = 0 := by simp only [List.length_nil] at hm; omega
    subst this; rfl

theorem all_false_eq_replicate (t : List Bool) (h : t.any id = false) : t = List.replicate t.length false := by
  induction t with
  | nil => rfl
  | cons b tl ih =>
    simp only [List.any_cons, id, Bool.or_eq_false_iff] at h
    rw [List.length_cons, List.replicate_succ, ← ih h.2, h.1]

/-- ConvertBits(·, 8, 5, true) ∘ ConvertBits(·, 5, 8, false) = id where the latter succeeds -/
theorem convert8to5_convert5to8 {rest : List Nat} {prog : Bytes} (hlt : ∀ v ∈ rest, v < 32)
    (h : convert5to8 rest = some prog) : convert8to5 prog = rest := by
  simp only [convert5to8] at h
  split at h
  · cases h
  · rename_i hc
    cases h
    have hspec := regroup8_spec (rest.flatMap bits5)
    generalize regroup8 (rest.flatMap bits5) = r at hc hspec
    obtain ⟨p, t⟩ := r
    simp only at hc hspec ⊢
    have ht1 : ¬ t.length > 4 := fun hh => hc (Or.inl hh)
    have ht2 : t.any id = false := by
      cases hh : t.any id
      · rfl
      · exact absurd (Or.inr hh) hc
    have ht := all_false_eq_replicate t ht2
    have hlen := congrArg List.length hspec
    rw [flatMap_bits5_length, List.length_append] at hlen
    unfold convert8to5
    rw [← regroup5_pad (p.flatMap bits8) t.length (by omega) (by omega), ← ht, ← hspec]
    exact regroup5_flatMap_bits5 rest hlt

theorem charsetIdx_inv : ∀ c : UInt8, ∀ v, charsetIdx c = some v → v < 32 ∧ charsetAt v = c := by
  apply forall_uint8
  decide +kernel

theorem toValues_inv : ∀ (l : Bytes) (vs : List Nat), toValues l = some vs →
    l = vs.map charsetAt ∧ ∀ v ∈ vs, v < 32 := by
  intro l
  induction l with
  | nil => intro vs h; simp [toValues] at h; subst h; simp
  | cons c tl ih =>
    intro vs h
    unfold toValues at h
    split at h
    · rename_i v vs' hv hvs
      cases h
      obtain ⟨i1, i2⟩ := ih vs' hvs
      obtain ⟨c1, c2⟩ := charsetIdx_inv c v hv
      refine ⟨by simp [c2, ← i1], ?_⟩
      intro w hw
      simp only [List.mem_cons] at hw
      rcases hw with rfl | hw
      · exact c1
      · exact i2 w hw
    · cases h

theorem lowerBytes_take (bs : Bytes) (n : Nat) : lowerBytes (bs.take n) = (lowerBytes bs).take n := by
  simp [lowerBytes, List.map_take]

theorem asciiLower_not_upper : ∀ a : UInt8, isUpperB (asciiLower a) = false := by
  apply forall_uint8
  decide +kernel

/-- split a list at an index holding a known element -/
theorem split_at_idx (l : Bytes) (i : Nat) (c : UInt8) (h : l[i]? = some c) :
    l = l.take i ++ c :: l.drop (i + 1) := by
  induction l generalizing i with
  | nil => simp at h
  | cons x tl ih =>
    cases i with
    | zero => simp at h; simp [h]
    | succ i =>
      simp only [List.getElem?_cons_succ] at h
      simp only [List.take_succ_cons, List.drop_succ_cons, List.cons_append]
      rw [← ih i h]

/-- **An accepted segwit string is, up to case, the canonical encoding** of its witness version and
    program for the human-readable part it carries. -/
theorem segwit_accepted_canonical {addr : Bytes} {one ver : Nat} {prog : Bytes}
    (hone : lastIdx 0x31 addr = some one) (hds : decodeSegWit addr = some (ver, prog))
    (hver : ver = 0 ∨ ver = 1) :
    lowerBytes addr = encodeSegwitBytes (lowerBytes (addr.take one)) ver prog := by
  obtain ⟨hrp, rest, bver, hb, _, hc, _, _, hv0, hv1⟩ := decodeSegWit_inv hds
  obtain ⟨_, _, _, one', decoded, h1, h2, h3, h4, h5, h6, h7⟩ := bech32Decode_inv hb
  rw [hone] at h1
  cases h1
  -- the lower-cased string splits at the separator
  have hlow1 : lastIdx 0x31 (lowerBytes addr) = some one := by rw [lastIdx_lower]; exact hone
  have hsplit := split_at_idx _ one 0x31 (lastIdx_some _ _ hlow1).2.1
  -- the data part
  obtain ⟨hd1, hd2⟩ := toValues_inv _ _ h5
  have hdl := toValues_length _ _ h5
  have hlen : (lowerBytes addr).length = addr.length := by simp [lowerBytes]
  rw [List.length_drop, hlen] at hdl
  have hdec : decoded = (ver :: rest) ++ decoded.drop (decoded.length - 6) := by
    rw [h7]; exact (List.take_append_drop _ _).symm
  generalize hcs : decoded.drop (decoded.length - 6) = cs at hdec
  have hcsl : cs.length = 6 := by rw [← hcs, List.length_drop]; omega
  have hcslt : ∀ v ∈ cs, v < 32 := by
    intro v hv
    apply hd2
    rw [hdec]
    exact List.mem_append_right _ hv
  have hrestlt : ∀ v ∈ rest, v < 32 := by
    intro v hv
    apply hd2
    rw [hdec]
    exact List.mem_append_left _ (List.mem_cons_of_mem _ hv)
  rw [hdec] at h6
  have hck := checksum_unique hrp (ver :: rest) cs bver hcsl hcslt h6
  have hconv := convert8to5_convert5to8 hrestlt hc
  have hbver : bver = (if ver = 0 then B32Version.v0 else B32Version.vM) := by
    rcases hver with rfl | rfl
    · simpa using (hv0 rfl).2
    · simpa using hv1 rfl
  have hhrp : hrp = lowerBytes (addr.take one) := by rw [h4, lowerBytes_take]
  have hll : lowerBytes (lowerBytes (addr.take one)) = lowerBytes (addr.take one) := by
    apply lowerBytes_of_no_upper
    intro b hb
    simp only [lowerBytes, List.mem_map] at hb
    obtain ⟨a, _, rfl⟩ := hb
    exact asciiLower_not_upper a
  unfold encodeSegwitBytes bech32Encode
  simp only [hll]
  rw [hconv, ← hbver, ← hhrp, ← hck, ← hdec, ← hd1, h4]
  rw [List.append_assoc]
  exact hsplit

/-! ### base58: encode ∘ decode = id on strings over the alphabet -/

theorem b58Idx_inv : ∀ c : UInt8, ∀ d, b58Idx c = some d → d < 58 ∧ alphabetAt d = c := by
  apply forall_uint8
  decide +kernel

theorem b58Digits_inv : ∀ (l : Bytes) (ds : List Nat), b58Digits l = some ds →
    l = ds.map alphabetAt ∧ ∀ d ∈ ds, d < 58 := by
  intro l
  induction l with
  | nil => intro ds h; simp [b58Digits] at h; subst h; simp
  | cons c tl ih =>
    intro ds h
    unfold b58Digits at h
    split at h
    · rename_i v vs' hv hvs
      cases h
      obtain ⟨i1, i2⟩ := ih vs' hvs
      obtain ⟨c1, c2⟩ := b58Idx_inv c v hv
      refine ⟨by simp [c2, ← i1], ?_⟩
      intro w hw
      simp only [List.mem_cons] at hw
      rcases hw with rfl | hw
      · exact c1
      · exact i2 w hw
    · cases h

theorem split_zeros (ds : List Nat) : ∃ k ds', ds = List.replicate k 0 ++ ds' ∧ ds'.head? ≠ some 0 := by
  induction ds with
  | nil => exact ⟨0, [], rfl, by simp⟩
  | cons d tl ih =>
    by_cases hd : d = 0
    · obtain ⟨k, ds', h1, h2⟩ := ih
      exact ⟨k + 1, ds', by rw [hd, h1, List.replicate_succ]; rfl, h2⟩
    · exact ⟨0, d :: tl, rfl, by simp [hd]⟩

theorem ofNat_toNat_lt {d : Nat} (h : d < 256) : (UInt8.ofNat d).toNat = d := by
  simp [Nat.mod_eq_of_lt h]

/-- **base58.Encode ∘ base58.Decode = id** on strings over the alphabet. -/
theorem base58Encode_decode (s : Bytes) (ds : List Nat) (h : b58Digits s = some ds) :
    base58Encode (base58Decode s) = s := by
  obtain ⟨hs, hlt⟩ := b58Digits_inv s ds h
  obtain ⟨k, ds', hsplit, hhead⟩ := split_zeros ds
  have hlt' : ∀ d ∈ ds', d < 58 := fun d hd => hlt d (by rw [hsplit]; exact List.mem_append_right _ hd)
  have hs' : s = List.replicate k 0x31 ++ ds'.map alphabetAt := by
    rw [hs, hsplit, List.map_append, List.map_replicate]; rfl
  have hk : countLeading 0x31 s = k := by
    rw [hs']
    apply countLeading_replicate
    cases ds' with
    | nil => simp
    | cons t ts =>
      simp only [List.head?_cons, ne_eq, Option.some.injEq] at hhead
      simp only [List.map_cons, List.head?_cons, ne_eq, Option.some.injEq]
      intro hc
      exact hhead ((alphabetAt_props t (hlt' t (by simp))).2.1.mp hc)
  -- the number and its two digit lists
  have hx : ofDigits 58 ds = ofDigitsLE 58 ds'.reverse := by
    rw [hsplit, ofDigits_zeros, ofDigits_eq]
  generalize hxx : ofDigits 58 ds = x at hx
  have hE1 := digitsLE_lt 256 (by decide) x x
  have hE2 := digitsLE_getLast 256 (by decide) x x (Nat.le_refl _)
  have hE3 := ofDigitsLE_digitsLE 256 (by decide) x x (Nat.le_refl _)
  generalize hE : digitsLE 256 x x = E at hE1 hE2 hE3
  have hB : natBytesBE x = (E.map UInt8.ofNat).reverse := by
    unfold natBytesBE; rw [natBytesLE_eq, hE]
  have hBhead : ((E.map UInt8.ofNat).reverse).head? ≠ some 0 := by
    rw [List.head?_reverse, List.getLast?_map]
    cases hl : E.getLast? with
    | none => simp
    | some t =>
      simp only [Option.map_some, ne_eq, Option.some.injEq]
      intro h0
      have htm : t ∈ E := List.mem_of_getLast? hl
      have : (UInt8.ofNat t).toNat = t := ofNat_toNat_lt (hE1 t htm)
      rw [h0] at this
      apply hE2
      rw [hl, ← this]
      rfl
  have hBval : beToNat ((E.map UInt8.ofNat).reverse) = x := by
    rw [beToNat_eq, ofDigits_eq, ← List.map_reverse, List.reverse_reverse, List.map_map,
      List.map_congr_left (g := id), List.map_id, hE3]
    intro d hd
    exact ofNat_toNat_lt (hE1 d hd)
  have hD : digitsLE 58 x x = ds'.reverse := by
    rw [hx]
    apply digitsLE_ofDigitsLE 58 (by decide)
    · intro d hd; exact hlt' d (List.mem_reverse.mp hd)
    · rw [List.getLast?_reverse]; exact hhead
    · exact Nat.le_refl _
  unfold base58Decode
  simp only [h, hxx, hk, hB]
  unfold base58Encode
  rw [countLeading_replicate 0 k _ hBhead, beToNat_zeros, hBval]
  simp only [digits58LE_eq, hD, List.reverse_reverse]
  exact hs'.symm

/-- **A string accepted by base58.CheckDecode is exactly the CheckEncode of what it decodes to.** -/
theorem checkDecode_canonical {addr payload : Bytes} {id : UInt8}
    (h : checkDecode addr = some (payload, id)) : addr = encodeBase58CheckBytes id payload := by
  unfold checkDecode at h
  cases hd : b58Digits addr with
  | none =>
    have : base58Decode addr = [] := by unfold base58Decode; rw [hd]
    simp [this] at h
  | some ds =>
    have hrt := base58Encode_decode addr ds hd
    generalize base58Decode addr = decoded at h hrt
    simp only at h
    split at h
    · cases h
    · rename_i hlen
      split at h
      · cases h
      · rename_i version tl
        split at h
        · rename_i hck
          simp only [Option.some.injEq, Prod.mk.injEq] at h
          obtain ⟨hp, rfl⟩ := h
          simp only [List.length_cons] at hlen hck hp
          have e1 : tl.length + 1 - 4 = (tl.length - 4) + 1 := by omega
          rw [e1, List.take_succ_cons] at hck hp
          simp only [List.drop_succ_cons, List.drop_zero] at hp
          rw [hp] at hck
          simp only [encodeBase58CheckBytes]
          rw [hck, ← hp]
          rw [show version :: List.take (tl.length - 4) tl ++ List.drop (tl.length - 4 + 1) (version :: tl)
              = version :: tl by simp]
          exact hrt.symm
        · cases h

/-- **Completeness-style characterisation**: every accepted string is (for segwit: up to ASCII case)
    the canonical encoding of the script it is decoded to — except that a 20-byte program may carry
    witness version 0 or 1 and gets the version-0 script either way. -/
theorem accepted_canonical {pk : Bytes → Bool} {net : Net} {addr sc : Bytes}
    (h : decodeBytes pk net addr = some sc) :
    (∃ ver prog, (ver = 0 ∨ ver = 1) ∧ lowerBytes addr = encodeSegwitBytes net.hrp ver prog ∧
      ((prog.length = 20 ∧ sc = [0x00, 0x14] ++ prog) ∨
       (prog.length = 32 ∧ ver = 0 ∧ sc = [0x00, 0x20] ++ prog) ∨
       (prog.length = 32 ∧ ver = 1 ∧ sc = [0x51, 0x20] ++ prog))) ∨
    (∃ payload, payload.length = 20 ∧
      ((addr = encodeBase58CheckBytes net.p2pkhId payload ∧ sc = [0x76, 0xa9, 0x14] ++ payload ++ [0x88, 0xac]) ∨
       (addr = encodeBase58CheckBytes net.p2shId payload ∧ sc = [0xa9, 0x14] ++ payload ++ [0x87]))) := by
  rcases decodeBytes_inv h with ⟨one, ver, prog, a1, _, _, a4, a5, a6⟩ | ⟨_, _, _, payload, id, b1, b2, b3⟩
  · left
    have hver : ver = 0 ∨ ver = 1 := by
      rcases a6 with ⟨_, hv, _⟩ | ⟨_, hv, _⟩ | ⟨_, hv, _⟩
      · exact hv
      · exact Or.inl hv
      · exact Or.inr hv
    have hc := segwit_accepted_canonical a1 a4 hver
    rw [a5] at hc
    refine ⟨ver, prog, hver, hc, ?_⟩
    rcases a6 with ⟨hl, _, hs⟩ | ⟨hl, hv, hs⟩ | ⟨hl, hv, hs⟩
    · exact Or.inl ⟨hl, hs⟩
    · exact Or.inr (Or.inl ⟨hl, hv, hs⟩)
    · exact Or.inr (Or.inr ⟨hl, hv, hs⟩)
  · right
    have hc := checkDecode_canonical b1
    refine ⟨payload, b2, ?_⟩
    rcases b3 with ⟨rfl, hs⟩ | ⟨rfl, hs⟩
    · exact Or.inl ⟨hc, hs⟩
    · exact Or.inr ⟨hc, hs⟩

/-- **decode_injective_on_types, the exact statement** (byte level): two accepted strings with the
    same script are equal (base58check), or equal up to ASCII case (bech32 / bech32m), or they are the
    version-0 and the version-1 encoding of the same 20-byte program (the btcutil quirk). -/
theorem decode_injective_partial_bytes {pk pk' : Bytes → Bool} {net : Net} {s1 s2 sc : Bytes}
    (h1 : decodeBytes pk net s1 = some sc) (h2 : decodeBytes pk' net s2 = some sc) :
    s1 = s2 ∨ lowerBytes s1 = lowerBytes s2 ∨
    (∃ p v1 v2, p.length = 20 ∧ sc = [0x00, 0x14] ++ p ∧ v1 ≠ v2 ∧
      lowerBytes s1 = encodeSegwitBytes net.hrp v1 p ∧ lowerBytes s2 = encodeSegwitBytes net.hrp v2 p) := by
  rcases accepted_canonical h1 with ⟨v1, p1, hv1, c1, f1⟩ | ⟨q1, l1, g1⟩ <;>
  rcases accepted_canonical h2 with ⟨v2, p2, hv2, c2, f2⟩ | ⟨q2, l2, g2⟩
  · -- segwit / segwit
    rcases f1 with ⟨e1, rfl⟩ | ⟨e1, w1, rfl⟩ | ⟨e1, w1, rfl⟩ <;>
    rcases f2 with ⟨e2, hs⟩ | ⟨e2, w2, hs⟩ | ⟨e2, w2, hs⟩ <;>
    simp only [List.cons_append, List.nil_append, List.cons.injEq] at hs
    · obtain ⟨_, _, rfl⟩ := hs
      by_cases hv : v1 = v2
      · subst hv; right; left; rw [c1, c2]
      · right; right
        exact ⟨p1, v1, v2, e1, rfl, hv, c1, c2⟩
    · exact absurd hs.2.1 (by decide)
    · exact absurd hs.1 (by decide)
    · exact absurd hs.2.1 (by decide)
    · obtain ⟨_, _, rfl⟩ := hs
      subst w1; subst w2
      right; left; rw [c1, c2]
    · exact absurd hs.1 (by decide)
    · exact absurd hs.1 (by decide)
    · exact absurd hs.1 (by decide)
    · obtain ⟨_, _, rfl⟩ := hs
      subst w1; subst w2
      right; left; rw [c1, c2]
  · -- segwit / base58
    exfalso
    rcases f1 with ⟨_, rfl⟩ | ⟨_, _, rfl⟩ | ⟨_, _, rfl⟩ <;>
    rcases g2 with ⟨_, hs⟩ | ⟨_, hs⟩ <;>
    simp only [List.cons_append, List.nil_append, List.cons.injEq] at hs <;>
    exact absurd hs.1 (by decide)
  · exfalso
    rcases f2 with ⟨_, rfl⟩ | ⟨_, _, rfl⟩ | ⟨_, _, rfl⟩ <;>
    rcases g1 with ⟨_, hs⟩ | ⟨_, hs⟩ <;>
    simp only [List.cons_append, List.nil_append, List.cons.injEq] at hs <;>
    exact absurd hs.1 (by decide)
  · -- base58 / base58
    left
    rcases g1 with ⟨rfl, rfl⟩ | ⟨rfl, rfl⟩ <;> rcases g2 with ⟨rfl, hs⟩ | ⟨rfl, hs⟩ <;>
    simp only [List.cons_append, List.nil_append, List.cons.injEq] at hs
    · obtain ⟨_, _, _, hs⟩ := hs
      have : q1 = q2 := List.append_inj_left hs (by omega)
      rw [this]
    · exact absurd hs.1 (by decide)
    · exact absurd hs.1 (by decide)
    · obtain ⟨_, _, hs⟩ := hs
      have : q1 = q2 := List.append_inj_left hs (by omega)
      rw [this]

theorem utf8_injective {s1 s2 : String} (h : utf8 s1 = utf8 s2) : s1 = s2 := by
  unfold utf8 at h
  apply String.toByteArray_inj.mp
  apply ByteArray.ext
  rw [String.toUTF8_eq_toByteArray, String.toUTF8_eq_toByteArray] at h
  exact Array.toList_inj.mp h

/-! ## 5. Injectivity -/

/-- `decode_injective_on_types` at full strength ("different accepted strings with the same script
    differ only by case") is FALSE, of the model and of the real function: the witness-version-1 and
    the witness-version-0 address of the same 20-byte program are both accepted on mainnet and give the
    same script (the first string was decoded by the real DecodeBtcAddress to this script). -/
theorem decode_not_injective_on_types :
    ∃ s1 s2 sc, decodeBtcAddress .mainnet s1 = some sc ∧ decodeBtcAddress .mainnet s2 = some sc ∧
      lowerBytes (utf8 s1) ≠ lowerBytes (utf8 s2) :=
  ⟨"bc1p79tajyyu2dh27wgxnwelexakq2fk693hrcjnk7", "bc1q79tajyyu2dh27wgxnwelexakq2fk693ha6457h",
   [0x00, 0x14, 0xf1, 0x57, 0xd9, 0x10, 0x9c, 0x53, 0x6e, 0xaf, 0x39, 0x06, 0x9b, 0xb3, 0xfc, 0x9b,
    0xb6, 0x02, 0x93, 0x6d, 0x16, 0x37], by decide +kernel, by decide +kernel, by decide +kernel⟩

/-- **decode_injective_on_types_partial**: the strongest true statement.  Two accepted strings with
    the same script are the same string (always so for base58check), or differ only by ASCII case
    (bech32: all-lower vs all-upper), or are the version-0 / version-1 encodings of one 20-byte
    program. -/
theorem decode_injective_on_types_partial {net : Net} {s1 s2 : String} {sc : Bytes}
    (h1 : decodeBtcAddress net s1 = some sc) (h2 : decodeBtcAddress net s2 = some sc) :
    s1 = s2 ∨ lowerBytes (utf8 s1) = lowerBytes (utf8 s2) ∨
    (∃ p v1 v2, p.length = 20 ∧ sc = [0x00, 0x14] ++ p ∧ v1 ≠ v2 ∧
      lowerBytes (utf8 s1) = encodeSegwitBytes net.hrp v1 p ∧
      lowerBytes (utf8 s2) = encodeSegwitBytes net.hrp v2 p) := by
  rcases decode_injective_partial_bytes h1 h2 with h | h | h
  · exact Or.inl (utf8_injective h)
  · exact Or.inr (Or.inl h)
  · exact Or.inr (Or.inr h)

/-- Apart from the 20-byte quirk the decoder is injective up to case: for scripts that are not
    P2WPKH-shaped, equal scripts mean equal strings up to ASCII case. -/
theorem decode_injective_except_p2wpkh {net : Net} {s1 s2 : String} {sc : Bytes}
    (h1 : decodeBtcAddress net s1 = some sc) (h2 : decodeBtcAddress net s2 = some sc)
    (hsc : sc.take 2 ≠ [0x00, 0x14]) : lowerBytes (utf8 s1) = lowerBytes (utf8 s2) := by
  rcases decode_injective_on_types_partial h1 h2 with h | h | ⟨p, _, _, _, rfl, _⟩
  · rw [h]
  · exact h
  · exact absurd rfl hsc

/-! ## 3c. Foreign networks: summary, and the networks that share parameters -/

/-- **foreign_network_rejected**: for two of the four networks, (i) if their human-readable parts differ,
    every segwit address (any witness version and program) encoded for `net'` is rejected on `net`;
    (ii) if their P2PKH version bytes differ, every P2PKH and P2SH address of `net'` is rejected on
    `net`.  (The hypotheses fail exactly for the pairs that share parameters: testnet3/signet share
    both; regtest shares the version bytes 0x6f/0xc4 with them but not "bcrt".) -/
theorem foreign_network_rejected (net net' : Net) :
    (net'.hrp ≠ net.hrp → ∀ ver prog, decodeBtcAddress net (encodeSegwit net'.hrpStr ver prog) = none) ∧
    (net'.p2pkhId ≠ net.p2pkhId → ∀ h : Bytes, h.length = 20 →
      decodeBtcAddress net (encodeBase58Check net'.p2pkhId h) = none ∧
      decodeBtcAddress net (encodeBase58Check net'.p2shId h) = none) :=
  ⟨fun hne ver prog => foreign_network_rejected_segwit net net' hne ver prog,
   fun hne h hl => foreign_network_rejected_base58 net net' h hl hne⟩

/-- which pairs of networks are told apart by segwit addresses / by base58 addresses -/
theorem network_parameters_distinct :
    (∀ net net' : Net, net'.hrp ≠ net.hrp ↔
      ¬ (net = net' ∨ (net = .testnet3 ∧ net' = .signet) ∨ (net = .signet ∧ net' = .testnet3))) ∧
    (∀ net net' : Net, net'.p2pkhId ≠ net.p2pkhId ↔ ((net = .mainnet) ≠ (net' = .mainnet))) := by
  constructor <;> intro net net' <;> cases net <;> cases net' <;> decide

theorem isForNet_congr {net net' : Net} (h1 : net.hrp = net'.hrp) (h2 : net.p2pkhId = net'.p2pkhId)
    (h3 : net.p2shId = net'.p2shId) (a : Address) : a.isForNet net = a.isForNet net' := by
  cases a <;> simp [Address.isForNet, h1, h2, h3]

/-- the function depends on the network only through its three parameters -/
theorem decodeBytes_congr (pk : Bytes → Bool) {net net' : Net} (h1 : net.hrp = net'.hrp)
    (h2 : net.p2pkhId = net'.p2pkhId) (h3 : net.p2shId = net'.p2shId) (addr : Bytes) :
    decodeBytes pk net addr = decodeBytes pk net' addr := by
  unfold decodeBytes decodeAddress
  simp only [h2, h3, isForNet_congr h1 h2 h3]

/-- testnet3 and signet accept exactly the same strings with the same scripts: a signet address is
    NOT rejected on testnet3 and vice versa (same "tb", same version bytes). -/
theorem testnet3_signet_same (s : String) : decodeBtcAddress .testnet3 s = decodeBtcAddress .signet s :=
  decodeBytes_congr _ rfl rfl rfl _

/-- regtest, testnet3 and signet share the base58 version bytes: a regtest P2PKH / P2SH address is
    accepted on testnet3 (and so on) — base58check addresses do not tell these networks apart. -/
theorem regtest_legacy_accepted_on_testnet3 (h : Bytes) (hl : h.length = 20) :
    decodeBtcAddress .testnet3 (encodeBase58Check Net.regtest.p2pkhId h) =
      some ([0x76, 0xa9, 0x14] ++ h ++ [0x88, 0xac]) ∧
    decodeBtcAddress .testnet3 (encodeBase58Check Net.regtest.p2shId h) =
      some ([0xa9, 0x14] ++ h ++ [0x87]) :=
  ⟨roundtrip_p2pkh .testnet3 h hl, roundtrip_p2sh .testnet3 h hl⟩

/-- Every accepted string carries the parameters of `net` itself: it is (up to case) a segwit encoding
    under `net`'s human-readable part or a base58check encoding under one of `net`'s two version
    bytes.  (Corollary of `accepted_canonical`; the most general form of "foreign ⇒ rejected".) -/
theorem accepted_only_own_network {pk : Bytes → Bool} {net : Net} {addr sc : Bytes}
    (h : decodeBytes pk net addr = some sc) :
    (∃ ver prog, lowerBytes addr = encodeSegwitBytes net.hrp ver prog) ∨
    (∃ payload, addr = encodeBase58CheckBytes net.p2pkhId payload ∨
      addr = encodeBase58CheckBytes net.p2shId payload) := by
  rcases accepted_canonical h with ⟨ver, prog, _, hc, _⟩ | ⟨payload, _, hc⟩
  · exact Or.inl ⟨ver, prog, hc⟩
  · right
    rcases hc with ⟨hc, _⟩ | ⟨hc, _⟩
    · exact ⟨payload, Or.inl hc⟩
    · exact ⟨payload, Or.inr hc⟩

/-! ## 6. Non-vacuity: well-known addresses

  The bech32 / bech32m vectors are evaluated by the kernel (`decide +kernel`, no extra axiom).  The
  base58check vectors need SHA-256, whose model (GoatModel/Sha256.lean) uses `while` loops that the
  kernel cannot unfold, so they are checked by evaluation (`#guard`); the general theorems above do
  not depend on them. -/

private def hx (s : String) : Option Bytes := fromHex s

-- BIP-173 P2WPKH vector, lower and upper case; mixed case, wrong network, bad checksum are rejected
example : decodeBtcAddress .mainnet "bc1qw508d6qejxtdg4y5r3zarvary0c5xw7kv8f3t4"
    = hx "0014751e76e8199196d454941c45d1b3a323f1433bd6" := by decide +kernel
example : decodeBtcAddress .mainnet "BC1QW508D6QEJXTDG4Y5R3ZARVARY0C5XW7KV8F3T4"
    = hx "0014751e76e8199196d454941c45d1b3a323f1433bd6" := by decide +kernel
example : decodeBtcAddress .mainnet "bc1qw508d6qejxtdg4y5r3zarvary0c5xW7kv8f3t4" = none := by decide +kernel
example : decodeBtcAddress .mainnet "Bc1qw508d6qejxtdg4y5r3zarvary0c5xw7kv8f3t4" = none := by decide +kernel
example : decodeBtcAddress .mainnet "bc1qw508d6qejxtdg4y5r3zarvary0c5xw7kv8f3t5" = none := by decide +kernel
example : decodeBtcAddress .testnet3 "bc1qw508d6qejxtdg4y5r3zarvary0c5xw7kv8f3t4" = none := by decide +kernel
example : decodeBtcAddress .regtest "bc1qw508d6qejxtdg4y5r3zarvary0c5xw7kv8f3t4" = none := by decide +kernel
-- BIP-173 P2WSH testnet vector: accepted on testnet3 and signet (same "tb"), not elsewhere
example : decodeBtcAddress .testnet3 "tb1qrp33g0q5c5txsp9arysrx4k6zdkfs4nce4xj0gdcccefvpysxf3q0sl5k7"
    = hx "00201863143c14c5166804bd19203356da136c985678cd4d27a1b8c6329604903262" := by decide +kernel
example : decodeBtcAddress .signet "tb1qrp33g0q5c5txsp9arysrx4k6zdkfs4nce4xj0gdcccefvpysxf3q0sl5k7"
    = hx "00201863143c14c5166804bd19203356da136c985678cd4d27a1b8c6329604903262" := by decide +kernel
example : decodeBtcAddress .mainnet "tb1qrp33g0q5c5txsp9arysrx4k6zdkfs4nce4xj0gdcccefvpysxf3q0sl5k7"
    = none := by decide +kernel
example : decodeBtcAddress .regtest "tb1qrp33g0q5c5txsp9arysrx4k6zdkfs4nce4xj0gdcccefvpysxf3q0sl5k7"
    = none := by decide +kernel
-- BIP-350 P2TR mainnet vector
example : decodeBtcAddress .mainnet "bc1p0xlxvlhemja6c4dqv22uapctqupfhlxm9h8z3k2e72q4k9hcz7vqzk5jj0"
    = hx "512079be667ef9dcbbac55a06295ce870b07029bfcdb2dce28d959f2815b16f81798" := by decide +kernel
-- regtest addresses (produced by btcutil, decoded by the real function in the traces)
example : decodeBtcAddress .regtest "bcrt1qqccu35lv6pkghvqnjhs83qtah6gy3ttx9c0qky"
    = hx "00140631c8d3ecd06c8bb01395e078817dbe9048ad66" := by decide +kernel
example : decodeBtcAddress .regtest "bcrt1phhu565xljwmecp22ue4205hj6qpdcfy6a6q5asa538qjn0a2d4gqrungwn"
    = hx "5120bdf94d50df93b79c054ae66aa7d2f2d002dc249aee814ec3b489c129bfaa6d50" := by decide +kernel
example : decodeBtcAddress .mainnet "bcrt1qqccu35lv6pkghvqnjhs83qtah6gy3ttx9c0qky" = none := by decide +kernel
-- BIP-350 valid segwit addresses that btcutil does not support: v1 with 40 bytes, v16 with 2 bytes
example : decodeBtcAddress .mainnet
    "bc1pw508d6qejxtdg4y5r3zarvary0c5xw7kw508d6qejxtdg4y5r3zarvary0c5xw7kt5nd6y" = none := by
  decide +kernel
example : decodeBtcAddress .mainnet "BC1SW50QGDZ25J" = none := by decide +kernel
-- BIP-350 invalid: version 0 with a bech32m checksum, version 1 with a bech32 checksum
example : decodeBtcAddress .mainnet "bc1qw508d6qejxtdg4y5r3zarvary0c5xw7kemeawh" = none := by
  decide +kernel
example : decodeBtcAddress .mainnet "bc1p0xlxvlhemja6c4dqv22uapctqupfhlxm9h8z3k2e72q4k9hcz7vqh2y7hd"
    = none := by decide +kernel
-- the quirk, on the string the real DecodeBtcAddress was run on (mainnet, witness v1, 20 bytes):
example : decodeBtcAddress .mainnet "bc1p79tajyyu2dh27wgxnwelexakq2fk693hrcjnk7"
    = hx "0014f157d9109c536eaf39069bb3fc9bb602936d1637" := by decide +kernel
-- hex public keys (the secp256k1 generator, compressed and uncompressed): rejected either way
example : decodeBtcAddressWith (fun _ => true) .mainnet
    "0279be667ef9dcbbac55a06295ce870b07029bfcdb2dce28d959f2815b16f81798" = none := by decide +kernel
example : decodeBtcAddressWith (fun _ => false) .mainnet
    "0279be667ef9dcbbac55a06295ce870b07029bfcdb2dce28d959f2815b16f81798" = none := by decide +kernel
example : decodeBtcAddressWith (fun _ => true) .regtest
    "0479be667ef9dcbbac55a06295ce870b07029bfcdb2dce28d959f2815b16f81798483ada7726a3c4655da4fbfc0e1108a8fd17b448a68554199c47d08ffb10d4b8"
    = none := by decide +kernel
-- the encoders produce the well-known strings
example : encodeSegwit "bc" 0 ((hx "751e76e8199196d454941c45d1b3a323f1433bd6").getD [])
    = "bc1qw508d6qejxtdg4y5r3zarvary0c5xw7kv8f3t4" := by decide +kernel
example : encodeSegwit "bc" 1 ((hx "79be667ef9dcbbac55a06295ce870b07029bfcdb2dce28d959f2815b16f81798").getD [])
    = "bc1p0xlxvlhemja6c4dqv22uapctqupfhlxm9h8z3k2e72q4k9hcz7vqzk5jj0" := by decide +kernel

-- base58check (evaluated, SHA-256 involved)
#guard decodeBtcAddress .mainnet "1BvBMSEYstWetqTFn5Au4m4GFg7xJaNVN2"
    == hx "76a91477bff20c60e522dfaa3350c39b030a5d004e839a88ac"
#guard decodeBtcAddress .mainnet "3J98t1WpEZ73CNmQviecrnyiWrnqRhWNLy"
    == hx "a914b472a266d0bd89c13706a4132ccfb16f7c3b9fcb87"
#guard decodeBtcAddress .regtest "mfkwyMjVzW2wkBmePJr1zqRH5Ujf6ezrhf"
    == hx "76a91402a58dec6d41fbcc06ae214ea201006af864786a88ac"
#guard decodeBtcAddress .testnet3 "mfkwyMjVzW2wkBmePJr1zqRH5Ujf6ezrhf"
    == hx "76a91402a58dec6d41fbcc06ae214ea201006af864786a88ac"
#guard decodeBtcAddress .mainnet "mfkwyMjVzW2wkBmePJr1zqRH5Ujf6ezrhf" == none
#guard decodeBtcAddress .testnet3 "1BvBMSEYstWetqTFn5Au4m4GFg7xJaNVN2" == none
#guard decodeBtcAddress .signet "3J98t1WpEZ73CNmQviecrnyiWrnqRhWNLy" == none
#guard decodeBtcAddress .mainnet "1BvBMSEYstWetqTFn5Au4m4GFg7xJaNVN3" == none   -- checksum
#guard decodeBtcAddress .mainnet "1BvBMSEYstWetqTFn5Au4m4GFg7xJaNVN0" == none   -- '0' is not base58
#guard encodeBase58Check 0x00 ((hx "77bff20c60e522dfaa3350c39b030a5d004e839a").getD [])
    == "1BvBMSEYstWetqTFn5Au4m4GFg7xJaNVN2"
#guard encodeBase58Check 0x05 ((hx "b472a266d0bd89c13706a4132ccfb16f7c3b9fcb").getD [])
    == "3J98t1WpEZ73CNmQviecrnyiWrnqRhWNLy"

end Goat.C17A

/-
  ──────────────────────────────────────────────────────────────────────────────────────────────────
  SUMMARY (C17, second half: withdrawal-address decoding).  Model: GoatModel/Addr.lean.
  `decodeBtcAddress net s` = DecodeBtcAddress(s, net) with `none` for every error; `decodeBytes` is the
  same function on the bytes of the string (Go strings need not be UTF-8), with the public-key parser
  as a parameter.  Every theorem below is proved (no `sorry`, no extra axiom; `#print axioms` gives at
  most propext, Classical.choice, Quot.sound).  Nothing is left as a hypothesis: the bech32 checksum
  fact and the base58 bignum argument are both proved in full.

  Main theorems
   decode_indep_pubkeyParses   the result does not depend on whether a 33/65-byte hex string parses as
                               a curve point (the parameter `pubkeyParses`) — it is rejected either way.
   decode_sound (_bytes)       an accepted string yields exactly one of P2PKH `76 a9 14 <20> 88 ac`,
                               P2SH `a9 14 <20> 87`, P2WPKH `00 14 <20>`, P2WSH `00 20 <32>`,
                               P2TR `51 20 <32>` (`StdScript`) and never a pay-to-pubkey script (`IsP2PK`).
   roundtrip_p2wpkh / _p2wsh / _p2tr
                               for every network and every 20- / 32-byte program, the bech32 (v0) /
                               bech32m (v1) address under the network's human-readable part decodes to
                               `00 14 prog` / `00 20 prog` / `51 20 prog`.
   roundtrip_p2pkh / _p2sh     for every network and 20-byte hash, the base58check address under the
                               network's version byte decodes to `76 a9 14 h 88 ac` / `a9 14 h 87`.
   polymod_checksum            THE bech32 checksum fact: the six symbols of writeBech32Checksum make
                               bech32Polymod return the version constant, for every hrp and data
                               (linearity of the BCH polymod over GF(2), `polyStep_xor`).
   checksum_unique             conversely the six symbols are determined by hrp, data and constant.
   convert5to8_convert8to5, convert8to5_convert5to8
                               ConvertBits 8→5 (pad) and 5→8 (no pad) are mutually inverse.
   base58Decode_encode, base58Encode_decode, checkDecode_encode, checkDecode_canonical
                               base58 decode/encode are mutually inverse (positional-notation lemmas
                               `ofDigitsLE_digitsLE`, `digitsLE_ofDigitsLE`); same with the checksum.
   v1_20byte_decodes_to_v0_script
                               QUIRK, true of the real function (checked on the Go code: mainnet
                               "bc1p79tajyyu2dh27wgxnwelexakq2fk693hrcjnk7" → 0014f157…1637): a witness
                               version 1 address with a 20-byte program is accepted and decoded to the
                               version-0 script `00 14 prog`, not to the `51 14 prog` it denotes.  So
                               "decoded to exactly the output script they encode" holds for the five
                               standard types (round trips above) but NOT for every accepted string.
   accepted_canonical          exact converse: every accepted string is (segwit: up to ASCII case) the
                               canonical encoding, under the parameters of `net`, of the script it is
                               decoded to — with the one exception above (20 bytes: version 0 or 1).
   foreign_network_rejected (+ _segwit, _base58, foreign_segwit_rejected_bytes,
   foreign_base58_rejected_bytes, simnet_segwit_rejected, accepted_only_own_network)
                               segwit addresses under another registered human-readable part (incl.
                               simnet "sb", which chaincfg registers) and base58check addresses with a
                               version byte other than the network's two are rejected.
   testnet3_signet_same, network_parameters_distinct, regtest_legacy_accepted_on_testnet3
                               testnet3 and signet share "tb", 0x6f, 0xc4: each accepts the other's
                               addresses (the function cannot tell them apart); regtest shares the
                               base58 version bytes with them (its legacy addresses are accepted
                               there and vice versa) but not "bcrt".
   p2pk_rejected (_bytes)      every string of 66 or 130 bytes is rejected, for every `pubkeyParses`:
                               accepted strings have 42, 44, 62 or 64 bytes (segwit) or at most 50
                               (base58check; in fact ≤ 35), so no such string decodes any other way.
   decode_not_injective_on_types
                               full injectivity up to case is FALSE (witness: the quirk pair).
   decode_injective_on_types_partial, decode_injective_except_p2wpkh
                               exact statement: same script ⇒ same string (base58check), or same up to
                               ASCII case (bech32 all-upper), or the v0/v1 pair of one 20-byte program.
   examples / #guard           BIP-173 / BIP-350 vectors, regtest, P2TR, upper / mixed case, foreign
                               network, unsupported versions, hex public keys (kernel `decide`);
                               1BvBMSEY…, 3J98t1Wp…, m… (evaluated: they need SHA-256).

  Modelled: the order of the checks in btcutil.DecodeAddress (last '1' at index > 1 and registered
  prefix — main, testnet3, regtest, simnet — then 66/130-character hex, then base58check), bech32
  character / case / length / separator rules, both checksum constants, witness-version and
  program-length rules and the mapping to address types, IsForNet, the P2PK rejection, PayToAddrScript.
  Validated against the real function on 9134 strings (3134 from three kdrive `addr` traces, 6000 from a
  scratch driver covering witness versions 0..17, program lengths 0..41, both checksums, non-zero
  padding, "sb"/upper/mixed-case prefixes, extra '1's, non-ASCII and invalid UTF-8, control
  characters, 66/130-character strings of several kinds, leading '1's, non-alphabet characters): 0
  mismatches.  Left out: elliptic-curve parsing of hex public keys (a parameter, shown irrelevant);
  SHA-256 is the project's `Goat.Sha256.dsha256`, never unfolded by a proof (the round trips hold for
  any function in its place); ConvertBits is modelled as bit-stream regrouping rather than by its
  shift loop; `strings.ToLower` by ASCII lower-casing (justified in GoatModel/Addr.lean).
  ──────────────────────────────────────────────────────────────────────────────────────────────────
-/
