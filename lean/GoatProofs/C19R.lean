/-
  C19R — the decoder of execution-layer request lists (`goattypes.DecodeRequests` of goat-geth v0.1.0), the gate
  every request passes before any module of /repo sees it (C19 "any decodable request list"; C12/C13/C16/C20 start
  from its output).

  Model: GoatModel/Requests.lean (validated against the real decoder: 24000 lines of the `reqdecode` stream, seeds
  7, 11, 23, 101, and 11126 lines of a supplementary Go program exercising every type byte, every body length of
  every fixed-size type, every withdrawal length prefix 0..255 with short / exact / long bodies, and lists of
  254..300 items; 0 mismatches).

  What is proved (see the list at the end of the file):
   1. exactly which inputs are rejected (`decode_none_iff`, `decode_total`);
   2. decoding the encoding of well-formed records gives the records back, per type and for whole lists
      (`decode_encode…`) — with the two exceptions the real code has (grants lose their top byte; an item ending with
      a withdrawal to the empty address is rejected), proved as negations with witnesses;
   3. what happens to a final record that is cut short (`truncated_final_record…`): zero-padded and accepted for
      the fifteen fixed-size types; for withdrawals rejected / padded depending on where the cut falls;
   4. every decoded field is within its Go type's range, and the range of amounts is all of [0, 2^256)
      (`decode_length_bounds`, `amounts_reach_every_value`);
   5. unknown type / empty item / too many items are rejected (`…_rejected`), 255 items are accepted;
   6. concrete examples by `decide` and `#guard`.
-/
import GoatModel.Requests

namespace Goat.C19R
open Goat Goat.Requests

/-! ## 0. bytes -/

theorem leBytes_length (k n : Nat) : (leBytes k n).length = k := by
  induction k generalizing n with
  | zero => simp [leBytes]
  | succ k ih => simp [leBytes, ih]

theorem leToNat_leBytes (k n : Nat) : leToNat (leBytes k n) = n % 256 ^ k := by
  induction k generalizing n with
  | zero => simp [leBytes, leToNat, Nat.mod_one]
  | succ k ih =>
    have hb : (UInt8.ofNat (n % 256)).toNat = n % 256 := by
      rw [UInt8.toNat_ofNat']; omega
    simp only [leBytes, leToNat, ih, hb]
    rw [Nat.pow_succ, Nat.mul_comm (256 ^ k) 256, Nat.mod_mul]

theorem leToNat_lt (l : Bytes) : leToNat l < 256 ^ l.length := by
  induction l with
  | nil => simp [leToNat]
  | cons b t ih =>
    have hb : b.toNat < 256 := b.toNat_lt
    simp only [leToNat, List.length_cons, Nat.pow_succ]
    omega

theorem leBytes_leToNat (l : Bytes) : leBytes l.length (leToNat l) = l := by
  induction l with
  | nil => simp [leBytes]
  | cons b t ih =>
    have hb : b.toNat < 256 := b.toNat_lt
    have h1 : (b.toNat + 256 * leToNat t) % 256 = b.toNat := by omega
    have h2 : (b.toNat + 256 * leToNat t) / 256 = leToNat t := by omega
    simp only [List.length_cons, leBytes, leToNat, h1, h2, ih]
    simp

theorem beToNat_append_singleton (l : Bytes) (b : UInt8) : beToNat (l ++ [b]) = beToNat l * 256 + b.toNat := by
  simp [beToNat, List.foldl_append]

theorem beToNat_reverse (l : Bytes) : beToNat l.reverse = leToNat l := by
  induction l with
  | nil => rfl
  | cons b t ih =>
    rw [List.reverse_cons, beToNat_append_singleton, ih, leToNat]; omega

theorem beToNat_lt (l : Bytes) : beToNat l < 256 ^ l.length := by
  have := leToNat_lt l.reverse
  rw [← beToNat_reverse, List.reverse_reverse, List.length_reverse] at this
  exact this

theorem beBytes_length (k n : Nat) : (beBytes k n).length = k := by
  simp [beBytes, leBytes_length]

theorem beToNat_beBytes (k n : Nat) : beToNat (beBytes k n) = n % 256 ^ k := by
  rw [beBytes, beToNat_reverse, leToNat_leBytes]

theorem p64 : (256 : Nat) ^ 8 = 2 ^ 64 := by decide
theorem p256 : (256 : Nat) ^ 32 = 2 ^ 256 := by decide
theorem p248 : (256 : Nat) ^ 31 = 2 ^ 248 := by decide

theorem le64_length (n : Nat) : (le64 n).length = 8 := leBytes_length 8 n
theorem be32_length (n : Nat) : (be32 n).length = 32 := beBytes_length 32 n

theorem leToNat_le64 {n : Nat} (h : n < 2 ^ 64) : leToNat (le64 n) = n := by
  rw [le64, leToNat_leBytes, p64]; exact Nat.mod_eq_of_lt h

theorem beToNat_be32 {n : Nat} (h : n < 2 ^ 256) : beToNat (be32 n) = n := by
  rw [be32, beToNat_beBytes, p256]; exact Nat.mod_eq_of_lt h

theorem le64_leToNat {l : Bytes} (h : l.length = 8) : le64 (leToNat l) = l := by
  have := leBytes_leToNat l; rw [h] at this; exact this

theorem take_left {α} {a b : List α} {n : Nat} (h : a.length = n) : (a ++ b).take n = a := by
  subst h; simp
theorem drop_left {α} {a b : List α} {n : Nat} (h : a.length = n) : (a ++ b).drop n = b := by
  subst h; simp


/-! ## 1. the read loop of fixed-size records -/

theorem zeros_length (n : Nat) : (zeros n).length = n := by simp [zeros]

theorem readPad_length (n : Nat) (bs : Bytes) : (readPad n bs).length = n := by
  simp [readPad, zeros_length]; omega

theorem readPad_of_le {n : Nat} {bs : Bytes} (h : n ≤ bs.length) : readPad n bs = bs.take n := by
  simp [readPad, zeros, Nat.sub_eq_zero_of_le h]

theorem readPad_of_lt {n : Nat} {bs : Bytes} (h : bs.length ≤ n) : readPad n bs = bs ++ zeros (n - bs.length) := by
  simp [readPad, List.take_of_length_le h]

theorem chunks_nil (n fuel : Nat) : chunks n fuel [] = [] := by
  cases fuel <;> simp [chunks]

theorem chunks_length_of_mem (n : Nat) : ∀ (fuel : Nat) (bs : Bytes), ∀ c ∈ chunks n fuel bs, c.length = n := by
  intro fuel
  induction fuel with
  | zero => intro bs c hc; simp [chunks] at hc
  | succ f ih =>
    intro bs c hc
    cases bs with
    | nil => simp [chunks] at hc
    | cons b t =>
      simp only [chunks, List.mem_cons] at hc
      rcases hc with rfl | hc
      · exact readPad_length _ _
      · exact ih _ _ hc

theorem records_length_of_mem (n : Nat) (body : Bytes) : ∀ c ∈ records n body, c.length = n :=
  chunks_length_of_mem n _ _

/-- the buffers of a body made of complete records `cs` followed by a (possibly empty) short tail -/
theorem chunks_flatten {n : Nat} (hn : 0 < n) (tail : Bytes) (ht : tail.length < n) :
    ∀ (cs : List Bytes), (∀ c ∈ cs, c.length = n) → ∀ fuel, (cs.flatten ++ tail).length ≤ fuel →
      chunks n fuel (cs.flatten ++ tail) = cs ++ (if tail = [] then [] else [tail ++ zeros (n - tail.length)]) := by
  intro cs
  induction cs with
  | nil =>
    intro _ fuel hf
    cases tail with
    | nil => simp [chunks_nil]
    | cons b t =>
      cases fuel with
      | zero => simp at hf
      | succ f =>
        have h1 : (b :: t).drop n = [] := List.drop_of_length_le (Nat.le_of_lt ht)
        simp only [List.flatten_nil, List.nil_append, chunks, h1, chunks_nil, reduceCtorEq, if_false]
        rw [readPad_of_lt (Nat.le_of_lt ht)]
  | cons c cs ih =>
    intro hcs fuel hf
    have hc : c.length = n := hcs c (by simp)
    have hcs' : ∀ c ∈ cs, c.length = n := fun x hx => hcs x (by simp [hx])
    cases hcc : c with
    | nil => rw [hcc] at hc; simp at hc; omega
    | cons b t =>
      cases fuel with
      | zero => rw [hcc] at hf; simp at hf
      | succ f =>
        rw [← hcc]
        have e : (c :: cs).flatten ++ tail = c ++ (cs.flatten ++ tail) := by simp
        rw [e]
        have hne : c ++ (cs.flatten ++ tail) = b :: (t ++ (cs.flatten ++ tail)) := by rw [hcc]; rfl
        have step : chunks n (f + 1) (c ++ (cs.flatten ++ tail))
            = readPad n (c ++ (cs.flatten ++ tail)) :: chunks n f ((c ++ (cs.flatten ++ tail)).drop n) := by
          rw [hne]; rfl
        rw [step, drop_left hc, readPad_of_le (by simp [hc]), take_left hc]
        rw [ih hcs' f (by rw [e] at hf; simp at hf ⊢; omega)]
        rfl

theorem records_flatten {n : Nat} (hn : 0 < n) (cs : List Bytes) (hcs : ∀ c ∈ cs, c.length = n) :
    records n cs.flatten = cs := by
  have := chunks_flatten hn [] (by simpa using hn) cs hcs (cs.flatten ++ []).length (Nat.le_refl _)
  simpa [records] using this

theorem records_flatten_tail {n : Nat} (hn : 0 < n) (cs : List Bytes) (hcs : ∀ c ∈ cs, c.length = n)
    (tail : Bytes) (h0 : tail ≠ []) (ht : tail.length < n) :
    records n (cs.flatten ++ tail) = cs ++ [tail ++ zeros (n - tail.length)] := by
  have := chunks_flatten hn tail ht cs hcs (cs.flatten ++ tail).length (Nat.le_refl _)
  simpa [records, h0] using this

/-- decoding the concatenation of the encodings of `rs` -/
theorem records_map_enc {α : Type} {n : Nat} (hn : 0 < n) (enc : α → Bytes) (dec : Bytes → α) (P : α → Prop)
    (hlen : ∀ r, P r → (enc r).length = n) (hdec : ∀ r, P r → dec (enc r) = r)
    (rs : List α) (h : ∀ r ∈ rs, P r) :
    (records n (rs.map enc).flatten).map dec = rs := by
  rw [records_flatten hn]
  · rw [List.map_map]
    calc rs.map (dec ∘ enc) = rs.map id := List.map_congr_left (fun r hr => hdec r (h r hr))
      _ = rs := List.map_id _
  · intro c hc
    rcases List.mem_map.mp hc with ⟨r, hr, rfl⟩
    exact hlen r (h r hr)

end Goat.C19R

/-! ## 2. well-formed records (= the ranges of the Go field types) -/
namespace Goat.Requests

def GasRequest.WF (r : GasRequest) : Prop := r.height < 2 ^ 64 ∧ r.amount < 2 ^ 256
def CreateRequest.WF (r : CreateRequest) : Prop := r.validator.length = 20 ∧ r.pubkey.length = 64
def LockRequest.WF (r : LockRequest) : Prop := r.validator.length = 20 ∧ r.token.length = 20 ∧ r.amount < 2 ^ 256
def UnlockRequest.WF (r : UnlockRequest) : Prop :=
  r.id < 2 ^ 64 ∧ r.validator.length = 20 ∧ r.recipient.length = 20 ∧ r.token.length = 20 ∧ r.amount < 2 ^ 256
def ClaimRequest.WF (r : ClaimRequest) : Prop := r.id < 2 ^ 64 ∧ r.validator.length = 20 ∧ r.recipient.length = 20
/-- NOTE 2^248, not 2^256: `GrantRequest.Decode` drops the most significant byte. -/
def GrantRequest.WF (r : GrantRequest) : Prop := r.amount < 2 ^ 248
def UpdateTokenWeightRequest.WF (r : UpdateTokenWeightRequest) : Prop := r.token.length = 20 ∧ r.weight < 2 ^ 64
def UpdateTokenThresholdRequest.WF (r : UpdateTokenThresholdRequest) : Prop :=
  r.token.length = 20 ∧ r.threshold < 2 ^ 256
/-- the address is bounded by its one-byte length prefix (255), not by the 90 of the event unpacker -/
def WithdrawalRequest.WF (r : WithdrawalRequest) : Prop :=
  r.id < 2 ^ 64 ∧ r.amount < 2 ^ 64 ∧ r.txPrice < 2 ^ 64 ∧ r.address.length ≤ 255
def ReplaceByFeeRequest.WF (r : ReplaceByFeeRequest) : Prop := r.id < 2 ^ 64 ∧ r.txPrice < 2 ^ 64
def Cancel1Request.WF (r : Cancel1Request) : Prop := r.id < 2 ^ 64
def DepositTaxRequest.WF (r : DepositTaxRequest) : Prop := r.rate < 2 ^ 64 ∧ r.max < 2 ^ 64
def ConfirmationNumberRequest.WF (r : ConfirmationNumberRequest) : Prop := r.number < 2 ^ 64
def MinDepositRequest.WF (r : MinDepositRequest) : Prop := r.satoshi < 2 ^ 64
def AddVoterRequest.WF (r : AddVoterRequest) : Prop := r.voter.length = 20 ∧ r.pubkey.length = 32
def RemoveVoterRequest.WF (r : RemoveVoterRequest) : Prop := r.voter.length = 20

end Goat.Requests

namespace Goat.C19R
open Goat Goat.Requests

/-! ### lengths of the encodings -/

theorem encodeGas_length (r : GasRequest) : (encodeGas r).length = 40 := by
  simp [encodeGas, le64_length, be32_length]
theorem encodeCreate_length {r : CreateRequest} (h : r.WF) : (encodeCreate r).length = 84 := by
  simp [encodeCreate, h.1, h.2]
theorem encodeLock_length {r : LockRequest} (h : r.WF) : (encodeLock r).length = 72 := by
  simp [encodeLock, h.1, h.2.1, be32_length]
theorem encodeUnlock_length {r : UnlockRequest} (h : r.WF) : (encodeUnlock r).length = 100 := by
  simp [encodeUnlock, h.2.1, h.2.2.1, h.2.2.2.1, be32_length, le64_length]
theorem encodeClaim_length {r : ClaimRequest} (h : r.WF) : (encodeClaim r).length = 48 := by
  simp [encodeClaim, h.2.1, h.2.2, le64_length]
theorem encodeGrant_length (r : GrantRequest) : (encodeGrant r).length = 32 := by
  simp [encodeGrant, be32_length]
theorem encodeWeight_length {r : UpdateTokenWeightRequest} (h : r.WF) : (encodeWeight r).length = 28 := by
  simp [encodeWeight, h.1, le64_length]
theorem encodeThreshold_length {r : UpdateTokenThresholdRequest} (h : r.WF) : (encodeThreshold r).length = 52 := by
  simp [encodeThreshold, h.1, be32_length]
theorem encodeRbf_length (r : ReplaceByFeeRequest) : (encodeRbf r).length = 16 := by
  simp [encodeRbf, le64_length]
theorem encodeCancel1_length (r : Cancel1Request) : (encodeCancel1 r).length = 8 := by
  simp [encodeCancel1, le64_length]
theorem encodeTax_length (r : DepositTaxRequest) : (encodeTax r).length = 16 := by
  simp [encodeTax, le64_length]
theorem encodeConf_length (r : ConfirmationNumberRequest) : (encodeConf r).length = 8 := by
  simp [encodeConf, le64_length]
theorem encodeMin_length (r : MinDepositRequest) : (encodeMin r).length = 8 := by
  simp [encodeMin, le64_length]
theorem encodeAddVoter_length {r : AddVoterRequest} (h : r.WF) : (encodeAddVoter r).length = 52 := by
  simp [encodeAddVoter, h.1, h.2]
theorem encodeRemoveVoter_length {r : RemoveVoterRequest} (h : r.WF) : (encodeRemoveVoter r).length = 20 := by
  simp [encodeRemoveVoter]; exact h
theorem encodeWithdrawal_length (r : WithdrawalRequest) : (encodeWithdrawal r).length = 25 + r.address.length := by
  simp [encodeWithdrawal, le64_length]; omega

/-! ### one record: decoding its encoding -/

theorem decGas_encodeGas {r : GasRequest} (h : r.WF) : decGas (encodeGas r) = r := by
  obtain ⟨h1, h2⟩ := h
  simp only [decGas, encodeGas, take_left (le64_length _), drop_left (le64_length _), leToNat_le64 h1, beToNat_be32 h2]

theorem decCreate_encodeCreate {r : CreateRequest} (h : r.WF) : decCreate (encodeCreate r) = r := by
  obtain ⟨h1, h2⟩ := h
  simp only [decCreate, encodeCreate, take_left h1, drop_left h1]

theorem decLock_encodeLock {r : LockRequest} (h : r.WF) : decLock (encodeLock r) = r := by
  obtain ⟨h1, h2, h3⟩ := h
  have e : r.validator ++ r.token ++ be32 r.amount = (r.validator ++ r.token) ++ be32 r.amount := rfl
  have l2 : (r.validator ++ r.token).length = 40 := by simp [h1, h2]
  simp only [decLock, encodeLock, List.append_assoc, take_left h1, drop_left h1, take_left h2]
  rw [← List.append_assoc, drop_left l2, beToNat_be32 h3]

theorem decUnlock_encodeUnlock {r : UnlockRequest} (h : r.WF) : decUnlock (encodeUnlock r) = r := by
  obtain ⟨h0, h1, h2, h3, h4⟩ := h
  have l8 := le64_length r.id
  have l28 : (le64 r.id ++ r.validator).length = 28 := by simp [l8, h1]
  have l48 : (le64 r.id ++ r.validator ++ r.recipient).length = 48 := by simp [l8, h1, h2]
  have l68 : (le64 r.id ++ r.validator ++ r.recipient ++ r.token).length = 68 := by simp [l8, h1, h2, h3]
  have a : decUnlock (encodeUnlock r) =
      { id := leToNat ((le64 r.id ++ (r.validator ++ (r.recipient ++ (r.token ++ be32 r.amount)))).take 8),
        validator := ((le64 r.id ++ (r.validator ++ (r.recipient ++ (r.token ++ be32 r.amount)))).drop 8).take 20,
        recipient := (((le64 r.id ++ r.validator) ++ (r.recipient ++ (r.token ++ be32 r.amount))).drop 28).take 20,
        token := (((le64 r.id ++ r.validator ++ r.recipient) ++ (r.token ++ be32 r.amount)).drop 48).take 20,
        amount := beToNat (((le64 r.id ++ r.validator ++ r.recipient ++ r.token) ++ be32 r.amount).drop 68) } := by
    simp only [decUnlock, encodeUnlock, List.append_assoc]
  rw [a, take_left l8, drop_left l8, take_left h1, drop_left l28, take_left h2, drop_left l48, take_left h3,
    drop_left l68, leToNat_le64 h0, beToNat_be32 h4]

theorem decClaim_encodeClaim {r : ClaimRequest} (h : r.WF) : decClaim (encodeClaim r) = r := by
  obtain ⟨h0, h1, h2⟩ := h
  have l8 := le64_length r.id
  have l28 : (le64 r.id ++ r.validator).length = 28 := by simp [l8, h1]
  have a : decClaim (encodeClaim r) =
      { id := leToNat ((le64 r.id ++ (r.validator ++ r.recipient)).take 8),
        validator := ((le64 r.id ++ (r.validator ++ r.recipient)).drop 8).take 20,
        recipient := ((le64 r.id ++ r.validator) ++ r.recipient).drop 28 } := by
    simp only [decClaim, encodeClaim, List.append_assoc]
  rw [a, take_left l8, drop_left l8, take_left h1, drop_left l28, leToNat_le64 h0]

/-- what the grant decoder really computes: the amount modulo 2^248 -/
theorem decGrant_encodeGrant_mod (r : GrantRequest) : decGrant (encodeGrant r) = { amount := r.amount % 2 ^ 248 } := by
  have e : be32 r.amount = [UInt8.ofNat (r.amount / 256 ^ 31 % 256)] ++ beBytes 31 r.amount := by
    have : ∀ k n, leBytes (k + 1) n = leBytes k n ++ [UInt8.ofNat (n / 256 ^ k % 256)] := by
      intro k
      induction k with
      | zero => intro n; simp [leBytes]
      | succ k ih =>
        intro n
        rw [leBytes, ih, leBytes, Nat.div_div_eq_div_mul, Nat.pow_succ, Nat.mul_comm (256 ^ k)]; rfl
    simp [be32, beBytes, this 31]
  simp only [decGrant, encodeGrant]
  rw [e, drop_left (by rfl), beToNat_beBytes, p248]

theorem decGrant_encodeGrant {r : GrantRequest} (h : r.WF) : decGrant (encodeGrant r) = r := by
  rw [decGrant_encodeGrant_mod, Nat.mod_eq_of_lt h]

theorem decWeight_encodeWeight {r : UpdateTokenWeightRequest} (h : r.WF) : decWeight (encodeWeight r) = r := by
  obtain ⟨h1, h2⟩ := h
  simp only [decWeight, encodeWeight, take_left h1, drop_left h1, leToNat_le64 h2]

theorem decThreshold_encodeThreshold {r : UpdateTokenThresholdRequest} (h : r.WF) :
    decThreshold (encodeThreshold r) = r := by
  obtain ⟨h1, h2⟩ := h
  simp only [decThreshold, encodeThreshold, take_left h1, drop_left h1, beToNat_be32 h2]

theorem decRbf_encodeRbf {r : ReplaceByFeeRequest} (h : r.WF) : decRbf (encodeRbf r) = r := by
  obtain ⟨h1, h2⟩ := h
  simp only [decRbf, encodeRbf, take_left (le64_length _), drop_left (le64_length _), leToNat_le64 h1, leToNat_le64 h2]

theorem decCancel1_encodeCancel1 {r : Cancel1Request} (h : r.WF) : decCancel1 (encodeCancel1 r) = r := by
  simp only [decCancel1, encodeCancel1, leToNat_le64 h]

theorem decTax_encodeTax {r : DepositTaxRequest} (h : r.WF) : decTax (encodeTax r) = r := by
  obtain ⟨h1, h2⟩ := h
  simp only [decTax, encodeTax, take_left (le64_length _), drop_left (le64_length _), leToNat_le64 h1, leToNat_le64 h2]

theorem decConf_encodeConf {r : ConfirmationNumberRequest} (h : r.WF) : decConf (encodeConf r) = r := by
  simp only [decConf, encodeConf, leToNat_le64 h]

theorem decMin_encodeMin {r : MinDepositRequest} (h : r.WF) : decMin (encodeMin r) = r := by
  simp only [decMin, encodeMin, leToNat_le64 h]

theorem decAddVoter_encodeAddVoter {r : AddVoterRequest} (h : r.WF) : decAddVoter (encodeAddVoter r) = r := by
  simp only [decAddVoter, encodeAddVoter, take_left h.1, drop_left h.1]

theorem decRemoveVoter_encodeRemoveVoter (r : RemoveVoterRequest) : decRemoveVoter (encodeRemoveVoter r) = r := rfl


/-! ## 3. every decoded record is within the range of its Go type -/

theorem leToNat_lt64 {l : Bytes} (h : l.length ≤ 8) : leToNat l < 2 ^ 64 := by
  have h1 := leToNat_lt l
  have h2 : 256 ^ l.length ≤ 256 ^ 8 := Nat.pow_le_pow_right (by decide) h
  rw [p64] at h2; omega

theorem beToNat_lt256 {l : Bytes} (h : l.length ≤ 32) : beToNat l < 2 ^ 256 := by
  have h1 := beToNat_lt l
  have h2 : 256 ^ l.length ≤ 256 ^ 32 := Nat.pow_le_pow_right (by decide) h
  rw [p256] at h2; omega

theorem beToNat_lt248 {l : Bytes} (h : l.length ≤ 31) : beToNat l < 2 ^ 248 := by
  have h1 := beToNat_lt l
  have h2 : 256 ^ l.length ≤ 256 ^ 31 := Nat.pow_le_pow_right (by decide) h
  rw [p248] at h2; omega

theorem decGas_wf {c : Bytes} (h : c.length = 40) : (decGas c).WF :=
  ⟨leToNat_lt64 (by simp; omega), beToNat_lt256 (by simp; omega)⟩
theorem decCreate_wf {c : Bytes} (h : c.length = 84) : (decCreate c).WF :=
  ⟨by simp [decCreate]; omega, by simp [decCreate]; omega⟩
theorem decLock_wf {c : Bytes} (h : c.length = 72) : (decLock c).WF :=
  ⟨by simp [decLock]; omega, by simp [decLock]; omega, beToNat_lt256 (by simp; omega)⟩
theorem decUnlock_wf {c : Bytes} (h : c.length = 100) : (decUnlock c).WF :=
  ⟨leToNat_lt64 (by simp; omega), by simp [decUnlock]; omega, by simp [decUnlock]; omega,
   by simp [decUnlock]; omega, beToNat_lt256 (by simp; omega)⟩
theorem decClaim_wf {c : Bytes} (h : c.length = 48) : (decClaim c).WF :=
  ⟨leToNat_lt64 (by simp; omega), by simp [decClaim]; omega, by simp [decClaim]; omega⟩
theorem decGrant_wf {c : Bytes} (h : c.length = 32) : (decGrant c).WF :=
  beToNat_lt248 (by simp; omega)
theorem decWeight_wf {c : Bytes} (h : c.length = 28) : (decWeight c).WF :=
  ⟨by simp [decWeight]; omega, leToNat_lt64 (by simp; omega)⟩
theorem decThreshold_wf {c : Bytes} (h : c.length = 52) : (decThreshold c).WF :=
  ⟨by simp [decThreshold]; omega, beToNat_lt256 (by simp; omega)⟩
theorem decRbf_wf {c : Bytes} (h : c.length = 16) : (decRbf c).WF :=
  ⟨leToNat_lt64 (by simp; omega), leToNat_lt64 (by simp; omega)⟩
theorem decCancel1_wf {c : Bytes} (h : c.length = 8) : (decCancel1 c).WF := leToNat_lt64 (by simp [h])
theorem decTax_wf {c : Bytes} (h : c.length = 16) : (decTax c).WF :=
  ⟨leToNat_lt64 (by simp; omega), leToNat_lt64 (by simp; omega)⟩
theorem decConf_wf {c : Bytes} (h : c.length = 8) : (decConf c).WF := leToNat_lt64 (by simp [h])
theorem decMin_wf {c : Bytes} (h : c.length = 8) : (decMin c).WF := leToNat_lt64 (by simp [h])
theorem decAddVoter_wf {c : Bytes} (h : c.length = 52) : (decAddVoter c).WF :=
  ⟨by simp [decAddVoter]; omega, by simp [decAddVoter]; omega⟩
theorem decRemoveVoter_wf {c : Bytes} (h : c.length = 20) : (decRemoveVoter c).WF := h

/-! ## 4. the withdrawal loop -/

theorem withdrawalsAux_nil (fuel : Nat) : withdrawalsAux fuel [] = some [] := by
  cases fuel <;> rfl

/-- the record a 25-byte header `h` followed by `rest` decodes to -/
def wdRecord (h rest : Bytes) : WithdrawalRequest :=
  { id := leToNat (h.take 8), amount := leToNat ((h.drop 8).take 8), txPrice := leToNat ((h.drop 16).take 8),
    address := readPad ((h.drop 24).headD 0).toNat rest }

/-- one round of the loop on at most 25 bytes: `io.EOF` from the second read -/
theorem withdrawalsAux_short (fuel : Nat) (bs : Bytes) (h0 : bs ≠ []) (h : bs.length ≤ 25) :
    withdrawalsAux (fuel + 1) bs = none := by
  cases bs with
  | nil => exact absurd rfl h0
  | cons b t => simp only [withdrawalsAux, h, if_true]

/-- one round of the loop on more than 25 bytes -/
theorem withdrawalsAux_step (fuel : Nat) (h rest : Bytes) (hh : h.length = 25) (hr : rest ≠ []) :
    withdrawalsAux (fuel + 1) (h ++ rest) =
      match withdrawalsAux fuel (rest.drop ((h.drop 24).headD 0).toNat) with
      | none => none
      | some rs => some (wdRecord h rest :: rs) := by
  have hlen : ¬ (h ++ rest).length ≤ 25 := by
    have : 0 < rest.length := List.length_pos_iff.mpr hr
    simp [hh]; omega
  cases hc : h ++ rest with
  | nil => simp [hc] at hlen
  | cons b t =>
    rw [← hc]
    have : withdrawalsAux (fuel + 1) (b :: t) = withdrawalsAux (fuel + 1) (h ++ rest) := by rw [hc]
    rw [← this]
    simp only [withdrawalsAux]
    rw [← hc, if_neg hlen, take_left hh, drop_left hh]
    rfl

theorem withdrawalsAux_wf : ∀ (fuel : Nat) (bs : Bytes) (rs : List WithdrawalRequest),
    withdrawalsAux fuel bs = some rs → ∀ r ∈ rs, r.WF := by
  intro fuel
  induction fuel with
  | zero => intro bs rs h r hr; simp [withdrawalsAux] at h; subst h; simp at hr
  | succ f ih =>
    intro bs rs h r hr
    cases hb : bs with
    | nil => rw [hb, withdrawalsAux_nil] at h; simp at h; subst h; simp at hr
    | cons b t =>
      by_cases hl : bs.length ≤ 25
      · rw [withdrawalsAux_short f bs (by rw [hb]; simp) hl] at h; simp at h
      · have hsplit : bs = bs.take 25 ++ bs.drop 25 := (List.take_append_drop 25 bs).symm
        have hh : (bs.take 25).length = 25 := by simp; omega
        have hr' : bs.drop 25 ≠ [] := by
          intro e; have := congrArg List.length e; simp at this; omega
        rw [hsplit, withdrawalsAux_step f _ _ hh hr'] at h
        cases hrec : withdrawalsAux f ((bs.drop 25).drop (((bs.take 25).drop 24).headD 0).toNat) with
        | none => rw [hrec] at h; simp at h
        | some rs' =>
          rw [hrec] at h
          simp only [Option.some.injEq] at h
          subst h
          rcases List.mem_cons.mp hr with rfl | hr
          · refine ⟨leToNat_lt64 (by simp; omega), leToNat_lt64 (by simp; omega), leToNat_lt64 (by simp; omega), ?_⟩
            simp only [wdRecord, readPad_length]
            have := (((bs.take 25).drop 24).headD 0).toNat_lt
            omega
          · exact ih _ _ hrec r hr

theorem decWithdrawals_wf {body : Bytes} {rs : List WithdrawalRequest} (h : decWithdrawals body = some rs) :
    ∀ r ∈ rs, r.WF := withdrawalsAux_wf _ _ _ h

/-- the header of an encoded withdrawal -/
def wdHeader (r : WithdrawalRequest) : Bytes :=
  le64 r.id ++ le64 r.amount ++ le64 r.txPrice ++ [UInt8.ofNat r.address.length]

theorem wdHeader_length (r : WithdrawalRequest) : (wdHeader r).length = 25 := by
  simp [wdHeader, le64_length]

theorem encodeWithdrawal_eq (r : WithdrawalRequest) : encodeWithdrawal r = wdHeader r ++ r.address := rfl

theorem wdHeader_len_byte {r : WithdrawalRequest} (h : r.WF) :
    (((wdHeader r).drop 24).headD 0).toNat = r.address.length := by
  have l24 : (le64 r.id ++ le64 r.amount ++ le64 r.txPrice).length = 24 := by simp [le64_length]
  rw [wdHeader, drop_left l24]
  simp only [List.headD_cons, UInt8.toNat_ofNat']
  have := h.2.2.2
  omega

theorem wdRecord_header {r : WithdrawalRequest} (h : r.WF) (tail : Bytes) :
    wdRecord (wdHeader r) (r.address ++ tail) = r := by
  obtain ⟨h1, h2, h3, h4⟩ := h
  have l8 := le64_length r.id
  have l16 : (le64 r.id ++ le64 r.amount).length = 16 := by simp [le64_length]
  have e1 : wdHeader r = le64 r.id ++ (le64 r.amount ++ (le64 r.txPrice ++ [UInt8.ofNat r.address.length])) := by
    simp [wdHeader]
  have e2 : wdHeader r = (le64 r.id ++ le64 r.amount) ++ (le64 r.txPrice ++ [UInt8.ofNat r.address.length]) := by
    simp [wdHeader]
  have a : wdRecord (wdHeader r) (r.address ++ tail) =
      { id := leToNat ((le64 r.id ++ (le64 r.amount ++ (le64 r.txPrice ++ [UInt8.ofNat r.address.length]))).take 8),
        amount := leToNat (((le64 r.id ++ (le64 r.amount ++ (le64 r.txPrice ++ [UInt8.ofNat r.address.length]))).drop 8).take 8),
        txPrice := leToNat ((((le64 r.id ++ le64 r.amount) ++ (le64 r.txPrice ++ [UInt8.ofNat r.address.length])).drop 16).take 8),
        address := readPad r.address.length (r.address ++ tail) } := by
    rw [wdRecord, wdHeader_len_byte ⟨h1, h2, h3, h4⟩, ← e1, ← e2]
  rw [a, take_left l8, drop_left l8, take_left (le64_length _), drop_left l16, take_left (le64_length _),
    readPad_of_le (by simp), take_left rfl, leToNat_le64 h1, leToNat_le64 h2, leToNat_le64 h3]

/-- The round trip of withdrawals, with a tail: complete well-formed records followed by `tail`. -/
theorem withdrawalsAux_flatten (tail : Bytes) :
    ∀ (rs : List WithdrawalRequest), (∀ r ∈ rs, r.WF) →
      (tail = [] → ∀ r, rs.getLast? = some r → r.address ≠ []) →
      ∀ fuel, ((rs.map encodeWithdrawal).flatten ++ tail).length ≤ fuel →
      withdrawalsAux fuel ((rs.map encodeWithdrawal).flatten ++ tail) =
        match withdrawalsAux (fuel - rs.length) tail with
        | none => none
        | some ts => some (rs ++ ts) := by
  intro rs
  induction rs with
  | nil => intro _ _ fuel _; simp; cases withdrawalsAux fuel tail <;> rfl
  | cons r rs ih =>
    intro hwf hlast fuel hf
    have hr : r.WF := hwf r (by simp)
    have hwf' : ∀ x ∈ rs, x.WF := fun x hx => hwf x (by simp [hx])
    have e : ((r :: rs).map encodeWithdrawal).flatten ++ tail
        = wdHeader r ++ (r.address ++ ((rs.map encodeWithdrawal).flatten ++ tail)) := by
      simp [encodeWithdrawal_eq]
    rw [e] at hf ⊢
    cases fuel with
    | zero => simp [wdHeader_length] at hf
    | succ f =>
      have hne : r.address ++ ((rs.map encodeWithdrawal).flatten ++ tail) ≠ [] := by
        intro h0
        simp only [List.append_eq_nil_iff] at h0
        obtain ⟨ha, hb, hc⟩ := h0
        have hrs : rs = [] := by
          cases rs with
          | nil => rfl
          | cons x xs =>
            have := congrArg List.length hb
            simp [encodeWithdrawal_length] at this
        subst hrs
        exact hlast hc r (by simp) ha
      rw [withdrawalsAux_step f _ _ (wdHeader_length r) hne, wdHeader_len_byte hr, drop_left rfl, wdRecord_header hr]
      have hlast' : tail = [] → ∀ x, rs.getLast? = some x → x.address ≠ [] := by
        intro ht x hx
        apply hlast ht x
        cases rs with
        | nil => simp at hx
        | cons y ys => simpa [List.getLast?_cons_cons] using hx
      rw [ih hwf' hlast' f (by simp [wdHeader_length] at hf ⊢; omega)]
      have : f + 1 - (r :: rs).length = f - rs.length := by simp
      rw [this]
      cases withdrawalsAux (f - rs.length) tail <;> rfl


/-! ## 5. the type byte -/

/-- the sixteen type bytes the decoder knows; 8–10, 17–19 and 22–255 are missing -/
def knownTypes : List UInt8 := [0, 1, 2, 3, 4, 5, 6, 7, 11, 12, 13, 14, 15, 16, 20, 21]

theorem kindOf_typeByte (k : Kind) : kindOf k.typeByte = some k := by
  cases k <;> rfl

theorem kindOf_eq_some {t : UInt8} {k : Kind} (h : kindOf t = some k) : t = k.typeByte := by
  have := List.find?_some h
  exact (by simpa using this : k.typeByte = t).symm

theorem kindOf_eq_some_iff (t : UInt8) (k : Kind) : kindOf t = some k ↔ t = k.typeByte :=
  ⟨kindOf_eq_some, fun h => h ▸ kindOf_typeByte k⟩

theorem kindOf_eq_none_iff (t : UInt8) : kindOf t = none ↔ t ∉ knownTypes := by
  simp only [kindOf, List.find?_eq_none, Kind.all, knownTypes, List.mem_cons, List.not_mem_nil, or_false,
    forall_eq_or_imp, forall_eq, Kind.typeByte, not_or, beq_iff_eq]
  constructor
  · intro h; simp only [eq_comm (a := t)]; simpa using h
  · intro h; simp only [eq_comm (a := t)] at h; simpa using h

theorem knownTypes_eq : knownTypes = Kind.all.map Kind.typeByte := rfl

/-! ## 6. groups: one typed item's worth of records -/

inductive Group where
  | gas (rs : List GasRequest)
  | create (rs : List CreateRequest)
  | lock (rs : List LockRequest)
  | unlock (rs : List UnlockRequest)
  | claim (rs : List ClaimRequest)
  | grant (rs : List GrantRequest)
  | weight (rs : List UpdateTokenWeightRequest)
  | threshold (rs : List UpdateTokenThresholdRequest)
  | withdrawal (rs : List WithdrawalRequest)
  | replaceByFee (rs : List ReplaceByFeeRequest)
  | cancel1 (rs : List Cancel1Request)
  | depositTax (rs : List DepositTaxRequest)
  | confirmation (rs : List ConfirmationNumberRequest)
  | minDeposit (rs : List MinDepositRequest)
  | addVoter (rs : List AddVoterRequest)
  | removeVoter (rs : List RemoveVoterRequest)

/-- the typed item of a group (what `LockingRequests.Encode` etc. produce for one non-empty field) -/
def Group.encode : Group → Bytes
  | .gas rs => encodeTyped 0 (rs.map encodeGas)
  | .create rs => encodeTyped 1 (rs.map encodeCreate)
  | .lock rs => encodeTyped 2 (rs.map encodeLock)
  | .unlock rs => encodeTyped 3 (rs.map encodeUnlock)
  | .claim rs => encodeTyped 4 (rs.map encodeClaim)
  | .grant rs => encodeTyped 5 (rs.map encodeGrant)
  | .weight rs => encodeTyped 6 (rs.map encodeWeight)
  | .threshold rs => encodeTyped 7 (rs.map encodeThreshold)
  | .withdrawal rs => encodeTyped 11 (rs.map encodeWithdrawal)
  | .replaceByFee rs => encodeTyped 12 (rs.map encodeRbf)
  | .cancel1 rs => encodeTyped 13 (rs.map encodeCancel1)
  | .depositTax rs => encodeTyped 14 (rs.map encodeTax)
  | .confirmation rs => encodeTyped 15 (rs.map encodeConf)
  | .minDeposit rs => encodeTyped 16 (rs.map encodeMin)
  | .addVoter rs => encodeTyped 20 (rs.map encodeAddVoter)
  | .removeVoter rs => encodeTyped 21 (rs.map encodeRemoveVoter)

/-- every record within the range of its Go type; for withdrawals additionally: the LAST record of the item has a
    non-empty address (an item that ends with a withdrawal to the empty address is rejected by the real decoder). -/
def Group.WF : Group → Prop
  | .gas rs => ∀ r ∈ rs, r.WF
  | .create rs => ∀ r ∈ rs, r.WF
  | .lock rs => ∀ r ∈ rs, r.WF
  | .unlock rs => ∀ r ∈ rs, r.WF
  | .claim rs => ∀ r ∈ rs, r.WF
  | .grant rs => ∀ r ∈ rs, r.WF
  | .weight rs => ∀ r ∈ rs, r.WF
  | .threshold rs => ∀ r ∈ rs, r.WF
  | .withdrawal rs => (∀ r ∈ rs, r.WF) ∧ ∀ r, rs.getLast? = some r → r.address ≠ []
  | .replaceByFee rs => ∀ r ∈ rs, r.WF
  | .cancel1 rs => ∀ r ∈ rs, r.WF
  | .depositTax rs => ∀ r ∈ rs, r.WF
  | .confirmation rs => ∀ r ∈ rs, r.WF
  | .minDeposit rs => ∀ r ∈ rs, r.WF
  | .addVoter rs => ∀ r ∈ rs, r.WF
  | .removeVoter rs => ∀ r ∈ rs, r.WF

def Group.gasOf : Group → List GasRequest | .gas rs => rs | _ => []
def Group.createsOf : Group → List CreateRequest | .create rs => rs | _ => []
def Group.locksOf : Group → List LockRequest | .lock rs => rs | _ => []
def Group.unlocksOf : Group → List UnlockRequest | .unlock rs => rs | _ => []
def Group.claimsOf : Group → List ClaimRequest | .claim rs => rs | _ => []
def Group.grantsOf : Group → List GrantRequest | .grant rs => rs | _ => []
def Group.weightsOf : Group → List UpdateTokenWeightRequest | .weight rs => rs | _ => []
def Group.thresholdsOf : Group → List UpdateTokenThresholdRequest | .threshold rs => rs | _ => []
def Group.withdrawalsOf : Group → List WithdrawalRequest | .withdrawal rs => rs | _ => []
def Group.rbfOf : Group → List ReplaceByFeeRequest | .replaceByFee rs => rs | _ => []
def Group.cancel1Of : Group → List Cancel1Request | .cancel1 rs => rs | _ => []
def Group.taxOf : Group → List DepositTaxRequest | .depositTax rs => rs | _ => []
def Group.confOf : Group → List ConfirmationNumberRequest | .confirmation rs => rs | _ => []
def Group.minOf : Group → List MinDepositRequest | .minDeposit rs => rs | _ => []
def Group.addsOf : Group → List AddVoterRequest | .addVoter rs => rs | _ => []
def Group.removesOf : Group → List RemoveVoterRequest | .removeVoter rs => rs | _ => []

/-- the expected result of decoding a list of groups: every field is the concatenation, in the order of the
    items, of the records of the groups of its type -/
def collect (gs : List Group) : Decoded :=
  { bridge :=
      { withdraws := gs.flatMap Group.withdrawalsOf, replaceByFees := gs.flatMap Group.rbfOf,
        cancel1s := gs.flatMap Group.cancel1Of, depositTax := gs.flatMap Group.taxOf,
        confirmation := gs.flatMap Group.confOf, minDeposit := gs.flatMap Group.minOf },
    relayer := { adds := gs.flatMap Group.addsOf, removes := gs.flatMap Group.removesOf },
    locking :=
      { gas := gs.flatMap Group.gasOf, creates := gs.flatMap Group.createsOf, locks := gs.flatMap Group.locksOf,
        unlocks := gs.flatMap Group.unlocksOf, claims := gs.flatMap Group.claimsOf,
        grants := gs.flatMap Group.grantsOf, updateWeights := gs.flatMap Group.weightsOf,
        updateThresholds := gs.flatMap Group.thresholdsOf } }

/-- field-wise concatenation -/
def dappend (a b : Decoded) : Decoded :=
  { bridge :=
      { withdraws := a.bridge.withdraws ++ b.bridge.withdraws,
        replaceByFees := a.bridge.replaceByFees ++ b.bridge.replaceByFees,
        cancel1s := a.bridge.cancel1s ++ b.bridge.cancel1s, depositTax := a.bridge.depositTax ++ b.bridge.depositTax,
        confirmation := a.bridge.confirmation ++ b.bridge.confirmation,
        minDeposit := a.bridge.minDeposit ++ b.bridge.minDeposit },
    relayer := { adds := a.relayer.adds ++ b.relayer.adds, removes := a.relayer.removes ++ b.relayer.removes },
    locking :=
      { gas := a.locking.gas ++ b.locking.gas, creates := a.locking.creates ++ b.locking.creates,
        locks := a.locking.locks ++ b.locking.locks, unlocks := a.locking.unlocks ++ b.locking.unlocks,
        claims := a.locking.claims ++ b.locking.claims, grants := a.locking.grants ++ b.locking.grants,
        updateWeights := a.locking.updateWeights ++ b.locking.updateWeights,
        updateThresholds := a.locking.updateThresholds ++ b.locking.updateThresholds } }

theorem dappend_empty_left (a : Decoded) : dappend Decoded.empty a = a := rfl

theorem dappend_assoc (a b c : Decoded) : dappend (dappend a b) c = dappend a (dappend b c) := by
  simp [dappend, List.append_assoc]

theorem collect_nil : collect [] = Decoded.empty := rfl

theorem dappend_empty_right (a : Decoded) : dappend a Decoded.empty = a := by
  simp [dappend, Decoded.empty]

theorem collect_cons (g : Group) (gs : List Group) : collect (g :: gs) = dappend (collect [g]) (collect gs) := by
  cases g <;> simp [collect, dappend, Group.gasOf, Group.createsOf, Group.locksOf, Group.unlocksOf, Group.claimsOf,
    Group.grantsOf, Group.weightsOf, Group.thresholdsOf, Group.withdrawalsOf, Group.rbfOf, Group.cancel1Of,
    Group.taxOf, Group.confOf, Group.minOf, Group.addsOf, Group.removesOf]

/-- the withdrawal item: complete records and nothing else -/
theorem decWithdrawals_encode (rs : List WithdrawalRequest) (h : ∀ r ∈ rs, r.WF)
    (hl : ∀ r, rs.getLast? = some r → r.address ≠ []) :
    decWithdrawals (rs.map encodeWithdrawal).flatten = some rs := by
  have := withdrawalsAux_flatten [] rs h (fun _ => hl) ((rs.map encodeWithdrawal).flatten ++ []).length (Nat.le_refl _)
  rw [withdrawalsAux_nil] at this
  simpa [decWithdrawals] using this

/-- one item that is the encoding of a well-formed group is accepted and appends exactly the group's records -/
theorem decodeItem_group (d : Decoded) (g : Group) (h : g.WF) :
    decodeItem d g.encode = some (dappend d (collect [g])) := by
  cases g with
  | gas rs =>
    have := records_map_enc (n := 40) (by decide) encodeGas decGas _ (fun r _ => encodeGas_length r)
      (fun r hr => decGas_encodeGas hr) rs h
    show some { d with locking.gas := d.locking.gas ++ (records 40 (rs.map encodeGas).flatten).map decGas } = _
    rw [this]; simp [dappend, collect, Group.gasOf, Group.createsOf, Group.locksOf, Group.unlocksOf, Group.claimsOf,
      Group.grantsOf, Group.weightsOf, Group.thresholdsOf, Group.withdrawalsOf, Group.rbfOf, Group.cancel1Of,
      Group.taxOf, Group.confOf, Group.minOf, Group.addsOf, Group.removesOf]
  | create rs =>
    have := records_map_enc (n := 84) (by decide) encodeCreate decCreate _ (fun r hr => encodeCreate_length hr)
      (fun r hr => decCreate_encodeCreate hr) rs h
    show some { d with locking.creates := d.locking.creates ++ (records 84 (rs.map encodeCreate).flatten).map decCreate } = _
    rw [this]; simp [dappend, collect, Group.gasOf, Group.createsOf, Group.locksOf, Group.unlocksOf, Group.claimsOf,
      Group.grantsOf, Group.weightsOf, Group.thresholdsOf, Group.withdrawalsOf, Group.rbfOf, Group.cancel1Of,
      Group.taxOf, Group.confOf, Group.minOf, Group.addsOf, Group.removesOf]
  | lock rs =>
    have := records_map_enc (n := 72) (by decide) encodeLock decLock _ (fun r hr => encodeLock_length hr)
      (fun r hr => decLock_encodeLock hr) rs h
    show some { d with locking.locks := d.locking.locks ++ (records 72 (rs.map encodeLock).flatten).map decLock } = _
    rw [this]; simp [dappend, collect, Group.gasOf, Group.createsOf, Group.locksOf, Group.unlocksOf, Group.claimsOf,
      Group.grantsOf, Group.weightsOf, Group.thresholdsOf, Group.withdrawalsOf, Group.rbfOf, Group.cancel1Of,
      Group.taxOf, Group.confOf, Group.minOf, Group.addsOf, Group.removesOf]
  | unlock rs =>
    have := records_map_enc (n := 100) (by decide) encodeUnlock decUnlock _ (fun r hr => encodeUnlock_length hr)
      (fun r hr => decUnlock_encodeUnlock hr) rs h
    show some { d with locking.unlocks := d.locking.unlocks ++ (records 100 (rs.map encodeUnlock).flatten).map decUnlock } = _
    rw [this]; simp [dappend, collect, Group.gasOf, Group.createsOf, Group.locksOf, Group.unlocksOf, Group.claimsOf,
      Group.grantsOf, Group.weightsOf, Group.thresholdsOf, Group.withdrawalsOf, Group.rbfOf, Group.cancel1Of,
      Group.taxOf, Group.confOf, Group.minOf, Group.addsOf, Group.removesOf]
  | claim rs =>
    have := records_map_enc (n := 48) (by decide) encodeClaim decClaim _ (fun r hr => encodeClaim_length hr)
      (fun r hr => decClaim_encodeClaim hr) rs h
    show some { d with locking.claims := d.locking.claims ++ (records 48 (rs.map encodeClaim).flatten).map decClaim } = _
    rw [this]; simp [dappend, collect, Group.gasOf, Group.createsOf, Group.locksOf, Group.unlocksOf, Group.claimsOf,
      Group.grantsOf, Group.weightsOf, Group.thresholdsOf, Group.withdrawalsOf, Group.rbfOf, Group.cancel1Of,
      Group.taxOf, Group.confOf, Group.minOf, Group.addsOf, Group.removesOf]
  | grant rs =>
    have := records_map_enc (n := 32) (by decide) encodeGrant decGrant _ (fun r _ => encodeGrant_length r)
      (fun r hr => decGrant_encodeGrant hr) rs h
    show some { d with locking.grants := d.locking.grants ++ (records 32 (rs.map encodeGrant).flatten).map decGrant } = _
    rw [this]; simp [dappend, collect, Group.gasOf, Group.createsOf, Group.locksOf, Group.unlocksOf, Group.claimsOf,
      Group.grantsOf, Group.weightsOf, Group.thresholdsOf, Group.withdrawalsOf, Group.rbfOf, Group.cancel1Of,
      Group.taxOf, Group.confOf, Group.minOf, Group.addsOf, Group.removesOf]
  | weight rs =>
    have := records_map_enc (n := 28) (by decide) encodeWeight decWeight _ (fun r hr => encodeWeight_length hr)
      (fun r hr => decWeight_encodeWeight hr) rs h
    show some { d with locking.updateWeights := d.locking.updateWeights ++ (records 28 (rs.map encodeWeight).flatten).map decWeight } = _
    rw [this]; simp [dappend, collect, Group.gasOf, Group.createsOf, Group.locksOf, Group.unlocksOf, Group.claimsOf,
      Group.grantsOf, Group.weightsOf, Group.thresholdsOf, Group.withdrawalsOf, Group.rbfOf, Group.cancel1Of,
      Group.taxOf, Group.confOf, Group.minOf, Group.addsOf, Group.removesOf]
  | threshold rs =>
    have := records_map_enc (n := 52) (by decide) encodeThreshold decThreshold _ (fun r hr => encodeThreshold_length hr)
      (fun r hr => decThreshold_encodeThreshold hr) rs h
    show some { d with locking.updateThresholds := d.locking.updateThresholds ++ (records 52 (rs.map encodeThreshold).flatten).map decThreshold } = _
    rw [this]; simp [dappend, collect, Group.gasOf, Group.createsOf, Group.locksOf, Group.unlocksOf, Group.claimsOf,
      Group.grantsOf, Group.weightsOf, Group.thresholdsOf, Group.withdrawalsOf, Group.rbfOf, Group.cancel1Of,
      Group.taxOf, Group.confOf, Group.minOf, Group.addsOf, Group.removesOf]
  | withdrawal rs =>
    have := decWithdrawals_encode rs h.1 h.2
    show (match decWithdrawals (rs.map encodeWithdrawal).flatten with
      | none => none
      | some ws => some { d with bridge.withdraws := d.bridge.withdraws ++ ws }) = _
    rw [this]; simp [dappend, collect, Group.gasOf, Group.createsOf, Group.locksOf, Group.unlocksOf, Group.claimsOf,
      Group.grantsOf, Group.weightsOf, Group.thresholdsOf, Group.withdrawalsOf, Group.rbfOf, Group.cancel1Of,
      Group.taxOf, Group.confOf, Group.minOf, Group.addsOf, Group.removesOf]
  | replaceByFee rs =>
    have := records_map_enc (n := 16) (by decide) encodeRbf decRbf _ (fun r _ => encodeRbf_length r)
      (fun r hr => decRbf_encodeRbf hr) rs h
    show some { d with bridge.replaceByFees := d.bridge.replaceByFees ++ (records 16 (rs.map encodeRbf).flatten).map decRbf } = _
    rw [this]; simp [dappend, collect, Group.gasOf, Group.createsOf, Group.locksOf, Group.unlocksOf, Group.claimsOf,
      Group.grantsOf, Group.weightsOf, Group.thresholdsOf, Group.withdrawalsOf, Group.rbfOf, Group.cancel1Of,
      Group.taxOf, Group.confOf, Group.minOf, Group.addsOf, Group.removesOf]
  | cancel1 rs =>
    have := records_map_enc (n := 8) (by decide) encodeCancel1 decCancel1 _ (fun r _ => encodeCancel1_length r)
      (fun r hr => decCancel1_encodeCancel1 hr) rs h
    show some { d with bridge.cancel1s := d.bridge.cancel1s ++ (records 8 (rs.map encodeCancel1).flatten).map decCancel1 } = _
    rw [this]; simp [dappend, collect, Group.gasOf, Group.createsOf, Group.locksOf, Group.unlocksOf, Group.claimsOf,
      Group.grantsOf, Group.weightsOf, Group.thresholdsOf, Group.withdrawalsOf, Group.rbfOf, Group.cancel1Of,
      Group.taxOf, Group.confOf, Group.minOf, Group.addsOf, Group.removesOf]
  | depositTax rs =>
    have := records_map_enc (n := 16) (by decide) encodeTax decTax _ (fun r _ => encodeTax_length r)
      (fun r hr => decTax_encodeTax hr) rs h
    show some { d with bridge.depositTax := d.bridge.depositTax ++ (records 16 (rs.map encodeTax).flatten).map decTax } = _
    rw [this]; simp [dappend, collect, Group.gasOf, Group.createsOf, Group.locksOf, Group.unlocksOf, Group.claimsOf,
      Group.grantsOf, Group.weightsOf, Group.thresholdsOf, Group.withdrawalsOf, Group.rbfOf, Group.cancel1Of,
      Group.taxOf, Group.confOf, Group.minOf, Group.addsOf, Group.removesOf]
  | confirmation rs =>
    have := records_map_enc (n := 8) (by decide) encodeConf decConf _ (fun r _ => encodeConf_length r)
      (fun r hr => decConf_encodeConf hr) rs h
    show some { d with bridge.confirmation := d.bridge.confirmation ++ (records 8 (rs.map encodeConf).flatten).map decConf } = _
    rw [this]; simp [dappend, collect, Group.gasOf, Group.createsOf, Group.locksOf, Group.unlocksOf, Group.claimsOf,
      Group.grantsOf, Group.weightsOf, Group.thresholdsOf, Group.withdrawalsOf, Group.rbfOf, Group.cancel1Of,
      Group.taxOf, Group.confOf, Group.minOf, Group.addsOf, Group.removesOf]
  | minDeposit rs =>
    have := records_map_enc (n := 8) (by decide) encodeMin decMin _ (fun r _ => encodeMin_length r)
      (fun r hr => decMin_encodeMin hr) rs h
    show some { d with bridge.minDeposit := d.bridge.minDeposit ++ (records 8 (rs.map encodeMin).flatten).map decMin } = _
    rw [this]; simp [dappend, collect, Group.gasOf, Group.createsOf, Group.locksOf, Group.unlocksOf, Group.claimsOf,
      Group.grantsOf, Group.weightsOf, Group.thresholdsOf, Group.withdrawalsOf, Group.rbfOf, Group.cancel1Of,
      Group.taxOf, Group.confOf, Group.minOf, Group.addsOf, Group.removesOf]
  | addVoter rs =>
    have := records_map_enc (n := 52) (by decide) encodeAddVoter decAddVoter _ (fun r hr => encodeAddVoter_length hr)
      (fun r hr => decAddVoter_encodeAddVoter hr) rs h
    show some { d with relayer.adds := d.relayer.adds ++ (records 52 (rs.map encodeAddVoter).flatten).map decAddVoter } = _
    rw [this]; simp [dappend, collect, Group.gasOf, Group.createsOf, Group.locksOf, Group.unlocksOf, Group.claimsOf,
      Group.grantsOf, Group.weightsOf, Group.thresholdsOf, Group.withdrawalsOf, Group.rbfOf, Group.cancel1Of,
      Group.taxOf, Group.confOf, Group.minOf, Group.addsOf, Group.removesOf]
  | removeVoter rs =>
    have := records_map_enc (n := 20) (by decide) encodeRemoveVoter decRemoveVoter _
      (fun r hr => encodeRemoveVoter_length hr) (fun r _ => decRemoveVoter_encodeRemoveVoter r) rs h
    show some { d with relayer.removes := d.relayer.removes ++ (records 20 (rs.map encodeRemoveVoter).flatten).map decRemoveVoter } = _
    rw [this]; simp [dappend, collect, Group.gasOf, Group.createsOf, Group.locksOf, Group.unlocksOf, Group.claimsOf,
      Group.grantsOf, Group.weightsOf, Group.thresholdsOf, Group.withdrawalsOf, Group.rbfOf, Group.cancel1Of,
      Group.taxOf, Group.confOf, Group.minOf, Group.addsOf, Group.removesOf]

theorem decodeItems_groups : ∀ (gs : List Group) (d : Decoded), (∀ g ∈ gs, g.WF) →
    decodeItems d (gs.map Group.encode) = some (dappend d (collect gs)) := by
  intro gs
  induction gs with
  | nil => intro d _; simp [decodeItems, collect_nil, dappend_empty_right]
  | cons g gs ih =>
    intro d h
    simp only [List.map_cons, decodeItems, decodeItem_group d g (h g (by simp))]
    rw [ih _ (fun x hx => h x (by simp [hx])), dappend_assoc, ← collect_cons]


/-! ## 7. Theorem 2 — decoding an encoding -/

/-- **decode_encode** (the whole list).  For every list of at most 255 well-formed groups (items of several
    types, several items of one type, in any order) the decoder accepts the list of their typed items and returns
    exactly the records, each field being the concatenation — in the order of the items — of the groups of its
    type. -/
theorem decode_encode (gs : List Group) (hn : gs.length ≤ 255) (h : ∀ g ∈ gs, g.WF) :
    decodeRequests (gs.map Group.encode) = some (collect gs) := by
  have : ¬ 255 < (gs.map Group.encode).length := by simp; omega
  rw [decodeRequests, if_neg this, decodeItems_groups gs _ h, dappend_empty_left]

/-- one item -/
theorem decode_encode_single (g : Group) (h : g.WF) : decodeRequests [g.encode] = some (collect [g]) :=
  decode_encode [g] (by simp) (by simpa using h)

/-! one theorem per record type (instances of `decode_encode_single`) -/

section perType
attribute [local simp] Group.encode collect Group.gasOf Group.createsOf Group.locksOf Group.unlocksOf Group.claimsOf
  Group.grantsOf Group.weightsOf Group.thresholdsOf Group.withdrawalsOf Group.rbfOf Group.cancel1Of
  Group.taxOf Group.confOf Group.minOf Group.addsOf Group.removesOf

theorem decode_encode_gas (rs : List GasRequest) (h : ∀ r ∈ rs, r.WF) :
    decodeRequests [encodeTyped 0 (rs.map encodeGas)] = some { locking := { gas := rs } } := by
  simpa using decode_encode_single (.gas rs) h
theorem decode_encode_create (rs : List CreateRequest) (h : ∀ r ∈ rs, r.WF) :
    decodeRequests [encodeTyped 1 (rs.map encodeCreate)] = some { locking := { creates := rs } } := by
  simpa using decode_encode_single (.create rs) h
theorem decode_encode_lock (rs : List LockRequest) (h : ∀ r ∈ rs, r.WF) :
    decodeRequests [encodeTyped 2 (rs.map encodeLock)] = some { locking := { locks := rs } } := by
  simpa using decode_encode_single (.lock rs) h
theorem decode_encode_unlock (rs : List UnlockRequest) (h : ∀ r ∈ rs, r.WF) :
    decodeRequests [encodeTyped 3 (rs.map encodeUnlock)] = some { locking := { unlocks := rs } } := by
  simpa using decode_encode_single (.unlock rs) h
theorem decode_encode_claim (rs : List ClaimRequest) (h : ∀ r ∈ rs, r.WF) :
    decodeRequests [encodeTyped 4 (rs.map encodeClaim)] = some { locking := { claims := rs } } := by
  simpa using decode_encode_single (.claim rs) h
/-- partial: only below 2^248 (see `decode_encode_grant_false`, `decode_encode_grant_mod`) -/
theorem decode_encode_grant_partial (rs : List GrantRequest) (h : ∀ r ∈ rs, r.amount < 2 ^ 248) :
    decodeRequests [encodeTyped 5 (rs.map encodeGrant)] = some { locking := { grants := rs } } := by
  simpa using decode_encode_single (.grant rs) h
theorem decode_encode_weight (rs : List UpdateTokenWeightRequest) (h : ∀ r ∈ rs, r.WF) :
    decodeRequests [encodeTyped 6 (rs.map encodeWeight)] = some { locking := { updateWeights := rs } } := by
  simpa using decode_encode_single (.weight rs) h
theorem decode_encode_threshold (rs : List UpdateTokenThresholdRequest) (h : ∀ r ∈ rs, r.WF) :
    decodeRequests [encodeTyped 7 (rs.map encodeThreshold)] = some { locking := { updateThresholds := rs } } := by
  simpa using decode_encode_single (.threshold rs) h
/-- partial: the last record of the item must have a non-empty address (see `decode_encode_withdrawal_false`) -/
theorem decode_encode_withdrawal_partial (rs : List WithdrawalRequest) (h : ∀ r ∈ rs, r.WF)
    (hl : ∀ r, rs.getLast? = some r → r.address ≠ []) :
    decodeRequests [encodeTyped 11 (rs.map encodeWithdrawal)] = some { bridge := { withdraws := rs } } := by
  simpa using decode_encode_single (.withdrawal rs) ⟨h, hl⟩
theorem decode_encode_rbf (rs : List ReplaceByFeeRequest) (h : ∀ r ∈ rs, r.WF) :
    decodeRequests [encodeTyped 12 (rs.map encodeRbf)] = some { bridge := { replaceByFees := rs } } := by
  simpa using decode_encode_single (.replaceByFee rs) h
theorem decode_encode_cancel1 (rs : List Cancel1Request) (h : ∀ r ∈ rs, r.WF) :
    decodeRequests [encodeTyped 13 (rs.map encodeCancel1)] = some { bridge := { cancel1s := rs } } := by
  simpa using decode_encode_single (.cancel1 rs) h
theorem decode_encode_tax (rs : List DepositTaxRequest) (h : ∀ r ∈ rs, r.WF) :
    decodeRequests [encodeTyped 14 (rs.map encodeTax)] = some { bridge := { depositTax := rs } } := by
  simpa using decode_encode_single (.depositTax rs) h
theorem decode_encode_conf (rs : List ConfirmationNumberRequest) (h : ∀ r ∈ rs, r.WF) :
    decodeRequests [encodeTyped 15 (rs.map encodeConf)] = some { bridge := { confirmation := rs } } := by
  simpa using decode_encode_single (.confirmation rs) h
theorem decode_encode_min (rs : List MinDepositRequest) (h : ∀ r ∈ rs, r.WF) :
    decodeRequests [encodeTyped 16 (rs.map encodeMin)] = some { bridge := { minDeposit := rs } } := by
  simpa using decode_encode_single (.minDeposit rs) h
theorem decode_encode_addVoter (rs : List AddVoterRequest) (h : ∀ r ∈ rs, r.WF) :
    decodeRequests [encodeTyped 20 (rs.map encodeAddVoter)] = some { relayer := { adds := rs } } := by
  simpa using decode_encode_single (.addVoter rs) h
theorem decode_encode_removeVoter (rs : List RemoveVoterRequest) (h : ∀ r ∈ rs, r.WF) :
    decodeRequests [encodeTyped 21 (rs.map encodeRemoveVoter)] = some { relayer := { removes := rs } } := by
  simpa using decode_encode_single (.removeVoter rs) h

end perType

/-! ### the two record types for which the full-strength round trip is FALSE -/

/-- Grants: `GrantRequest.Decode` reads `input[1:]`.  What is decoded from the encoding of ANY list of grants
    (amounts below 2^256, as `FillBytes` demands) is the amounts modulo 2^248. -/
theorem decode_encode_grant_mod (rs : List GrantRequest) :
    decodeRequests [encodeTyped 5 (rs.map encodeGrant)]
      = some { locking := { grants := rs.map fun r => { amount := r.amount % 2 ^ 248 } } } := by
  have hrec : (records 32 (rs.map encodeGrant).flatten).map decGrant = rs.map fun r => { amount := r.amount % 2 ^ 248 } := by
    rw [records_flatten (by decide)]
    · rw [List.map_map]; exact List.map_congr_left (fun r _ => decGrant_encodeGrant_mod r)
    · intro c hc
      rcases List.mem_map.mp hc with ⟨r, _, rfl⟩
      exact encodeGrant_length r
  show some { Decoded.empty with locking.grants :=
      Decoded.empty.locking.grants ++ (records 32 (rs.map encodeGrant).flatten).map decGrant } = _
  rw [hrec]; rfl

/-- the negation of the full-strength statement for grants: 2^255 < 2^256 comes back as 0 -/
theorem decode_encode_grant_false :
    ¬ ∀ rs : List GrantRequest, (∀ r ∈ rs, r.amount < 2 ^ 256) →
      decodeRequests [encodeTyped 5 (rs.map encodeGrant)] = some { locking := { grants := rs } } := by
  intro h
  have := h [{ amount := 2 ^ 255 }] (by simp)
  rw [decode_encode_grant_mod] at this
  revert this; decide

/-- the negation of the full-strength statement for withdrawals: the library's own encoding of ONE withdrawal to
    the empty address is rejected (`bytes.Reader.Read` answers `io.EOF` for the zero-length address buffer). -/
theorem decode_encode_withdrawal_false :
    ¬ ∀ rs : List WithdrawalRequest, (∀ r ∈ rs, r.WF) →
      decodeRequests [encodeTyped 11 (rs.map encodeWithdrawal)] = some { bridge := { withdraws := rs } } := by
  intro h
  have := h [{ id := 1, amount := 2, txPrice := 3, address := [] }] (by
    intro r hr; simp at hr; subst hr; exact ⟨by decide, by decide, by decide, by decide⟩)
  revert this; decide

/-! ## 8. Theorem 1 — exactly which inputs are rejected -/

theorem flatten_encodeWithdrawal_length_ge (rs : List WithdrawalRequest) :
    25 * rs.length ≤ (rs.map encodeWithdrawal).flatten.length := by
  induction rs with
  | nil => simp
  | cons r rs ih =>
    have : ((r :: rs).map encodeWithdrawal).flatten.length
        = (encodeWithdrawal r).length + (rs.map encodeWithdrawal).flatten.length := by
      rw [List.map_cons, List.flatten_cons, List.length_append]
    rw [this, encodeWithdrawal_length, List.length_cons]; omega

/-- a withdrawal body the loop rejects: complete records followed by 1..25 left-over bytes -/
def WithdrawalBodyBad (body : Bytes) : Prop :=
  ∃ (rs : List WithdrawalRequest) (tail : Bytes),
    (∀ r ∈ rs, r.WF) ∧ body = (rs.map encodeWithdrawal).flatten ++ tail ∧ tail ≠ [] ∧ tail.length ≤ 25

theorem wdRecord_wf (h rest : Bytes) : (wdRecord h rest).WF := by
  refine ⟨leToNat_lt64 (by simp; omega), leToNat_lt64 (by simp; omega), leToNat_lt64 (by simp; omega), ?_⟩
  simp only [wdRecord, readPad_length]
  have := ((h.drop 24).headD 0).toNat_lt
  omega

theorem split25 (h : Bytes) (hh : h.length = 25) :
    h = h.take 8 ++ (h.drop 8).take 8 ++ (h.drop 16).take 8 ++ [(h.drop 24).headD 0] := by
  have e1 : h.take 8 ++ h.drop 8 = h := List.take_append_drop 8 h
  have e2 : (h.drop 8).take 8 ++ h.drop 16 = h.drop 8 := by
    have := List.take_append_drop 8 (h.drop 8); simpa [List.drop_drop] using this
  have e3 : (h.drop 16).take 8 ++ h.drop 24 = h.drop 16 := by
    have := List.take_append_drop 8 (h.drop 16); simpa [List.drop_drop] using this
  have e4 : [(h.drop 24).headD 0] = h.drop 24 := by
    have hl : (h.drop 24).length = 1 := by simp [hh]
    cases hd : h.drop 24 with
    | nil => rw [hd] at hl; simp at hl
    | cons x xs =>
      rw [hd] at hl
      have : xs = [] := by cases xs with | nil => rfl | cons _ _ => simp at hl
      simp [this]
  have : h.take 8 ++ ((h.drop 8).take 8 ++ ((h.drop 16).take 8 ++ [(h.drop 24).headD 0])) = h := by
    rw [e4, e3, e2, e1]
  rw [List.append_assoc, List.append_assoc]
  exact this.symm

/-- a decoded record whose address was completely there encodes back to the bytes it was read from -/
theorem encode_wdRecord (h rest : Bytes) (hh : h.length = 25) (hL : ((h.drop 24).headD 0).toNat ≤ rest.length) :
    encodeWithdrawal (wdRecord h rest) = h ++ rest.take ((h.drop 24).headD 0).toNat := by
  have l1 : (h.take 8).length = 8 := by simp; omega
  have l2 : ((h.drop 8).take 8).length = 8 := by simp; omega
  have l3 : ((h.drop 16).take 8).length = 8 := by simp; omega
  have la : (rest.take ((h.drop 24).headD 0).toNat).length = ((h.drop 24).headD 0).toNat := by
    rw [List.length_take]; omega
  simp only [encodeWithdrawal, wdRecord, le64_leToNat l1, le64_leToNat l2, le64_leToNat l3, readPad_of_le hL]
  rw [la, UInt8.ofNat_toNat, ← split25 h hh]

theorem withdrawalsAux_none : ∀ (fuel : Nat) (bs : Bytes), withdrawalsAux fuel bs = none → WithdrawalBodyBad bs := by
  intro fuel
  induction fuel with
  | zero => intro bs h; simp [withdrawalsAux] at h
  | succ f ih =>
    intro bs h
    cases hb : bs with
    | nil => rw [hb, withdrawalsAux_nil] at h; simp at h
    | cons b t =>
      rw [← hb]
      by_cases hl : bs.length ≤ 25
      · exact ⟨[], bs, by simp, by simp, by rw [hb]; simp, hl⟩
      · have hsplit : bs = bs.take 25 ++ bs.drop 25 := (List.take_append_drop 25 bs).symm
        have hh : (bs.take 25).length = 25 := by simp; omega
        have hr' : bs.drop 25 ≠ [] := by
          intro e; have := congrArg List.length e; simp at this; omega
        rw [hsplit, withdrawalsAux_step f _ _ hh hr'] at h
        generalize hL : (((bs.take 25).drop 24).headD 0).toNat = L at h
        cases hrec : withdrawalsAux f ((bs.drop 25).drop L) with
        | some rs' => rw [hrec] at h; simp at h
        | none =>
          obtain ⟨rs, tail, hwf, hbody, ht0, ht⟩ := ih _ hrec
          have hLle : L ≤ (bs.drop 25).length := by
            have : (bs.drop 25).drop L ≠ [] := by
              intro e; rw [e, withdrawalsAux_nil] at hrec; simp at hrec
            have h2 : 0 < ((bs.drop 25).drop L).length := List.length_pos_iff.mpr this
            simp at h2 ⊢; omega
          refine ⟨wdRecord (bs.take 25) (bs.drop 25) :: rs, tail, ?_, ?_, ht0, ht⟩
          · intro r hr
            rcases List.mem_cons.mp hr with rfl | hr
            · exact wdRecord_wf _ _
            · exact hwf r hr
          · have henc := encode_wdRecord (bs.take 25) (bs.drop 25) hh (by rw [hL]; exact hLle)
            rw [hL] at henc
            simp only [List.map_cons, List.flatten_cons, henc, List.append_assoc]
            rw [← hbody, List.take_append_drop, List.take_append_drop]

/-- the withdrawal loop rejects a body exactly when, after some complete records, 1 to 25 bytes are left -/
theorem decWithdrawals_none_iff (body : Bytes) : decWithdrawals body = none ↔ WithdrawalBodyBad body := by
  constructor
  · exact withdrawalsAux_none _ _
  · rintro ⟨rs, tail, hwf, rfl, ht0, ht⟩
    have hlen := flatten_encodeWithdrawal_length_ge rs
    have htl : 0 < tail.length := List.length_pos_iff.mpr ht0
    have := withdrawalsAux_flatten tail rs hwf (fun e => absurd e ht0)
      ((rs.map encodeWithdrawal).flatten ++ tail).length (Nat.le_refl _)
    rw [decWithdrawals, this]
    have hpos : ((rs.map encodeWithdrawal).flatten ++ tail).length - rs.length
        = (((rs.map encodeWithdrawal).flatten ++ tail).length - rs.length - 1) + 1 := by
      rw [List.length_append]; omega
    rw [hpos, withdrawalsAux_short _ tail ht0 ht]

/-- an item the decoder rejects: empty; or an unknown type byte (whatever follows); or a withdrawal item whose
    body leaves 1 to 25 bytes after some complete records.  There is NO other error condition: the items of the
    fifteen fixed-size types are accepted whatever their body is. -/
def ItemRejected (item : Bytes) : Prop :=
  item = [] ∨ (∃ t body, item = t :: body ∧ t ∉ knownTypes) ∨ (∃ body, item = 11 :: body ∧ WithdrawalBodyBad body)

theorem decodeItem_none_iff (d : Decoded) (item : Bytes) : decodeItem d item = none ↔ ItemRejected item := by
  cases item with
  | nil => simp [decodeItem, ItemRejected]
  | cons t body =>
    cases hk : kindOf t with
    | none =>
      have := (kindOf_eq_none_iff t).mp hk
      simp only [decodeItem, hk, true_iff]
      exact Or.inr (Or.inl ⟨t, body, rfl, this⟩)
    | some k =>
      have ht : t = k.typeByte := kindOf_eq_some hk
      have hmem : t ∈ knownTypes := by
        rw [ht, knownTypes_eq]; exact List.mem_map.mpr ⟨k, by cases k <;> simp [Kind.all], rfl⟩
      have hnotin : ¬ (∃ t' body', t :: body = t' :: body' ∧ t' ∉ knownTypes) := by
        rintro ⟨t', body', e, hn⟩
        simp only [List.cons.injEq] at e
        exact hn (e.1 ▸ hmem)
      cases k with
      | withdrawal =>
        have ht11 : t = 11 := ht
        subst ht11
        simp only [decodeItem, hk, ItemRejected]
        constructor
        · intro h
          refine Or.inr (Or.inr ⟨body, rfl, (decWithdrawals_none_iff body).mp ?_⟩)
          cases hw : decWithdrawals body with
          | none => rfl
          | some ws => rw [hw] at h; simp at h
        · rintro (h | h | ⟨body', e, hbad⟩)
          · simp at h
          · exact absurd h hnotin
          · simp only [List.cons.injEq, true_and] at e
            subst e
            rw [(decWithdrawals_none_iff body).mpr hbad]
      | _ =>
        simp only [decodeItem, hk, ItemRejected, reduceCtorEq, false_iff, false_or, not_or]
        refine ⟨hnotin, ?_⟩
        rintro ⟨body', e, _⟩
        simp only [List.cons.injEq] at e
        have := e.1; rw [ht] at this
        revert this; decide

theorem decodeItems_none_iff : ∀ (reqs : List Bytes) (d : Decoded),
    decodeItems d reqs = none ↔ ∃ item ∈ reqs, ItemRejected item := by
  intro reqs
  induction reqs with
  | nil => intro d; simp [decodeItems]
  | cons it rest ih =>
    intro d
    cases h : decodeItem d it with
    | none =>
      simp only [decodeItems, h, true_iff]
      exact ⟨it, by simp, (decodeItem_none_iff d it).mp h⟩
    | some d' =>
      have hn : ¬ ItemRejected it := fun hr => by
        rw [(decodeItem_none_iff d it).mpr hr] at h; simp at h
      simp only [decodeItems, h, ih d', List.mem_cons, exists_eq_or_imp, hn, false_or]

/-- **decode_none_iff** — the complete characterisation of the rejected inputs: more than 255 items, or some item
    that is empty / of an unknown type / a withdrawal item with 1 to 25 left-over bytes. -/
theorem decode_none_iff (reqs : List Bytes) :
    decodeRequests reqs = none ↔ 255 < reqs.length ∨ ∃ item ∈ reqs, ItemRejected item := by
  by_cases h : 255 < reqs.length
  · simp [decodeRequests, h]
  · simp [decodeRequests, h, decodeItems_none_iff]

/-- **decode_total**: on every input the decoder either rejects or returns a value; it is rejected exactly in the
    cases of `decode_none_iff`, accepted in all others. -/
theorem decode_total (reqs : List Bytes) :
    (decodeRequests reqs = none ∧ (255 < reqs.length ∨ ∃ item ∈ reqs, ItemRejected item)) ∨
    (∃ d, decodeRequests reqs = some d ∧ reqs.length ≤ 255 ∧ ∀ item ∈ reqs, ¬ ItemRejected item) := by
  cases h : decodeRequests reqs with
  | none => exact Or.inl ⟨rfl, (decode_none_iff reqs).mp h⟩
  | some d =>
    refine Or.inr ⟨d, rfl, ?_⟩
    have : ¬ (255 < reqs.length ∨ ∃ item ∈ reqs, ItemRejected item) := fun hh => by
      rw [(decode_none_iff reqs).mpr hh] at h; simp at h
    simp only [not_or, not_exists, not_and] at this
    exact ⟨by omega, this.2⟩

/-! ## 9. Theorem 5 — the three list-level rejections -/

theorem unknown_type_rejected (reqs : List Bytes) (t : UInt8) (body : Bytes) (ht : t ∉ knownTypes)
    (hmem : (t :: body) ∈ reqs) : decodeRequests reqs = none :=
  (decode_none_iff reqs).mpr (Or.inr ⟨_, hmem, Or.inr (Or.inl ⟨t, body, rfl, ht⟩)⟩)

/-- the gaps of the numbering and everything from 22 on -/
theorem unknown_types (t : UInt8) : t ∉ knownTypes ↔ (8 ≤ t ∧ t ≤ 10) ∨ (17 ≤ t ∧ t ≤ 19) ∨ 22 ≤ t := by
  simp only [knownTypes, List.mem_cons, List.not_mem_nil, or_false, not_or, UInt8.le_iff_toNat_le,
    ← UInt8.toNat_inj]
  simp
  omega

theorem empty_item_rejected (reqs : List Bytes) (hmem : [] ∈ reqs) : decodeRequests reqs = none :=
  (decode_none_iff reqs).mpr (Or.inr ⟨_, hmem, Or.inl rfl⟩)

theorem too_many_items_rejected (reqs : List Bytes) (h : 255 < reqs.length) : decodeRequests reqs = none :=
  (decode_none_iff reqs).mpr (Or.inl h)

/-- an item that is only a type byte (of a known type) is accepted and contributes nothing -/
theorem type_byte_only_accepted (d : Decoded) (k : Kind) : decodeItem d [k.typeByte] = some d := by
  have hr : ∀ n, records n [] = [] := fun n => rfl
  have hw : decWithdrawals [] = some [] := rfl
  simp only [decodeItem, kindOf_typeByte]
  cases k <;> simp [hr, hw]

/-- the limit is sharp: 255 items are accepted -/
theorem max_items_accepted : decodeRequests (List.replicate 255 [13]) = some Decoded.empty := by
  have h13 : ∀ d, decodeItem d [13] = some d := fun d => type_byte_only_accepted d .cancel1
  have : ∀ n d, decodeItems d (List.replicate n [13]) = some d := by
    intro n
    induction n with
    | zero => intro d; rfl
    | succ n ih => intro d; simp only [List.replicate_succ, decodeItems, h13]; exact ih d
  rw [decodeRequests, if_neg (by rw [List.length_replicate]; omega), this]

end Goat.C19R

namespace Goat.Requests

/-- every decoded record is within the range of its Go type -/
def Decoded.WF (d : Decoded) : Prop :=
  (∀ r ∈ d.bridge.withdraws, r.WF) ∧ (∀ r ∈ d.bridge.replaceByFees, r.WF) ∧ (∀ r ∈ d.bridge.cancel1s, r.WF) ∧
  (∀ r ∈ d.bridge.depositTax, r.WF) ∧ (∀ r ∈ d.bridge.confirmation, r.WF) ∧ (∀ r ∈ d.bridge.minDeposit, r.WF) ∧
  (∀ r ∈ d.relayer.adds, r.WF) ∧ (∀ r ∈ d.relayer.removes, r.WF) ∧
  (∀ r ∈ d.locking.gas, r.WF) ∧ (∀ r ∈ d.locking.creates, r.WF) ∧ (∀ r ∈ d.locking.locks, r.WF) ∧
  (∀ r ∈ d.locking.unlocks, r.WF) ∧ (∀ r ∈ d.locking.claims, r.WF) ∧ (∀ r ∈ d.locking.grants, r.WF) ∧
  (∀ r ∈ d.locking.updateWeights, r.WF) ∧ (∀ r ∈ d.locking.updateThresholds, r.WF)

end Goat.Requests

namespace Goat.C19R
open Goat Goat.Requests

/-! ## 10. Theorem 3 — a final record that is cut short -/

/-- the read loop on a body whose last record is cut short produces exactly the buffers of the body padded with
    zeros at the end up to the next record boundary -/
theorem records_truncated_eq {n : Nat} (hn : 0 < n) (cs : List Bytes) (hcs : ∀ c ∈ cs, c.length = n)
    (tail : Bytes) (h0 : tail ≠ []) (ht : tail.length < n) :
    records n (cs.flatten ++ tail) = records n (cs.flatten ++ (tail ++ zeros (n - tail.length))) := by
  rw [records_flatten_tail hn cs hcs tail h0 ht]
  have e : cs.flatten ++ (tail ++ zeros (n - tail.length)) = (cs ++ [tail ++ zeros (n - tail.length)]).flatten := by
    simp
  rw [e, records_flatten hn]
  intro c hc
  rcases List.mem_append.mp hc with hc | hc
  · exact hcs c hc
  · simp at hc; subst hc; simp [zeros_length]; omega

/-- **truncated_final_record** (the fifteen fixed-size record types).  An item whose body is complete records
    followed by a final record cut short to `tail` (1 ≤ |tail| < size) is ACCEPTED, and decodes exactly as the item
    whose final record is `tail` followed by zeros: the real library zero-pads (at the END of the record — the low
    end of a big-endian amount, the high end of a little-endian uint64) and reports no error. -/
theorem truncated_final_record (k : Kind) (hk : k ≠ .withdrawal) (d : Decoded) (cs : List Bytes)
    (hcs : ∀ c ∈ cs, c.length = k.size) (tail : Bytes) (h0 : tail ≠ []) (ht : tail.length < k.size) :
    decodeItem d (k.typeByte :: (cs.flatten ++ tail))
        = decodeItem d (k.typeByte :: (cs.flatten ++ (tail ++ zeros (k.size - tail.length))))
      ∧ (decodeItem d (k.typeByte :: (cs.flatten ++ tail))).isSome = true := by
  have hn : 0 < k.size := by cases k <;> decide
  have key := records_truncated_eq hn cs hcs tail h0 ht
  simp only [decodeItem, kindOf_typeByte]
  cases k <;> first | exact absurd rfl hk | (simp only [Kind.size] at key ⊢; rw [key]; exact ⟨rfl, rfl⟩)

/-- concrete: a cancel1 item with THREE bytes instead of eight is accepted; the id is the little-endian value of
    the three bytes (1 + 2·256 + 3·65536) -/
theorem truncated_final_record_example :
    decodeRequests [[13, 1, 2, 3]] = some { bridge := { cancel1s := [{ id := 197121 }] } } := by decide

/-- concrete: a gas item cut after the first byte of the amount: the amount byte 01 becomes the MOST significant
    byte, the amount is 2^248 -/
theorem truncated_final_record_example_gas :
    decodeRequests [[0, 5, 0, 0, 0, 0, 0, 0, 0, 1]] = some { locking := { gas := [{ height := 5, amount := 2 ^ 248 }] } } := by
  decide

/-- concrete: one complete confirmation-number record and a second one of a single byte -/
theorem truncated_final_record_example_two :
    decodeRequests [[15, 6, 0, 0, 0, 0, 0, 0, 0, 9]]
      = some { bridge := { confirmation := [{ number := 6 }, { number := 9 }] } } := by decide

/-- the withdrawal record, cut anywhere up to and including the end of its 25-byte header: REJECTED -/
theorem truncated_withdrawal_header_rejected (rs : List WithdrawalRequest) (hwf : ∀ r ∈ rs, r.WF)
    (tail : Bytes) (h0 : tail ≠ []) (ht : tail.length ≤ 25) :
    decWithdrawals ((rs.map encodeWithdrawal).flatten ++ tail) = none :=
  (decWithdrawals_none_iff _).mpr ⟨rs, tail, hwf, rfl, h0, ht⟩

/-- the withdrawal record, cut inside its address (at least one address byte left): ACCEPTED, the address is
    zero-padded at the end to the announced length -/
theorem truncated_withdrawal_address_padded (rs : List WithdrawalRequest) (hwf : ∀ r ∈ rs, r.WF)
    (h rest : Bytes) (hh : h.length = 25) (h0 : rest ≠ []) (hl : rest.length ≤ ((h.drop 24).headD 0).toNat) :
    decWithdrawals ((rs.map encodeWithdrawal).flatten ++ (h ++ rest)) = some (rs ++ [wdRecord h rest])
      ∧ (wdRecord h rest).address = rest ++ zeros (((h.drop 24).headD 0).toNat - rest.length) := by
  constructor
  · have hne : h ++ rest ≠ [] := by simp [h0]
    have := withdrawalsAux_flatten (h ++ rest) rs hwf (fun e => absurd e hne)
      ((rs.map encodeWithdrawal).flatten ++ (h ++ rest)).length (Nat.le_refl _)
    rw [decWithdrawals, this]
    have hlen := flatten_encodeWithdrawal_length_ge rs
    have hpos : ((rs.map encodeWithdrawal).flatten ++ (h ++ rest)).length - rs.length
        = (((rs.map encodeWithdrawal).flatten ++ (h ++ rest)).length - rs.length - 1) + 1 := by
      rw [List.length_append, List.length_append, hh]; omega
    rw [hpos, withdrawalsAux_step _ h rest hh h0, List.drop_of_length_le hl, withdrawalsAux_nil]
  · simp only [wdRecord]; exact readPad_of_lt hl

/-- the library's own encoding of a list of withdrawals that ENDS with a withdrawal to the empty address: REJECTED -/
theorem withdrawal_empty_address_last_rejected (rs : List WithdrawalRequest) (hwf : ∀ r ∈ rs, r.WF)
    (r : WithdrawalRequest) (ha : r.address = []) :
    decodeRequests [encodeTyped 11 ((rs ++ [r]).map encodeWithdrawal)] = none := by
  apply (decode_none_iff _).mpr
  refine Or.inr ⟨_, List.mem_singleton.mpr rfl,
    Or.inr (Or.inr ⟨((rs ++ [r]).map encodeWithdrawal).flatten, rfl, rs, wdHeader r, hwf, ?_, ?_, ?_⟩)⟩
  · simp [encodeWithdrawal_eq, ha]
  · intro e; have := congrArg List.length e; simp [wdHeader_length] at this
  · simp [wdHeader_length]

/-- …but in the MIDDLE of an item the empty address is fine -/
theorem withdrawal_empty_address_inside_accepted :
    decodeRequests [encodeTyped 11 ([{ id := 1, amount := 2, txPrice := 3, address := [] },
        { id := 4, amount := 5, txPrice := 6, address := [120] }].map encodeWithdrawal)]
      = some { bridge := { withdraws := [{ id := 1, amount := 2, txPrice := 3, address := [] },
        { id := 4, amount := 5, txPrice := 6, address := [120] }] } } := by decide

/-! ## 11. Theorem 4 — the ranges of the decoded fields -/

theorem forall_append_records {α : Type} {P : α → Prop} {a : List α} {n : Nat} {body : Bytes} {dec : Bytes → α}
    (ha : ∀ r ∈ a, P r) (hd : ∀ c : Bytes, c.length = n → P (dec c)) :
    ∀ r ∈ a ++ (records n body).map dec, P r := by
  intro r hr
  rcases List.mem_append.mp hr with hr | hr
  · exact ha r hr
  · rcases List.mem_map.mp hr with ⟨c, hc, rfl⟩
    exact hd c (records_length_of_mem n body c hc)

theorem forall_append {α : Type} {P : α → Prop} {a b : List α} (ha : ∀ r ∈ a, P r) (hb : ∀ r ∈ b, P r) :
    ∀ r ∈ a ++ b, P r := by
  intro r hr
  rcases List.mem_append.mp hr with hr | hr
  · exact ha r hr
  · exact hb r hr

theorem decodeItem_wf (d d' : Decoded) (item : Bytes) (h : decodeItem d item = some d') (hd : d.WF) : d'.WF := by
  obtain ⟨h1, h2, h3, h4, h5, h6, h7, h8, h9, h10, h11, h12, h13, h14, h15, h16⟩ := hd
  cases item with
  | nil => simp [decodeItem] at h
  | cons t body =>
    cases hk : kindOf t with
    | none => simp [decodeItem, hk] at h
    | some k =>
      cases k with
      | withdrawal =>
        simp only [decodeItem, hk] at h
        cases hw : decWithdrawals body with
        | none => rw [hw] at h; simp at h
        | some ws =>
          rw [hw] at h
          simp only [Option.some.injEq] at h
          subst h
          exact ⟨forall_append h1 (decWithdrawals_wf hw), h2, h3, h4, h5, h6, h7, h8, h9, h10, h11, h12, h13, h14, h15, h16⟩
      | gas =>
        simp only [decodeItem, hk, Option.some.injEq] at h; subst h
        exact ⟨h1, h2, h3, h4, h5, h6, h7, h8, forall_append_records h9 (fun _ hc => decGas_wf hc), h10, h11, h12, h13, h14, h15, h16⟩
      | create =>
        simp only [decodeItem, hk, Option.some.injEq] at h; subst h
        exact ⟨h1, h2, h3, h4, h5, h6, h7, h8, h9, forall_append_records h10 (fun _ hc => decCreate_wf hc), h11, h12, h13, h14, h15, h16⟩
      | lock =>
        simp only [decodeItem, hk, Option.some.injEq] at h; subst h
        exact ⟨h1, h2, h3, h4, h5, h6, h7, h8, h9, h10, forall_append_records h11 (fun _ hc => decLock_wf hc), h12, h13, h14, h15, h16⟩
      | unlock =>
        simp only [decodeItem, hk, Option.some.injEq] at h; subst h
        exact ⟨h1, h2, h3, h4, h5, h6, h7, h8, h9, h10, h11, forall_append_records h12 (fun _ hc => decUnlock_wf hc), h13, h14, h15, h16⟩
      | claim =>
        simp only [decodeItem, hk, Option.some.injEq] at h; subst h
        exact ⟨h1, h2, h3, h4, h5, h6, h7, h8, h9, h10, h11, h12, forall_append_records h13 (fun _ hc => decClaim_wf hc), h14, h15, h16⟩
      | grant =>
        simp only [decodeItem, hk, Option.some.injEq] at h; subst h
        exact ⟨h1, h2, h3, h4, h5, h6, h7, h8, h9, h10, h11, h12, h13, forall_append_records h14 (fun _ hc => decGrant_wf hc), h15, h16⟩
      | weight =>
        simp only [decodeItem, hk, Option.some.injEq] at h; subst h
        exact ⟨h1, h2, h3, h4, h5, h6, h7, h8, h9, h10, h11, h12, h13, h14, forall_append_records h15 (fun _ hc => decWeight_wf hc), h16⟩
      | threshold =>
        simp only [decodeItem, hk, Option.some.injEq] at h; subst h
        exact ⟨h1, h2, h3, h4, h5, h6, h7, h8, h9, h10, h11, h12, h13, h14, h15, forall_append_records h16 (fun _ hc => decThreshold_wf hc)⟩
      | replaceByFee =>
        simp only [decodeItem, hk, Option.some.injEq] at h; subst h
        exact ⟨h1, forall_append_records h2 (fun _ hc => decRbf_wf hc), h3, h4, h5, h6, h7, h8, h9, h10, h11, h12, h13, h14, h15, h16⟩
      | cancel1 =>
        simp only [decodeItem, hk, Option.some.injEq] at h; subst h
        exact ⟨h1, h2, forall_append_records h3 (fun _ hc => decCancel1_wf hc), h4, h5, h6, h7, h8, h9, h10, h11, h12, h13, h14, h15, h16⟩
      | depositTax =>
        simp only [decodeItem, hk, Option.some.injEq] at h; subst h
        exact ⟨h1, h2, h3, forall_append_records h4 (fun _ hc => decTax_wf hc), h5, h6, h7, h8, h9, h10, h11, h12, h13, h14, h15, h16⟩
      | confirmation =>
        simp only [decodeItem, hk, Option.some.injEq] at h; subst h
        exact ⟨h1, h2, h3, h4, forall_append_records h5 (fun _ hc => decConf_wf hc), h6, h7, h8, h9, h10, h11, h12, h13, h14, h15, h16⟩
      | minDeposit =>
        simp only [decodeItem, hk, Option.some.injEq] at h; subst h
        exact ⟨h1, h2, h3, h4, h5, forall_append_records h6 (fun _ hc => decMin_wf hc), h7, h8, h9, h10, h11, h12, h13, h14, h15, h16⟩
      | addVoter =>
        simp only [decodeItem, hk, Option.some.injEq] at h; subst h
        exact ⟨h1, h2, h3, h4, h5, h6, forall_append_records h7 (fun _ hc => decAddVoter_wf hc), h8, h9, h10, h11, h12, h13, h14, h15, h16⟩
      | removeVoter =>
        simp only [decodeItem, hk, Option.some.injEq] at h; subst h
        exact ⟨h1, h2, h3, h4, h5, h6, h7, forall_append_records h8 (fun _ hc => decRemoveVoter_wf hc), h9, h10, h11, h12, h13, h14, h15, h16⟩

theorem decodeItems_wf : ∀ (reqs : List Bytes) (d d' : Decoded), decodeItems d reqs = some d' → d.WF → d'.WF := by
  intro reqs
  induction reqs with
  | nil => intro d d' h hd; simp [decodeItems] at h; exact h ▸ hd
  | cons it rest ih =>
    intro d d' h hd
    cases hi : decodeItem d it with
    | none => simp [decodeItems, hi] at h
    | some d1 =>
      simp only [decodeItems, hi] at h
      exact ih d1 d' h (decodeItem_wf d d1 it hi hd)

theorem empty_wf : Decoded.empty.WF := by
  simp [Decoded.WF, Decoded.empty]

/-- **decode_length_bounds**.  Whatever the input, every field of every decoded record is within the range of its
    Go type: uint64 fields below 2^64; gas / lock / unlock / threshold amounts below 2^256 (grants below 2^248);
    addresses exactly 20 bytes, validator keys exactly 64, voter key hashes exactly 32; the withdrawal address at
    most 255 bytes (NOT 90).  (`Decoded.WF` spelled out by the `WF` of each record type.) -/
theorem decode_length_bounds (reqs : List Bytes) (d : Decoded) (h : decodeRequests reqs = some d) : d.WF := by
  unfold decodeRequests at h
  split at h
  · simp at h
  · exact decodeItems_wf reqs _ d h empty_wf

/-- the same, read off field by field for the amounts the locking module adds up -/
theorem decode_amount_bounds (reqs : List Bytes) (d : Decoded) (h : decodeRequests reqs = some d) :
    (∀ g ∈ d.locking.gas, g.height < 2 ^ 64 ∧ g.amount < 2 ^ 256) ∧
    (∀ l ∈ d.locking.locks, l.amount < 2 ^ 256) ∧
    (∀ u ∈ d.locking.unlocks, u.amount < 2 ^ 256) ∧
    (∀ g ∈ d.locking.grants, g.amount < 2 ^ 248) ∧
    (∀ t ∈ d.locking.updateThresholds, t.threshold < 2 ^ 256) ∧
    (∀ w ∈ d.bridge.withdraws, w.amount < 2 ^ 64 ∧ w.address.length ≤ 255) := by
  obtain ⟨h1, _, _, _, _, _, _, _, h9, _, h11, h12, _, h14, _, h16⟩ := decode_length_bounds reqs d h
  exact ⟨h9, fun l hl => (h11 l hl).2.2, fun u hu => (h12 u hu).2.2.2.2, h14, fun t ht => (h16 t ht).2,
    fun w hw => ⟨(h1 w hw).2.1, (h1 w hw).2.2.2⟩⟩

/-- The bound 2^256 is SHARP and is all there is: every amount below 2^256 — in particular 2^256 − 1 — is the
    decoded amount of a gas request, of a lock and of an unlock of an accepted list.  No smaller bound can be
    assumed downstream; this is where the overflow findings F12/F13 start (sums of such amounts in 256-bit
    `math.Int`s). -/
theorem amounts_reach_every_value (a : Nat) (ha : a < 2 ^ 256) :
    (∃ reqs d, decodeRequests reqs = some d ∧ ∃ g ∈ d.locking.gas, g.amount = a) ∧
    (∃ reqs d, decodeRequests reqs = some d ∧ ∃ l ∈ d.locking.locks, l.amount = a) ∧
    (∃ reqs d, decodeRequests reqs = some d ∧ ∃ u ∈ d.locking.unlocks, u.amount = a) := by
  refine ⟨⟨_, _, decode_encode_gas [{ height := 1, amount := a }] ?_, _, List.mem_singleton.mpr rfl, rfl⟩,
    ⟨_, _, decode_encode_lock [{ validator := zeros 20, token := zeros 20, amount := a }] ?_, _,
      List.mem_singleton.mpr rfl, rfl⟩,
    ⟨_, _, decode_encode_unlock
      [{ id := 1, validator := zeros 20, recipient := zeros 20, token := zeros 20, amount := a }] ?_, _,
      List.mem_singleton.mpr rfl, rfl⟩⟩
  · intro r hr; rw [List.mem_singleton.mp hr]; exact ⟨(by decide : (1 : Nat) < 2 ^ 64), ha⟩
  · intro r hr; rw [List.mem_singleton.mp hr]; exact ⟨rfl, rfl, ha⟩
  · intro r hr; rw [List.mem_singleton.mp hr]; exact ⟨(by decide : (1 : Nat) < 2 ^ 64), rfl, rfl, rfl, ha⟩

theorem amount_max_attained :
    ∃ reqs d, decodeRequests reqs = some d ∧ ∃ g ∈ d.locking.gas, g.amount = 2 ^ 256 - 1 :=
  (amounts_reach_every_value (2 ^ 256 - 1) (by decide)).1

/-- the withdrawal address is NOT limited to 90 bytes by the decoder: 255 are accepted -/
theorem withdrawal_address_255_accepted :
    decodeRequests [encodeTyped 11 [encodeWithdrawal { id := 1, amount := 2, txPrice := 3, address := List.replicate 255 97 }]]
      = some { bridge := { withdraws := [{ id := 1, amount := 2, txPrice := 3, address := List.replicate 255 97 }] } } := by
  have hlen : (List.replicate 255 (97 : UInt8)).length = 255 := List.length_replicate
  apply decode_encode_withdrawal_partial [_]
  · intro r hr; rw [List.mem_singleton.mp hr]
    exact ⟨by decide, by decide, by decide, Nat.le_of_eq hlen⟩
  · intro r hr
    rw [List.getLast?_singleton] at hr
    rw [← Option.some.inj hr]
    intro e
    have := congrArg List.length e
    rw [hlen] at this
    exact absurd this (by decide)


/-! ## 12. Theorem 6 — concrete examples (non-vacuity) -/

/-- a gas request: height 7, amount 1000 (= 0x03e8), byte by byte -/
theorem example_gas :
    decodeRequests [[0, 7, 0, 0, 0, 0, 0, 0, 0,
        0, 0, 0, 0, 0, 0, 0, 0, 0, 0, 0, 0, 0, 0, 0, 0, 0, 0, 0, 0, 0, 0, 0, 0, 0, 0, 0, 0, 0, 0, 3, 232]]
      = some { locking := { gas := [{ height := 7, amount := 1000 }] } } := by decide

theorem example_gas_encoding :
    encodeTyped 0 [encodeGas { height := 7, amount := 1000 }]
      = [0, 7, 0, 0, 0, 0, 0, 0, 0,
        0, 0, 0, 0, 0, 0, 0, 0, 0, 0, 0, 0, 0, 0, 0, 0, 0, 0, 0, 0, 0, 0, 0, 0, 0, 0, 0, 0, 0, 0, 3, 232] := by decide

/-- a withdrawal (id 1, amount 2, tx price 3) to the address "x" -/
theorem example_withdrawal :
    decodeRequests [[11, 1, 0, 0, 0, 0, 0, 0, 0, 2, 0, 0, 0, 0, 0, 0, 0, 3, 0, 0, 0, 0, 0, 0, 0, 1, 120]]
      = some { bridge := { withdraws := [{ id := 1, amount := 2, txPrice := 3, address := [120] }] } } := by decide

/-- the same bytes without the address byte: the length prefix announces one byte, none is left: rejected -/
theorem example_withdrawal_address_missing :
    decodeRequests [[11, 1, 0, 0, 0, 0, 0, 0, 0, 2, 0, 0, 0, 0, 0, 0, 0, 3, 0, 0, 0, 0, 0, 0, 0, 1]] = none := by decide

/-- the length prefix announces three bytes, one is there: accepted, address 78 00 00 -/
theorem example_withdrawal_address_padded :
    decodeRequests [[11, 1, 0, 0, 0, 0, 0, 0, 0, 2, 0, 0, 0, 0, 0, 0, 0, 3, 0, 0, 0, 0, 0, 0, 0, 3, 120]]
      = some { bridge := { withdraws := [{ id := 1, amount := 2, txPrice := 3, address := [120, 0, 0] }] } } := by decide

/-- two items of the same type with another one in between: the records are appended in the order of the items -/
theorem example_two_items_same_type :
    decodeRequests [[13, 1, 0, 0, 0, 0, 0, 0, 0], [15, 9, 0, 0, 0, 0, 0, 0, 0],
        [13, 2, 0, 0, 0, 0, 0, 0, 0, 3, 0, 0, 0, 0, 0, 0, 0]]
      = some { bridge := { cancel1s := [{ id := 1 }, { id := 2 }, { id := 3 }], confirmation := [{ number := 9 }] } } := by
  decide

/-- damaged lists -/
theorem example_damaged_unknown_type : decodeRequests [[13, 1, 0, 0, 0, 0, 0, 0, 0], [9, 1, 2]] = none := by decide
theorem example_damaged_empty_item : decodeRequests [[13, 1, 0, 0, 0, 0, 0, 0, 0], []] = none := by decide
theorem example_damaged_type_17 : decodeRequests [[17]] = none := by decide
theorem example_type_byte_only : decodeRequests [[0], [11], [21]] = some Decoded.empty := by decide
theorem example_empty_list : decodeRequests [] = some Decoded.empty := by decide

/-- a grant of 2^256 − 1 (32 bytes ff) is decoded as 2^248 − 1 -/
theorem example_grant_top_byte_dropped :
    decodeRequests [encodeTyped 5 [encodeGrant { amount := 2 ^ 256 - 1 }]]
      = some { locking := { grants := [{ amount := 2 ^ 248 - 1 }] } } := by decide

/-- a validator key: the compressed form is 02/03 by the parity of the last byte, followed by x -/
theorem example_compress :
    compressPubkey (List.replicate 32 7 ++ List.replicate 31 0 ++ [5]) = 3 :: List.replicate 32 7 ∧
    compressPubkey (List.replicate 32 7 ++ List.replicate 31 0 ++ [4]) = 2 :: List.replicate 32 7 := by decide

/-! the rendering, on lines of the real decoder's trace (`kdrive -stream reqdecode -seed 7`) -/

#guard execRaw "-" ==
  "ok gasheights=- withdraws=- rbf=- cancel=- tax=- conf=- min=- adds=- removes=- gas=- grants=- weights=- thresholds=- creates=- locks=- unlocks=- claims=-"
#guard execRaw "1020ce0600000000000000000001000000" ==
  "ok gasheights=- withdraws=- rbf=- cancel=- tax=- conf=- min=445984,4294967296 adds=- removes=- gas=- grants=- weights=- thresholds=- creates=- locks=- unlocks=- claims=-"
#guard execRaw "065facb806ae28aa7c73b0a2c9856d6c335a4758d2ff00000000000000" ==
  "ok gasheights=- withdraws=- rbf=- cancel=- tax=- conf=- min=- adds=- removes=- gas=- grants=- weights=5facb806ae28aa7c73b0a2c9856d6c335a4758d2|255 thresholds=- creates=- locks=- unlocks=- claims=-"
#guard execRaw "0d0000000000000080,e" == "err"
#guard execRaw "0b0100000000000000020000000000000003000000000000000178,00070000000000000000000000000000000000000000000000000000000000000000000000000003e8" ==
  "ok gasheights=7 withdraws=1|2|3|78 rbf=- cancel=- tax=- conf=- min=- adds=- removes=- gas=1000 grants=- weights=- thresholds=- creates=- locks=- unlocks=- claims=-"
#guard execRaw "0b01000000000000000200000000000000030000000000000000040000000000000005000000000000000600000000000000017a" ==
  "ok gasheights=- withdraws=1|2|3|-,4|5|6|7a rbf=- cancel=- tax=- conf=- min=- adds=- removes=- gas=- grants=- weights=- thresholds=- creates=- locks=- unlocks=- claims=-"

end Goat.C19R

/-
  ## Summary — every theorem with its reading

  Bytes and the read loop (lemmas)
  * `leToNat_leBytes`, `leBytes_leToNat`, `leToNat_lt`, `beToNat_reverse`, `beToNat_beBytes`, `beToNat_lt`,
    `leToNat_le64`, `beToNat_be32`, `le64_leToNat` — little/big-endian encoders and decoders are inverse below the
    width, and decoded values are below 256^length.
  * `readPad_length` — the read buffer always has its full size (short reads are zero-padded at the end).
  * `chunks_length_of_mem`, `records_length_of_mem` — every buffer the loop hands to `Decode` has the record size.
  * `chunks_flatten`, `records_flatten`, `records_flatten_tail` — the buffers of a body made of complete records
    (plus a short tail): the records, plus the tail padded with zeros.
  * `records_map_enc` — decoding the concatenated encodings of records of one type gives the records.

  Theorem 1
  * `decode_none_iff` — the decoder rejects a list iff it has more than 255 items or contains a rejected item;
    `ItemRejected`: the item is empty, or its type byte is not one of the sixteen known ones, or it is a withdrawal
    item (type 11) whose body is some complete well-formed records followed by 1 to 25 left-over bytes
    (`decWithdrawals_none_iff`, `decodeItem_none_iff`, `decodeItems_none_iff`).  Items of the fifteen fixed-size
    types are never rejected, whatever their body.
  * `decode_total` — on every input: either rejected (and then for one of those reasons) or accepted (and then
    none of them applies).
  * `kindOf_eq_some_iff`, `kindOf_eq_none_iff`, `unknown_types` — the type-byte table; the unknown bytes are
    exactly 8–10, 17–19 and 22–255.

  Theorem 2
  * `decGas_encodeGas` … `decRemoveVoter_encodeRemoveVoter` — one well-formed record: decode ∘ encode = id.
  * `decode_encode_gas`, `_create`, `_lock`, `_unlock`, `_claim`, `_weight`, `_threshold`, `_rbf`, `_cancel1`,
    `_tax`, `_conf`, `_min`, `_addVoter`, `_removeVoter` — one typed item holding any list of well-formed records of
    that type decodes to exactly that list, in order (full strength).
  * `decode_encode_grant_partial` — the same for grants below 2^248 only;
    `decode_encode_grant_mod` — what really comes back: the amounts modulo 2^248 (`GrantRequest.Decode` reads
    `input[1:]`); `decode_encode_grant_false` — the full-strength statement (amounts < 2^256) is false: 2^255 ↦ 0.
  * `decode_encode_withdrawal_partial` — the same for withdrawals (address ≤ 255 bytes) provided the LAST record of
    the item has a non-empty address; `decode_encode_withdrawal_false` — without the proviso it is false: the
    encoding of one withdrawal to the empty address is rejected (`withdrawal_empty_address_last_rejected` in
    general; `withdrawal_empty_address_inside_accepted`: not in last position it is fine).
  * `decode_encode` — the whole list: at most 255 well-formed groups of any types in any order (several of the same
    type allowed) decode to `collect gs`: every field is the concatenation, in item order, of the groups of its
    type.  `decode_encode_single`, `decodeItem_group`, `decodeItems_groups` — the steps.

  Theorem 3
  * `truncated_final_record` — fixed-size types: an item whose final record is cut short is accepted and decodes
    exactly like the item with that record zero-padded at the end (`records_truncated_eq`); examples by `decide`:
    `truncated_final_record_example` (cancel1 of 3 bytes ↦ id 197121), `_example_gas` (a one-byte amount 01 ↦
    2^248), `_example_two`.
  * `truncated_withdrawal_header_rejected` — a withdrawal cut at or before the end of its 25-byte header: rejected.
  * `truncated_withdrawal_address_padded` — cut inside the address (≥ 1 address byte left): accepted, address
    zero-padded to the announced length.

  Theorem 4
  * `decode_length_bounds` — every decoded record is `WF`: uint64 fields < 2^64, amounts < 2^256 (grants < 2^248),
    addresses 20 bytes, validator keys 64, voter key hashes 32, withdrawal address ≤ 255 bytes
    (`decodeItem_wf`, `decodeItems_wf`, `decWithdrawals_wf`, `dec…_wf`); `decode_amount_bounds` — the amounts.
  * `amounts_reach_every_value`, `amount_max_attained` — every value below 2^256, in particular 2^256 − 1, is the
    decoded amount of a gas request / lock / unlock of an accepted list: downstream sums can overflow 256 bits
    (findings F12/F13 start here).
  * `withdrawal_address_255_accepted` — the decoder does not apply the 90-byte limit of the event unpacker.

  Theorem 5
  * `unknown_type_rejected`, `empty_item_rejected`, `too_many_items_rejected` — as named (any position in the list,
    whatever else it contains); `max_items_accepted` — 255 items are accepted; `type_byte_only_accepted` — an item
    that is only a known type byte is accepted and adds nothing.

  Theorem 6 — `example_…` (by `decide`) and the `#guard`s on `execRaw` (rendering, on lines of the real trace).

  Modelled: `DecodeRequests` and every `DecodeReader`/`Decode`/`Encode` it uses, `bytes.Reader.Read` semantics
  (short read without error, `io.EOF` on an exhausted reader even for an empty buffer), `big.Int.SetBytes`,
  `binary.LittleEndian`, `common.BytesToAddress/BytesToHash` on exact-size input, `CompressP256k1Pubkey`, the harness's
  trace rendering.  Left out: the error TEXTS (only error / no error), the partial results returned next to an
  error (callers drop them), `FillBytes` panicking on amounts ≥ 2^256 (the encoders are only used below the bound),
  the `Unpack…` event decoders and the 90-byte / dust checks they apply on the execution-layer side (not part of
  the consensus-side decoder), and the semantic checks the modules apply afterwards.
-/
