/-
  C04 — Merkle inclusion proofs are sound and position-binding.
  Property statements only; helper lemmas are in GoatProofs/Lemmas/Merkle.lean.
-/
import GoatModel.Merkle
import GoatProofs.Lemmas.Merkle
namespace Goat.C04
open Goat.Merkle

/-- **C04, first sentence, verbatim**: verification accepts (leaf, position, path, root) exactly
    when the sizes are well-formed, hashing the leaf up the path (left/right chosen from the bits of
    the position) reproduces the root, and the position is smaller than 2^(path length).
    For every hash function `H`. -/
theorem C04_exact (H : Bytes → Bytes) (txid root proof : Bytes) (index : Nat) :
    verify H txid root proof index = true ↔
      txid.length = 32 ∧ root.length = 32 ∧ proof.length % 32 = 0 ∧
      index < 2 ^ (proof.length / 32) ∧
      foldUp H txid (chunks proof) index = root := by
  unfold verify indexAfter
  by_cases h1 : txid.length = 32 <;> by_cases h2 : root.length = 32 <;>
    by_cases h3 : proof.length % 32 = 0 <;> simp [h1, h2, h3]
  rw [chunks_length proof h3]
  have hpos : 0 < 2 ^ (proof.length / 32) := Nat.two_pow_pos _
  intro _; exact Iff.rfl

/-- Malformed inputs (wrong hash sizes, ragged paths) are rejected. -/
theorem C04_malformed_rejected (H : Bytes → Bytes) (txid root proof : Bytes) (index : Nat)
    (h : txid.length ≠ 32 ∨ root.length ≠ 32 ∨ proof.length % 32 ≠ 0) :
    verify H txid root proof index = false := by
  unfold verify; simp [h]

/-- Out-of-range (aliased) positions are rejected whatever the path hashes to. -/
theorem C04_alias_rejected (H : Bytes → Bytes) (txid root proof : Bytes) (index : Nat)
    (h : 2 ^ (proof.length / 32) ≤ index) : verify H txid root proof index = false := by
  cases hv : verify H txid root proof index with
  | false => rfl
  | true => have := (C04_exact H txid root proof index).mp hv; omega

/-! ### Position binding ("hence a leaf can be proven only at a position it really occupies") -/

/-- A perfect binary hash tree over 32-byte leaves. -/
inductive Tree where
  | leaf : Bytes → Tree
  | node : Tree → Tree → Tree

def Tree.depth : Tree → Nat
  | .leaf _ => 0
  | .node l _ => l.depth + 1

/-- perfect: both subtrees have the same depth; every leaf is 32 bytes -/
def Tree.Perfect : Tree → Prop
  | .leaf b => b.length = 32
  | .node l r => l.Perfect ∧ r.Perfect ∧ l.depth = r.depth

def Tree.root (H : Bytes → Bytes) : Tree → Bytes
  | .leaf b => b
  | .node l r => H (l.root H ++ r.root H)

/-- the leaf at position `i` (bit `depth-1` of `i` selects the top-level subtree) -/
def Tree.leafAt : Tree → Nat → Bytes
  | .leaf b, _ => b
  | .node l r, i => if i / 2 ^ l.depth % 2 = 0 then l.leafAt (i % 2 ^ l.depth) else r.leafAt (i % 2 ^ l.depth)

/-- An explicit collision of `H` on 64-byte inputs: two different concatenations of two 32-byte nodes with the same hash.
    Every real hash function with 32-byte outputs *has* such pairs (there are 256^64 inputs and 256^32 outputs); collision
    resistance means nobody can exhibit one.  The theorems below therefore never assume that there is none — an assumption
    no function satisfies, under which anything would follow — they *return* the pair. -/
def Collision64 (H : Bytes → Bytes) : Prop :=
  ∃ a b : Bytes, a.length = 64 ∧ b.length = 64 ∧ a ≠ b ∧ H a = H b

/-- the only assumption on the hash: its outputs are 32 bytes (true of double SHA-256) -/
def Out32 (H : Bytes → Bytes) : Prop := ∀ b, (H b).length = 32

/-- The former idealisation (outputs 32 bytes **and** injective on 64-byte inputs), kept only to state the corollaries in
    their familiar form; see `Collision64` for why the main theorems do not use it. -/
structure IdealHash (H : Bytes → Bytes) : Prop where
  out32 : ∀ b, (H b).length = 32
  inj64 : ∀ a b : Bytes, a.length = 64 → b.length = 64 → H a = H b → a = b

theorem IdealHash.no_collision {H} (hH : IdealHash H) : ¬ Collision64 H := by
  rintro ⟨a, b, ha, hb, hne, h⟩; exact hne (hH.inj64 a b ha hb h)

theorem Tree.root_len {H} (hH : Out32 H) (t : Tree) (hp : t.Perfect) : (t.root H).length = 32 := by
  cases t with
  | leaf b => exact hp
  | node l r => exact hH _

theorem foldUp_len {H} (hH : Out32 H) (cur : Bytes) (path : List Bytes) (i : Nat)
    (hc : cur.length = 32) : (foldUp H cur path i).length = 32 := by
  induction path generalizing cur i with
  | nil => simpa [foldUp]
  | cons p ps ih => simp only [foldUp]; apply ih; unfold stepNode; split <;> exact hH _

/-- **Position binding.**  If a 32-byte leaf hashes up a well-formed path of the tree's depth to the tree's root at
    position `i < 2^depth`, then the leaf *is* the tree's leaf at position `i` — or the run exhibits a collision of the
    hash on two 64-byte inputs.  No assumption on `H` beyond the size of its outputs. -/
theorem C04_position_binding {H} (hH : Out32 H) (t : Tree) (hp : t.Perfect)
    (leaf : Bytes) (path : List Bytes) (i : Nat)
    (hl : leaf.length = 32) (hpath : ∀ c ∈ path, c.length = 32)
    (hd : path.length = t.depth) (hi : i < 2 ^ t.depth)
    (hroot : foldUp H leaf path i = t.root H) : leaf = t.leafAt i ∨ Collision64 H := by
  induction t generalizing path i with
  | leaf b =>
    simp [Tree.depth] at hd
    subst hd
    left
    simpa [foldUp, Tree.root, Tree.leafAt] using hroot
  | node l r ihl ihr =>
    obtain ⟨hpl, hpr, hdep⟩ := hp
    -- split the path into its lower part and the top sibling
    have hne : path ≠ [] := by intro h; subst h; simp [Tree.depth] at hd
    obtain ⟨init, last, rfl⟩ : ∃ init last, path = init ++ [last] :=
      ⟨path.dropLast, path.getLast hne, (List.dropLast_concat_getLast hne).symm⟩
    have hlen : init.length = l.depth := by simp [Tree.depth] at hd; exact hd
    have hinit : ∀ c ∈ init, c.length = 32 := fun c hc => hpath c (by simp [hc])
    have hlast : last.length = 32 := hpath last (by simp)
    rw [foldUp_append, hlen] at hroot
    have hsub := foldUp_len hH leaf init i hl
    have hlr := Tree.root_len hH l hpl
    have hrr := Tree.root_len hH r hpr
    simp only [Tree.depth, Nat.pow_succ] at hi
    have hlt : i % 2 ^ l.depth < 2 ^ l.depth := Nat.mod_lt _ (Nat.two_pow_pos _)
    have hfold : foldUp H leaf init i = foldUp H leaf init (i % 2 ^ l.depth) := by
      rw [← hlen]; exact foldUp_mod H leaf init i
    unfold stepNode at hroot
    simp only [Tree.root] at hroot
    simp only [Tree.leafAt]
    split at hroot
    · rename_i hbit
      by_cases heq : foldUp H leaf init i ++ last = l.root H ++ r.root H
      · have h1 := List.append_inj_left heq (by rw [hsub, hlr])
        rw [if_pos hbit]
        rw [hfold] at h1
        exact ihl hpl init (i % 2 ^ l.depth) hinit hlen hlt h1
      · exact Or.inr ⟨_, _, by simp [hsub, hlast], by simp [hlr, hrr], heq, hroot⟩
    · rename_i hbit
      by_cases heq : last ++ foldUp H leaf init i = l.root H ++ r.root H
      · have h1 := List.append_inj_right heq (by rw [hlast, hlr])
        rw [if_neg hbit]
        rw [hfold] at h1
        exact ihr hpr init (i % 2 ^ l.depth) hinit (by omega) (by rw [← hdep]; exact hlt) h1
      · exact Or.inr ⟨_, _, by simp [hsub, hlast], by simp [hlr, hrr], heq, hroot⟩

/-- Corollary used by C03: with a proof accepted by `verify` against a block's tree, the transaction presented at
    position `i` is the tree's leaf at `i` (so the first transaction can be presented at position 0 only, and no other
    transaction there) — or a collision is exhibited. -/
theorem C04_accepted_is_leaf {H} (hH : Out32 H) (t : Tree) (hp : t.Perfect)
    (txid proof : Bytes) (i : Nat) (hdepth : proof.length / 32 = t.depth)
    (hacc : verify H txid (t.root H) proof i = true) : txid = t.leafAt i ∨ Collision64 H := by
  obtain ⟨h1, _, h3, h4, h5⟩ := (C04_exact H txid (t.root H) proof i).mp hacc
  exact C04_position_binding hH t hp txid (chunks proof) i h1 (chunks_all32 proof h3)
    (by rw [chunks_length proof h3, hdepth]) (by rw [← hdepth]; exact h4) h5

/-- **Two presentations of one position agree**: whatever is accepted at position `i` of the same tree is the same
    leaf (or a collision is exhibited) — the tree need not be known to the verifier. -/
theorem C04_same_position_same_leaf {H} (hH : Out32 H) (t : Tree) (hp : t.Perfect)
    (tx1 tx2 pr1 pr2 : Bytes) (i : Nat) (hd1 : pr1.length / 32 = t.depth) (hd2 : pr2.length / 32 = t.depth)
    (h1 : verify H tx1 (t.root H) pr1 i = true) (h2 : verify H tx2 (t.root H) pr2 i = true) :
    tx1 = tx2 ∨ Collision64 H := by
  rcases C04_accepted_is_leaf hH t hp tx1 pr1 i hd1 h1 with e1 | c
  · rcases C04_accepted_is_leaf hH t hp tx2 pr2 i hd2 h2 with e2 | c
    · exact Or.inl (e1.trans e2.symm)
    · exact Or.inr c
  · exact Or.inr c

/-- the familiar form, under the idealisation -/
theorem C04_position_binding_ideal {H} (hH : IdealHash H) (t : Tree) (hp : t.Perfect)
    (leaf : Bytes) (path : List Bytes) (i : Nat)
    (hl : leaf.length = 32) (hpath : ∀ c ∈ path, c.length = 32)
    (hd : path.length = t.depth) (hi : i < 2 ^ t.depth)
    (hroot : foldUp H leaf path i = t.root H) : leaf = t.leafAt i :=
  (C04_position_binding hH.out32 t hp leaf path i hl hpath hd hi hroot).resolve_right hH.no_collision

/-- non-vacuity: a genuine two-leaf tree, its genuine proof for position 1, with a hash of 32-byte outputs -/
example : let H : Bytes → Bytes := fun b => (b.take 16 ++ b.drop 48 ++ List.replicate 32 0).take 32
    let t := Tree.node (.leaf (List.replicate 32 1)) (.leaf (List.replicate 32 2))
    Out32 H ∧ t.Perfect ∧ verify H (List.replicate 32 2) (t.root H) (List.replicate 32 1) 1 = true ∧
      t.leafAt 1 = List.replicate 32 2 := by
  refine ⟨?_, ⟨by simp [Tree.Perfect], by simp [Tree.Perfect], rfl⟩, by decide, by decide⟩
  intro b
  simp only [List.length_take, List.length_append, List.length_drop, List.length_replicate]
  omega

/-! ### The unrepaired function (pinned commit) violates the range clause — finding F2 -/

/-- Witness: with the identity-like hash `H x = x.take 32`, leaf at position 0 with a one-node
    path is accepted under the aliased position 2 by the *unchecked* function. -/
theorem F2_unchecked_accepts_alias :
    ∃ (H : Bytes → Bytes) (txid root proof : Bytes) (index : Nat),
      verifyUnchecked H txid root proof index = true ∧ ¬ index < 2 ^ (proof.length / 32) := by
  refine ⟨fun b => b.take 32, List.replicate 32 1, List.replicate 32 1, List.replicate 32 2, 2, ?_, ?_⟩
  · decide
  · decide

/-! ### Non-vacuity -/

example : verify (fun b => b.take 32) (List.replicate 32 1) (List.replicate 32 1) (List.replicate 32 2) 0 = true := by
  decide
example : verify (fun b => b.take 32) (List.replicate 32 1) (List.replicate 32 1) (List.replicate 32 2) 2 = false := by
  decide

end Goat.C04
