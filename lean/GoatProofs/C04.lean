/-
  C04 — Merkle inclusion proofs are sound and position-binding.
  Property statements only; helper lemmas are in GoatProofs/Lemmas/Merkle.lean.
-/
import GoatModel.Merkle
import GoatProofs.Lemmas.Merkle
namespace Goat.C04
open Goat.Merkle

/-- **C04, first sentence, verbatim**: verification accepts (leaf, position, path, root) exactly
    when the sizes are well-formed, hashing the leaf up the path (left/right chosen from the bits of
    the position) reproduces the root, and the position is smaller than 2^(path length).
    For every hash function `H`. -/
theorem C04_exact (H : Bytes → Bytes) (txid root proof : Bytes) (index : Nat) :
    verify H txid root proof index = true ↔
      txid.length = 32 ∧ root.length = 32 ∧ proof.length % 32 = 0 ∧
      index < 2 ^ (proof.length / 32) ∧
      foldUp H txid (chunks proof) index = root := by
  unfold verify indexAfter
  by_cases h1 : txid.length = 32 <;> by_cases h2 : root.length = 32 <;>
    by_cases h3 : proof.length % 32 = 0 <;> simp [h1, h2, h3]
  rw [chunks_length proof h3]
  have hpos : 0 < 2 ^ (proof.length / 32) := Nat.two_pow_pos _
  intro _; exact Iff.rfl

/-- Malformed inputs (wrong hash sizes, ragged paths) are rejected. -/
theorem C04_malformed_rejected (H : Bytes → Bytes) (txid root proof : Bytes) (index : Nat)
    (h : txid.length ≠ 32 ∨ root.length ≠ 32 ∨ proof.length % 32 ≠ 0) :
    verify H txid root proof index = false := by
  unfold verify; simp [h]

/-- Out-of-range (aliased) positions are rejected whatever the path hashes to. -/
theorem C04_alias_rejected (H : Bytes → Bytes) (txid root proof : Bytes) (index : Nat)
    (h : 2 ^ (proof.length / 32) ≤ index) : verify H txid root proof index = false := by
  cases hv : verify H txid root proof index with
  | false => rfl
  | true => have := (C04_exact H txid root proof index).mp hv; omega

/-! ### Position binding ("hence a leaf can be proven only at a position it really occupies") -/

/-- A perfect binary hash tree over 32-byte leaves. -/
inductive Tree where
  | leaf : Bytes → Tree
  | node : Tree → Tree → Tree

def Tree.depth : Tree → Nat
  | .leaf _ => 0
  | .node l _ => l.depth + 1

/-- perfect: both subtrees have the same depth; every leaf is 32 bytes -/
def Tree.Perfect : Tree → Prop
  | .leaf b => b.length = 32
  | .node l r => l.Perfect ∧ r.Perfect ∧ l.depth = r.depth

def Tree.root (H : Bytes → Bytes) : Tree → Bytes
  | .leaf b => b
  | .node l r => H (l.root H ++ r.root H)

/-- the leaf at position `i` (bit `depth-1` of `i` selects the top-level subtree) -/
def Tree.leafAt : Tree → Nat → Bytes
  | .leaf b, _ => b
  | .node l r, i => if i / 2 ^ l.depth % 2 = 0 then l.leafAt (i % 2 ^ l.depth) else r.leafAt (i % 2 ^ l.depth)

/-- A collision of `H` on 64-byte inputs: two different concatenations of two 32-byte nodes with the same hash.
    Every function with 32-byte outputs *has* such pairs (256^64 inputs, 256^32 outputs: `C04I.collision64_exists`), so
    neither "there is no collision" (unsatisfiable: a theorem assuming it says nothing) nor "… or some collision exists"
    (always true: a theorem concluding it says nothing) can carry the property.  What can: the collision is **one of the
    finitely many pairs the run itself computed** — `RunCollision` below. -/
def Collision64 (H : Bytes → Bytes) : Prop :=
  ∃ a b : Bytes, a.length = 64 ∧ b.length = 64 ∧ a ≠ b ∧ H a = H b

/-- the 64-byte strings hashed while folding `cur` up `path` at index `i` (what the verifier feeds to `H`) -/
def foldInputs (H : Bytes → Bytes) : Bytes → List Bytes → Nat → List Bytes
  | _, [], _ => []
  | cur, next :: rest, index =>
    (if index % 2 = 0 then cur ++ next else next ++ cur) :: foldInputs H (stepNode H cur next index) rest (index / 2)

/-- the 64-byte strings hashed when the tree's root was computed (what the block's producer fed to `H`) -/
def Tree.inputs (H : Bytes → Bytes) : Tree → List Bytes
  | .leaf _ => []
  | .node l r => (l.root H ++ r.root H) :: (l.inputs H ++ r.inputs H)

/-- **a collision found by the run**: one of the strings the verifier hashed and one of the strings the tree's producer
    hashed are different 64-byte strings with the same hash.  Both lists are computable from the presented proof and the
    block, so whoever gets a wrong leaf accepted has *exhibited* a double-SHA-256 collision. -/
def RunCollision (H : Bytes → Bytes) (leaf : Bytes) (path : List Bytes) (i : Nat) (t : Tree) : Prop :=
  ∃ a ∈ foldInputs H leaf path i, ∃ b ∈ t.inputs H, a.length = 64 ∧ b.length = 64 ∧ a ≠ b ∧ H a = H b

theorem RunCollision.collision64 {H leaf path i t} (h : RunCollision H leaf path i t) : Collision64 H := by
  obtain ⟨a, _, b, _, ha, hb, hne, he⟩ := h; exact ⟨a, b, ha, hb, hne, he⟩

/-- the only assumption on the hash: its outputs are 32 bytes (true of double SHA-256) -/
def Out32 (H : Bytes → Bytes) : Prop := ∀ b, (H b).length = 32

/-- The former idealisation (outputs 32 bytes **and** injective on 64-byte inputs), kept only to state the corollary in
    its familiar form; it is met by no function (`C04I.idealHash_unsatisfiable`). -/
structure IdealHash (H : Bytes → Bytes) : Prop where
  out32 : ∀ b, (H b).length = 32
  inj64 : ∀ a b : Bytes, a.length = 64 → b.length = 64 → H a = H b → a = b

theorem IdealHash.no_collision {H} (hH : IdealHash H) : ¬ Collision64 H := by
  rintro ⟨a, b, ha, hb, hne, h⟩; exact hne (hH.inj64 a b ha hb h)

theorem Tree.root_len {H} (hH : Out32 H) (t : Tree) (hp : t.Perfect) : (t.root H).length = 32 := by
  cases t with
  | leaf b => exact hp
  | node l r => exact hH _

theorem foldUp_len {H} (hH : Out32 H) (cur : Bytes) (path : List Bytes) (i : Nat)
    (hc : cur.length = 32) : (foldUp H cur path i).length = 32 := by
  induction path generalizing cur i with
  | nil => simpa [foldUp]
  | cons p ps ih => simp only [foldUp]; apply ih; unfold stepNode; split <;> exact hH _

theorem foldInputs_append (H : Bytes → Bytes) (cur : Bytes) (path : List Bytes) (x : Bytes) (idx : Nat) :
    foldInputs H cur (path ++ [x]) idx = foldInputs H cur path idx ++
      [if (idx / 2 ^ path.length) % 2 = 0 then foldUp H cur path idx ++ x else x ++ foldUp H cur path idx] := by
  induction path generalizing cur idx with
  | nil => simp [foldInputs, foldUp]
  | cons p ps ih =>
    simp only [List.cons_append, foldInputs, foldUp, List.length_cons]
    rw [ih]
    have : idx / 2 / 2 ^ ps.length = idx / 2 ^ (ps.length + 1) := by
      rw [Nat.div_div_eq_div_mul, Nat.pow_succ, Nat.mul_comm]
    rw [this]

theorem foldInputs_mod (H : Bytes → Bytes) (cur : Bytes) (path : List Bytes) (i : Nat) :
    foldInputs H cur path i = foldInputs H cur path (i % 2 ^ path.length) := by
  induction path generalizing cur i with
  | nil => simp [foldInputs]
  | cons p ps ih =>
    simp only [foldInputs, List.length_cons]
    have h1 : (i % 2 ^ (ps.length + 1)) % 2 = i % 2 := by
      rw [Nat.pow_succ, Nat.mul_comm]; exact Nat.mod_mul_right_mod i 2 (2 ^ ps.length)
    have h2 : (i % 2 ^ (ps.length + 1)) / 2 = (i / 2) % 2 ^ ps.length := by
      rw [Nat.pow_succ, Nat.mul_comm, Nat.mod_mul_right_div_self]
    unfold stepNode
    simp only [h1, h2]
    congr 1
    split <;> exact ih _ _

/-- **Position binding.**  If a 32-byte leaf hashes up a well-formed path of the tree's depth to the tree's root at
    position `i < 2^depth`, then the leaf *is* the tree's leaf at position `i` — or the verifier's own hash inputs and the
    tree's hash inputs contain a collision (`RunCollision`).  No assumption on `H` beyond the size of its outputs. -/
theorem C04_position_binding {H} (hH : Out32 H) (t : Tree) (hp : t.Perfect)
    (leaf : Bytes) (path : List Bytes) (i : Nat)
    (hl : leaf.length = 32) (hpath : ∀ c ∈ path, c.length = 32)
    (hd : path.length = t.depth) (hi : i < 2 ^ t.depth)
    (hroot : foldUp H leaf path i = t.root H) : leaf = t.leafAt i ∨ RunCollision H leaf path i t := by
  induction t generalizing path i with
  | leaf b =>
    simp [Tree.depth] at hd
    subst hd
    left
    simpa [foldUp, Tree.root, Tree.leafAt] using hroot
  | node l r ihl ihr =>
    obtain ⟨hpl, hpr, hdep⟩ := hp
    -- split the path into its lower part and the top sibling
    have hne : path ≠ [] := by intro h; subst h; simp [Tree.depth] at hd
    obtain ⟨init, last, rfl⟩ : ∃ init last, path = init ++ [last] :=
      ⟨path.dropLast, path.getLast hne, (List.dropLast_concat_getLast hne).symm⟩
    have hlen : init.length = l.depth := by simp [Tree.depth] at hd; exact hd
    have hinit : ∀ c ∈ init, c.length = 32 := fun c hc => hpath c (by simp [hc])
    have hlast : last.length = 32 := hpath last (by simp)
    rw [foldUp_append, hlen] at hroot
    have hsub := foldUp_len hH leaf init i hl
    have hlr := Tree.root_len hH l hpl
    have hrr := Tree.root_len hH r hpr
    simp only [Tree.depth, Nat.pow_succ] at hi
    have hlt : i % 2 ^ l.depth < 2 ^ l.depth := Nat.mod_lt _ (Nat.two_pow_pos _)
    have hfold : foldUp H leaf init i = foldUp H leaf init (i % 2 ^ l.depth) := by
      rw [← hlen]; exact foldUp_mod H leaf init i
    have hins : foldInputs H leaf init (i % 2 ^ l.depth) = foldInputs H leaf init i := by
      rw [← hlen]; exact (foldInputs_mod H leaf init i).symm
    -- a collision found below is a collision of the whole run
    have lift : ∀ s : Tree, (∀ b ∈ s.inputs H, b ∈ (Tree.node l r).inputs H) →
        RunCollision H leaf init (i % 2 ^ l.depth) s → RunCollision H leaf (init ++ [last]) i (Tree.node l r) := by
      intro s hs ⟨a, ha, b, hb, h1, h2, h3, h4⟩
      refine ⟨a, ?_, b, hs b hb, h1, h2, h3, h4⟩
      rw [foldInputs_append]; rw [hins] at ha; simp [ha]
    have top : ∀ a : Bytes, a ∈ foldInputs H leaf (init ++ [last]) i → a.length = 64 → a ≠ l.root H ++ r.root H →
        H a = H (l.root H ++ r.root H) → RunCollision H leaf (init ++ [last]) i (Tree.node l r) := by
      intro a ha hlen64 hne' he
      exact ⟨a, ha, l.root H ++ r.root H, by simp [Tree.inputs], hlen64, by simp [hlr, hrr], hne', he⟩
    unfold stepNode at hroot
    simp only [Tree.root] at hroot
    simp only [Tree.leafAt]
    split at hroot
    · rename_i hbit
      by_cases heq : foldUp H leaf init i ++ last = l.root H ++ r.root H
      · have h1 := List.append_inj_left heq (by rw [hsub, hlr])
        rw [if_pos hbit]
        rw [hfold] at h1
        rcases ihl hpl init (i % 2 ^ l.depth) hinit hlen hlt h1 with e | c
        · exact Or.inl e
        · exact Or.inr (lift l (fun b hb => by simp [Tree.inputs, hb]) c)
      · refine Or.inr (top _ ?_ (by simp [hsub, hlast]) heq hroot)
        rw [foldInputs_append, hlen, if_pos hbit]; simp
    · rename_i hbit
      by_cases heq : last ++ foldUp H leaf init i = l.root H ++ r.root H
      · have h1 := List.append_inj_right heq (by rw [hlast, hlr])
        rw [if_neg hbit]
        rw [hfold] at h1
        rcases ihr hpr init (i % 2 ^ l.depth) hinit (by omega) (by rw [← hdep]; exact hlt) h1 with e | c
        · exact Or.inl e
        · exact Or.inr (lift r (fun b hb => by simp [Tree.inputs, hb]) c)
      · refine Or.inr (top _ ?_ (by simp [hsub, hlast]) heq hroot)
        rw [foldInputs_append, hlen, if_neg hbit]; simp

/-- Corollary used by C03: with a proof accepted by `verify` against a block's tree, the transaction presented at
    position `i` is the tree's leaf at `i` (so the first transaction can be presented at position 0 only, and no other
    transaction there) — or the run exhibits a collision. -/
theorem C04_accepted_is_leaf {H} (hH : Out32 H) (t : Tree) (hp : t.Perfect)
    (txid proof : Bytes) (i : Nat) (hdepth : proof.length / 32 = t.depth)
    (hacc : verify H txid (t.root H) proof i = true) :
    txid = t.leafAt i ∨ RunCollision H txid (chunks proof) i t := by
  obtain ⟨h1, _, h3, h4, h5⟩ := (C04_exact H txid (t.root H) proof i).mp hacc
  exact C04_position_binding hH t hp txid (chunks proof) i h1 (chunks_all32 proof h3)
    (by rw [chunks_length proof h3, hdepth]) (by rw [← hdepth]; exact h4) h5

/-- **Two presentations of one position agree**: whatever is accepted at position `i` of the same tree is the same
    leaf, or one of the two runs exhibits a collision. -/
theorem C04_same_position_same_leaf {H} (hH : Out32 H) (t : Tree) (hp : t.Perfect)
    (tx1 tx2 pr1 pr2 : Bytes) (i : Nat) (hd1 : pr1.length / 32 = t.depth) (hd2 : pr2.length / 32 = t.depth)
    (h1 : verify H tx1 (t.root H) pr1 i = true) (h2 : verify H tx2 (t.root H) pr2 i = true) :
    tx1 = tx2 ∨ RunCollision H tx1 (chunks pr1) i t ∨ RunCollision H tx2 (chunks pr2) i t := by
  rcases C04_accepted_is_leaf hH t hp tx1 pr1 i hd1 h1 with e1 | c
  · rcases C04_accepted_is_leaf hH t hp tx2 pr2 i hd2 h2 with e2 | c
    · exact Or.inl (e1.trans e2.symm)
    · exact Or.inr (Or.inr c)
  · exact Or.inr (Or.inl c)

/-- the familiar form, under the (unsatisfiable) idealisation — kept for reference only, not a property theorem -/
theorem C04_position_binding_ideal {H} (hH : IdealHash H) (t : Tree) (hp : t.Perfect)
    (leaf : Bytes) (path : List Bytes) (i : Nat)
    (hl : leaf.length = 32) (hpath : ∀ c ∈ path, c.length = 32)
    (hd : path.length = t.depth) (hi : i < 2 ^ t.depth)
    (hroot : foldUp H leaf path i = t.root H) : leaf = t.leafAt i :=
  (C04_position_binding hH.out32 t hp leaf path i hl hpath hd hi hroot).resolve_right
    (fun c => hH.no_collision c.collision64)

/-- non-vacuity, both ways: with a toy hash of 32-byte outputs, a genuine two-leaf tree and its genuine proof for
    position 1 are accepted and there is **no** run collision (so the disjunction is decided by its first half) … -/
def toyH : Bytes → Bytes := fun b => (b.take 16 ++ b.drop 48 ++ List.replicate 32 0).take 32
def toyT : Tree := Tree.node (.leaf (List.replicate 32 1)) (.leaf (List.replicate 32 2))

example : Out32 toyH := by
  intro b
  simp only [toyH, List.length_take, List.length_append, List.length_drop, List.length_replicate]
  omega
example : toyT.Perfect := ⟨by simp [Tree.Perfect], by simp [Tree.Perfect], rfl⟩
example : verify toyH (List.replicate 32 2) (toyT.root toyH) (List.replicate 32 1) 1 = true ∧
    toyT.leafAt 1 = List.replicate 32 2 := by decide
/-- … and a wrong leaf that the toy hash lets through at position 1 comes with its collision: the verifier hashed
    `1…1 ‖ 7…7 2…2` (bytes 16–47 are ignored by the toy hash), the producer `1…1 ‖ 2…2`. -/
example : let bad := List.replicate 16 7 ++ List.replicate 16 2
    verify toyH bad (toyT.root toyH) (List.replicate 32 1) 1 = true ∧ bad ≠ toyT.leafAt 1 ∧
    (foldInputs toyH bad [List.replicate 32 1] 1).any (fun a => (toyT.inputs toyH).any (fun b => a != b && toyH a == toyH b)) = true := by
  decide

/-! ### The unrepaired function (pinned commit) violates the range clause — finding F2 -/

/-- Witness: with the identity-like hash `H x = x.take 32`, leaf at position 0 with a one-node
    path is accepted under the aliased position 2 by the *unchecked* function. -/
theorem F2_unchecked_accepts_alias :
    ∃ (H : Bytes → Bytes) (txid root proof : Bytes) (index : Nat),
      verifyUnchecked H txid root proof index = true ∧ ¬ index < 2 ^ (proof.length / 32) := by
  refine ⟨fun b => b.take 32, List.replicate 32 1, List.replicate 32 1, List.replicate 32 2, 2, ?_, ?_⟩
  · decide
  · decide

/-! ### Non-vacuity -/

example : verify (fun b => b.take 32) (List.replicate 32 1) (List.replicate 32 1) (List.replicate 32 2) 0 = true := by
  decide
example : verify (fun b => b.take 32) (List.replicate 32 1) (List.replicate 32 1) (List.replicate 32 2) 2 = false := by
  decide

end Goat.C04
