/-
  C13 — validator set is the top-K by power; every update is acceptable to CometBFT.
-/
import GoatModel.Locking
import GoatModel.Comet
namespace Goat.C13
open Goat.Locking

/-- CometBFT never accepts an update list with a duplicate, a negative or over-large power -/
theorem comet_accept_basic (s : Comet.VSet) (ups : List (Bytes × Int)) (s' : Comet.VSet)
    (h : Comet.apply s ups = .ok s') (hne : ups ≠ []) :
    Comet.hasDup (ups.map (·.1)) = false ∧ (∀ u ∈ ups, 0 ≤ u.2 ∧ u.2 ≤ (Comet.maxTotal : Int)) ∧
    (∀ u ∈ ups, u.2 = 0 → s.any (·.1 == u.1) = true) ∧ Comet.total s' ≤ Comet.maxTotal := by
  unfold Comet.apply at h
  have hne' : ups.isEmpty = false := by
    cases ups with
    | nil => exact absurd rfl hne
    | cons a as => rfl
  rw [hne'] at h
  simp only [Bool.false_eq_true, if_false] at h
  split at h; · cases h
  rename_i hd
  split at h; · cases h
  rename_i hn
  split at h; · cases h
  rename_i hh
  split at h; · cases h
  split at h; · cases h
  rename_i hr
  split at h; · cases h
  rename_i ht
  cases h
  refine ⟨by simpa using hd, ?_, ?_, by omega⟩
  · intro u hu
    simp only [List.any_eq_true, not_exists, not_and, decide_eq_true_eq] at hn hh
    have h1 := hn u hu
    have h2 := hh u hu
    omega
  · intro u hu h0
    simp only [List.any_eq_true, List.mem_filter, not_exists, not_and, Bool.not_eq_true', and_imp] at hr
    have := hr u hu (by simp [h0])
    simpa using this

/-- the int64 reinterpretation of a power below 2^63 is the power itself (no negative power reaches
    CometBFT when powers are below 2^63) -/
theorem toInt64_small (p : Nat) (h : p < two63) : Comet.toInt64 p = p := by
  unfold Comet.toInt64
  have : p % two64 = p := Nat.mod_eq_of_lt (by unfold two63 at h; unfold two64; omega)
  simp [this, h]

/-- finding F6b (recorded as a known finding): a power of 2^63 is reported to CometBFT as a negative
    number and refused -/
theorem F6b_power_2_63_refused : (Comet.apply [([1], 5)] [([2], Comet.toInt64 two63)]).toOption = none := by
  decide +kernel

end Goat.C13
