/-
  C18 — exporting the application state and initialising a fresh chain from it reproduces the same
  state (x/locking and x/relayer: the two modules that rebuild derived data on import).

  Full statement (property text): "for any reachable state: a second export is identical to the
  first, every query returns the same answers, the initial validator set equals the exported active
  set, and all derived indices and queues satisfy the same invariants the running chain maintains".

  Proved here (model: GoatModel/Genesis.lean), for every store satisfying explicit, decidable
  invariants (`WfState`, `Derived`, `RImportable`, `QueueDerived`):
    (a) `Derived`                          relation primary ↔ derived data of x/locking
    (b) `initGenesis_establishes_Derived`  import of any well-formed genesis establishes it
        `initGenesisCore_spec`             … and the imported store in closed form
    (c) `import_export`, `Reproduces.exact`, `export_import`, `derived_unique`
    (d) in `import_export`: validator updates = recorded validator set
    (e) `initRelayer_ok_iff` (exact list of what the import demands), `relayer_import_export`,
        `RReproduces.queue`, `relayer_export_import`
    executable forms: `derivedOk_iff`, `queueOk_iff`, `roundTripOk_of`
  Not proved here: that the invariants hold in every reachable state (C13/C16 territory), and the
  equality of query answers (queries are functions of the collections compared here).

  Findings (section `Finding`, proved by evaluation):
    F-A `duplicate_key_hash_blocks_import`     the consensus layer files two pending voters with the same
        vote-key hash; the import of that store's export panics ("duplicated vote key") — so the
        "for any reachable state" part is FALSE of the model unless the execution layer never repeats a
        key hash; hence the bundled theorem below is named `c18_round_trip_partial`.
    F-B `boarding_order_changes_next_proposer` the boarding queue is rebuilt in key order, the running
        chain keeps arrival order, and EndBlocker elects the proposer by position: the imported chain
        answers all queries alike, exports the same genesis, and elects a different proposer.
-/
import GoatModel.Genesis
namespace Goat.C18
open Goat.Locking Goat.Genesis

/-! ## generic list lemmas -/

theorem bytesLt_irrefl : ∀ a : Bytes, bytesLt a a = false
  | [] => rfl
  | x :: xs => by
    unfold bytesLt
    have : ¬ x < x := by exact UInt8.lt_irrefl x
    simp [this, bytesLt_irrefl xs]

theorem bytesLt_asymm : ∀ a b : Bytes, bytesLt a b = true → bytesLt b a = false
  | [], [] => by simp [bytesLt]
  | [], _ :: _ => by simp [bytesLt]
  | _ :: _, [] => by simp [bytesLt]
  | x :: xs, y :: ys => by
    intro h
    unfold bytesLt at h ⊢
    by_cases h1 : x < y
    · have h2 : ¬ y < x := by
        intro h2
        exact UInt8.lt_irrefl x (UInt8.lt_trans h1 h2)
      simp [h1, h2]
    · by_cases h2 : y < x
      · simp [h1, h2] at h
      · simp only [h1, h2, if_false] at h ⊢
        exact bytesLt_asymm xs ys h

/-- a key has at most one value in an association list with distinct keys -/
theorem assoc_unique {κ β} (l : List (κ × β)) (hn : (l.map (·.1)).Nodup) (k : κ) (v v' : β)
    (h1 : (k, v) ∈ l) (h2 : (k, v') ∈ l) : v = v' := by
  induction l with
  | nil => cases h1
  | cons e es ih =>
    simp only [List.map_cons, List.nodup_cons, List.mem_map, not_exists, not_and] at hn
    rcases List.mem_cons.1 h1 with h1 | h1 <;> rcases List.mem_cons.1 h2 with h2 | h2
    · rw [← h1] at h2; exact (Prod.mk.inj h2).2.symm ▸ rfl
    · exact absurd (by rw [← h1]) (hn.1 (k, v') h2)
    · exact absurd (by rw [← h2]) (hn.1 (k, v) h1)
    · exact ih hn.2 h1 h2

/-- two lists strictly sorted by an irreflexive, asymmetric relation with the same elements are equal -/
theorem sorted_ext {α} (R : α → α → Prop) (irr : ∀ a, ¬ R a a) (asym : ∀ a b, R a b → ¬ R b a) :
    ∀ (l1 l2 : List α), l1.Pairwise R → l2.Pairwise R → (∀ x, x ∈ l1 ↔ x ∈ l2) → l1 = l2
  | [], [], _, _, _ => rfl
  | [], b :: _, _, _, h => by have := (h b).2 (List.mem_cons_self ..); cases this
  | a :: _, [], _, _, h => by have := (h a).1 (List.mem_cons_self ..); cases this
  | a :: t1, b :: t2, h1, h2, h => by
    rw [List.pairwise_cons] at h1 h2
    have hab : a = b := by
      have ha := (h a).1 (List.mem_cons_self ..)
      have hb := (h b).2 (List.mem_cons_self ..)
      rcases List.mem_cons.1 ha with ha | ha
      · exact ha
      · rcases List.mem_cons.1 hb with hb | hb
        · exact hb.symm
        · exact absurd (h1.1 b hb) (asym _ _ (h2.1 a ha))
    subst hab
    congr 1
    apply sorted_ext R irr asym t1 t2 h1.2 h2.2
    intro x
    constructor
    · intro hx
      rcases List.mem_cons.1 ((h x).1 (List.mem_cons_of_mem _ hx)) with e | e
      · subst e; exact absurd (h1.1 x hx) (irr x)
      · exact e
    · intro hx
      rcases List.mem_cons.1 ((h x).2 (List.mem_cons_of_mem _ hx)) with e | e
      · subst e; exact absurd (h2.1 x hx) (irr x)
      · exact e

/-! ## x/locking: closed form of the import -/

/-- store keys attached to a list of genesis validators -/
def keyed (h : Bytes → Bytes) (vs : List Validator) : List (Bytes × Validator) := vs.map (fun v => (h v.pubkey, v))

def upsOf (kvs : List (Bytes × Validator)) : List Update :=
  (kvs.filter (fun e => e.2.status == .active)).map (fun e => { pubkey := e.2.pubkey, power := e.2.power })

/-- the store after the validator loop, in closed form -/
def specState (p : Params) (kvs : List (Bytes × Validator)) : State :=
  { emptyState p with validators := kvs, lockingIdx := idxOf kvs, valset := valsetOf kvs, ranking := rankOf kvs }

theorem idxOf_append (a b : List (Bytes × Validator)) : idxOf (a ++ b) = idxOf a ++ idxOf b := by
  simp [idxOf, List.flatMap_append]
theorem valsetOf_append (a b : List (Bytes × Validator)) : valsetOf (a ++ b) = valsetOf a ++ valsetOf b := by
  simp [valsetOf, List.filter_append]
theorem rankOf_append (a b : List (Bytes × Validator)) : rankOf (a ++ b) = rankOf a ++ rankOf b := by
  simp [rankOf, List.filter_append]
theorem upsOf_append (a b : List (Bytes × Validator)) : upsOf (a ++ b) = upsOf a ++ upsOf b := by
  simp [upsOf, List.filter_append]

/-- the inner loop `Locking.Set(denom, address)`, generalised: entries of `addr` already present
    carry denoms that do not occur in the coins still to be written -/
theorem idx_fold_gen (addr : Bytes) : ∀ (l : Coins) (s : State),
    (∀ e ∈ s.lockingIdx, e.1.2 = addr → e.1.1 ∉ l.map (·.1)) → (l.map (·.1)).Nodup →
    l.foldl (fun s c => idxSet s c.1 addr c.2) s =
      { s with lockingIdx := s.lockingIdx ++ l.map (fun c => ((c.1, addr), c.2)) } := by
  intro l
  induction l with
  | nil => intro s _ _; simp
  | cons c cs ih =>
    intro s hf hn
    simp only [List.map_cons, List.nodup_cons] at hn
    have hfil : s.lockingIdx.filter (fun e => !(e.1.1 == c.1 && e.1.2 == addr)) = s.lockingIdx := by
      rw [List.filter_eq_self]
      intro e he
      by_cases hea : e.1.2 = addr
      · have := hf e he hea
        simp only [List.map_cons, List.mem_cons, not_or] at this
        simp [this.1]
      · simp [hea]
    rw [List.foldl_cons, ih]
    · simp only [idxSet, hfil, List.map_cons, List.append_assoc, List.singleton_append]
    · intro e he hea
      simp only [idxSet, hfil, List.mem_append, List.mem_singleton] at he
      rcases he with he | he
      · have := hf e he hea
        simp only [List.map_cons, List.mem_cons, not_or] at this
        exact this.2
      · subst he; exact hn.1
    · exact hn.2

/-- with a fresh address and distinct denoms the inner loop appends the validator's coins -/
theorem idx_fold (addr : Bytes) (l : Coins) (s : State)
    (hf : ∀ e ∈ s.lockingIdx, e.1.2 ≠ addr) (hn : (l.map (·.1)).Nodup) :
    l.foldl (fun s c => idxSet s c.1 addr c.2) s =
      { s with lockingIdx := s.lockingIdx ++ l.map (fun c => ((c.1, addr), c.2)) } :=
  idx_fold_gen addr l s (fun e he hea => absurd hea (hf e he)) hn

theorem mem_idxOf (kvs : List (Bytes × Validator)) (d : String) (a : Bytes) (x : Int) :
    ((d, a), x) ∈ idxOf kvs ↔ ∃ v, (a, v) ∈ kvs ∧ isAP v = true ∧ (d, x) ∈ v.locking := by
  simp only [idxOf, List.mem_flatMap]
  constructor
  · rintro ⟨e, he, hx⟩
    by_cases hap : isAP e.2 = true
    · rw [if_pos hap] at hx
      simp only [List.mem_map] at hx
      obtain ⟨c, hc, hceq⟩ := hx
      simp only [Prod.mk.injEq] at hceq
      obtain ⟨⟨h1, h2⟩, h3⟩ := hceq
      refine ⟨e.2, ?_, hap, ?_⟩
      · rw [← h2]; exact he
      · rw [← h1, ← h3]; exact hc
    · rw [if_neg hap] at hx; cases hx
  · rintro ⟨v, hv, hap, hc⟩
    refine ⟨(a, v), hv, ?_⟩
    simp only [hap, if_true, List.mem_map]
    exact ⟨(d, x), hc, rfl⟩

theorem mem_valsetOf (kvs : List (Bytes × Validator)) (a : Bytes) (p : Nat) :
    (a, p) ∈ valsetOf kvs ↔ ∃ v, (a, v) ∈ kvs ∧ v.status = .active ∧ v.power = p := by
  simp only [valsetOf, List.mem_map, List.mem_filter, beq_iff_eq, Prod.mk.injEq]
  constructor
  · rintro ⟨e, ⟨he, hs⟩, h1, h2⟩
    exact ⟨e.2, by rw [← h1]; exact he, hs, h2⟩
  · rintro ⟨v, hv, hs, hp⟩
    exact ⟨(a, v), ⟨hv, hs⟩, rfl, hp⟩

theorem mem_rankOf (kvs : List (Bytes × Validator)) (p : Nat) (a : Bytes) :
    (p, a) ∈ rankOf kvs ↔ ∃ v, (a, v) ∈ kvs ∧ isAP v = true ∧ v.power = p ∧ p > 0 := by
  simp only [rankOf, List.mem_map, List.mem_filter, Bool.and_eq_true, decide_eq_true_eq, Prod.mk.injEq]
  constructor
  · rintro ⟨e, ⟨he, hs, hp⟩, h1, h2⟩
    exact ⟨e.2, by rw [← h2]; exact he, hs, h1, by rw [← h1]; exact hp⟩
  · rintro ⟨v, hv, hs, hp, hpos⟩
    exact ⟨(a, v), ⟨hv, hs, by rw [hp]; exact hpos⟩, hp, rfl⟩

theorem mem_upsOf (kvs : List (Bytes × Validator)) (u : Update) :
    u ∈ upsOf kvs ↔ ∃ a v, (a, v) ∈ kvs ∧ v.status = .active ∧ u = { pubkey := v.pubkey, power := v.power } := by
  simp only [upsOf, List.mem_map, List.mem_filter, beq_iff_eq]
  constructor
  · rintro ⟨e, ⟨he, hs⟩, h1⟩
    exact ⟨e.1, e.2, he, hs, h1.symm⟩
  · rintro ⟨a, v, hv, hs, hu⟩
    exact ⟨(a, v), ⟨hv, hs⟩, hu.symm⟩

/-- one iteration of the validator loop on the closed form (fresh address, distinct denoms) -/
theorem initValidator_step (h : Bytes → Bytes) (p : Params) (kvs : List (Bytes × Validator)) (v : Validator)
    (hfresh : h v.pubkey ∉ kvs.map (·.1)) (hn : (v.locking.map (·.1)).Nodup) :
    initValidator h (specState p kvs, upsOf kvs) v =
      (specState p (kvs ++ [(h v.pubkey, v)]), upsOf (kvs ++ [(h v.pubkey, v)])) := by
  have hf : ∀ e ∈ kvs, e.1 ≠ h v.pubkey := by
    intro e he heq
    exact hfresh (List.mem_map.2 ⟨e, he, heq⟩)
  -- Validators.Set appends
  have L1 : vset (specState p kvs) (h v.pubkey) v = { specState p kvs with validators := kvs ++ [(h v.pubkey, v)] } := by
    have : kvs.any (fun e => e.1 == h v.pubkey) = false := by
      rw [List.any_eq_false]; intro e he; simpa using hf e he
    simp [vset, specState, this]
  -- the index holds no entry of this address
  have F2 : ∀ e ∈ idxOf kvs, e.1.2 ≠ h v.pubkey := by
    intro e he heq
    obtain ⟨⟨d, a⟩, x⟩ := e
    obtain ⟨w, hw, _, _⟩ := (mem_idxOf kvs d a x).1 he
    exact hf (a, w) hw heq
  have F3 : (valsetOf kvs).filter (fun e => e.1 != h v.pubkey) = valsetOf kvs := by
    rw [List.filter_eq_self]
    intro e he
    obtain ⟨a, q⟩ := e
    obtain ⟨w, hw, _, _⟩ := (mem_valsetOf kvs a q).1 he
    simpa using hf (a, w) hw
  have F4 : ∀ q, (rankOf kvs).any (fun e => e.1 == q && e.2 == h v.pubkey) = false := by
    intro q
    rw [List.any_eq_false]
    intro e he
    obtain ⟨q', a⟩ := e
    obtain ⟨w, hw, _, _⟩ := (mem_rankOf kvs q' a).1 he
    have := hf (a, w) hw
    simp at this
    simp [this]
  have S1 : idxOf [(h v.pubkey, v)] = if isAP v = true then v.locking.map (fun c => ((c.1, h v.pubkey), c.2)) else [] := by
    simp [idxOf]
  have S2 : valsetOf [(h v.pubkey, v)] = if v.status = .active then [(h v.pubkey, v.power)] else [] := by
    by_cases hs : v.status = .active <;> simp [valsetOf, hs]
  have S3 : rankOf [(h v.pubkey, v)] = if isAP v = true ∧ v.power > 0 then [(v.power, h v.pubkey)] else [] := by
    by_cases hs : isAP v = true <;> by_cases hp : v.power > 0 <;> simp [rankOf, hs, hp]
  have S4 : upsOf [(h v.pubkey, v)] = if v.status = .active then [{ pubkey := v.pubkey, power := v.power }] else [] := by
    by_cases hs : v.status = .active <;> simp [upsOf, hs]
  unfold initValidator
  dsimp only
  rw [L1]
  simp only [specState, idxOf_append, valsetOf_append, rankOf_append, upsOf_append, S1, S2, S3, S4]
  by_cases hst : v.status ≠ .active ∧ v.status ≠ .pending
  · rw [if_pos hst]
    have hap : ¬ (isAP v = true) := by simp [isAP, hst.1, hst.2]
    simp only [hap, hst.1, Bool.false_eq_true, if_false, false_and, List.append_nil]
  · rw [if_neg hst]
    rw [idx_fold (h v.pubkey) v.locking _ (by simpa using F2) hn]
    have hap : isAP v = true := by
      simp only [isAP, Bool.or_eq_true, beq_iff_eq]
      by_cases h1 : v.status = .active
      · exact Or.inl h1
      · by_cases h2 : v.status = .pending
        · exact Or.inr h2
        · exact absurd ⟨h1, h2⟩ hst
    by_cases hact : v.status = .active <;> by_cases hpos : v.power > 0
    all_goals
      simp only [hap, hact, hpos, if_true, if_false, and_true, and_false, valsetSet, rankSet, F3, F4,
        List.append_nil, Bool.false_eq_true]

/-- the validator loop in closed form -/
theorem initValidators_spec (h : Bytes → Bytes) (p : Params) : ∀ (vs : List Validator) (kvs : List (Bytes × Validator)),
    (kvs.map (·.1) ++ vs.map (fun v => h v.pubkey)).Nodup → (∀ v ∈ vs, (v.locking.map (·.1)).Nodup) →
    vs.foldl (initValidator h) (specState p kvs, upsOf kvs) =
      (specState p (kvs ++ keyed h vs), upsOf (kvs ++ keyed h vs))
  | [], kvs, _, _ => by simp [keyed]
  | v :: vs, kvs, hn, hc => by
    have hfresh : h v.pubkey ∉ kvs.map (·.1) := by
      intro hm
      rw [List.nodup_append] at hn
      exact hn.2.2 _ hm _ (by simp) rfl
    rw [List.foldl_cons, initValidator_step h p kvs v hfresh (hc v (List.mem_cons_self ..))]
    rw [initValidators_spec h p vs (kvs ++ [(h v.pubkey, v)])]
    · simp [keyed]
    · simpa [List.append_assoc] using hn
    · intro w hw; exact hc w (List.mem_cons_of_mem _ hw)

/-! ### tokens and the threshold list -/

/-- the threshold coins accumulated by the token loop -/
def thrFold (acc : Coins) (toks : List (String × Token)) : Coins :=
  toks.foldl (fun acc t => if t.2.threshold ≠ 0 then addCoin acc t.1 t.2.threshold else acc) acc

theorem tokens_fold : ∀ (toks : List (String × Token)) (s : State) (acc : Coins),
    (s.tokens.map (·.1) ++ toks.map (·.1)).Nodup →
    toks.foldl initToken (s, acc) = ({ s with tokens := s.tokens ++ toks }, thrFold acc toks)
  | [], s, acc, _ => by simp [thrFold]
  | t :: ts, s, acc, hn => by
    have hfresh : s.tokens.any (fun e => e.1 == t.1) = false := by
      rw [List.any_eq_false]
      intro e he
      rw [List.nodup_append] at hn
      have := hn.2.2 e.1 (List.mem_map.2 ⟨e, he, rfl⟩) t.1 (by simp)
      simpa using this
    rw [List.foldl_cons]
    have : initToken (s, acc) t = ({ s with tokens := s.tokens ++ [t] },
        if t.2.threshold ≠ 0 then addCoin acc t.1 t.2.threshold else acc) := by
      simp [initToken, tset, hfresh]
    rw [this, tokens_fold ts]
    · simp [thrFold]
    · simpa [List.append_assoc] using hn

theorem ins_nil (d : String) (a : Int) : setAmount.ins d a [] = [(d, a)] := by simp [setAmount.ins]
theorem ins_cons (d : String) (a : Int) (e : String × Int) (es : Coins) :
    setAmount.ins d a (e :: es) = if d < e.1 then (d, a) :: e :: es else e :: setAmount.ins d a es := by
  simp [setAmount.ins]

theorem mem_ins (d : String) (a : Int) (x : String × Int) : ∀ l : Coins, x ∈ setAmount.ins d a l ↔ x = (d, a) ∨ x ∈ l
  | [] => by simp [ins_nil]
  | e :: es => by
    rw [ins_cons]
    by_cases hlt : d < e.1
    · rw [if_pos hlt]; simp
    · rw [if_neg hlt]
      simp only [List.mem_cons, mem_ins d a x es]
      constructor
      · rintro (h | h | h)
        · exact Or.inr (Or.inl h)
        · exact Or.inl h
        · exact Or.inr (Or.inr h)
      · rintro (h | h | h)
        · exact Or.inr (Or.inl h)
        · exact Or.inl h
        · exact Or.inr (Or.inr h)

theorem str_lt_of_not_lt_of_ne {a b : String} (h : ¬ a < b) (hne : a ≠ b) : b < a :=
  Classical.byContradiction (fun hc => hne (String.le_antisymm (String.not_lt.1 hc) (String.not_lt.1 h)))

/-- insertion of a new denom keeps the coins strictly sorted -/
theorem sorted_ins (d : String) (a : Int) : ∀ l : Coins, l.Pairwise (fun x y => x.1 < y.1) → d ∉ l.map (·.1) →
    (setAmount.ins d a l).Pairwise (fun x y => x.1 < y.1)
  | [], _, _ => by simp [ins_nil]
  | e :: es, hs, hd => by
    rw [ins_cons]
    rw [List.pairwise_cons] at hs
    simp only [List.map_cons, List.mem_cons, not_or] at hd
    by_cases hlt : d < e.1
    · rw [if_pos hlt, List.pairwise_cons]
      refine ⟨?_, List.pairwise_cons.2 hs⟩
      intro y hy
      rcases List.mem_cons.1 hy with hy | hy
      · rw [hy]; exact hlt
      · exact String.lt_trans hlt (hs.1 y hy)
    · rw [if_neg hlt, List.pairwise_cons]
      refine ⟨?_, sorted_ins d a es hs.2 hd.2⟩
      intro y hy
      rcases (mem_ins d a y es).1 hy with hy | hy
      · rw [hy]; exact str_lt_of_not_lt_of_ne hlt hd.1
      · exact hs.1 y hy

/-- `coins.Add(NewCoin(d, a))` for a denom not yet present and a ≠ 0 -/
theorem addCoin_fresh (c : Coins) (d : String) (a : Int) (hd : d ∉ c.map (·.1)) (ha : a ≠ 0) :
    addCoin c d a = setAmount.ins d a c := by
  have hfind : c.find? (fun e => e.1 == d) = none := by
    rw [List.find?_eq_none]
    intro e he heq
    exact hd (List.mem_map.2 ⟨e, he, by simpa using heq⟩)
  have hfil : c.filter (fun e => e.1 != d) = c := by
    rw [List.filter_eq_self]
    intro e he
    have : e.1 ≠ d := fun heq => hd (List.mem_map.2 ⟨e, he, heq⟩)
    simpa using this
  simp [addCoin, amountOf, setAmount, hfind, hfil, ha]

/-- the threshold loop: sortedness and content -/
theorem thrFold_spec : ∀ (toks : List (String × Token)) (acc : Coins),
    acc.Pairwise (fun x y => x.1 < y.1) → (acc.map (·.1) ++ toks.map (·.1)).Nodup →
    (thrFold acc toks).Pairwise (fun x y => x.1 < y.1) ∧
    ∀ d x, (d, x) ∈ thrFold acc toks ↔ (d, x) ∈ acc ∨ (x ≠ 0 ∧ ∃ t, (d, t) ∈ toks ∧ t.threshold = x)
  | [], acc, hs, _ => by simp [thrFold, hs]
  | t :: ts, acc, hs, hn => by
    have hfresh : t.1 ∉ acc.map (·.1) := by
      intro hm
      rw [List.nodup_append] at hn
      exact hn.2.2 _ hm _ (by simp) rfl
    have hn' : (acc.map (·.1) ++ ts.map (·.1)).Nodup := by
      rw [List.nodup_append] at hn ⊢
      simp only [List.map_cons, List.nodup_cons] at hn
      exact ⟨hn.1, hn.2.1.2, fun a ha b hb => hn.2.2 a ha b (List.mem_cons_of_mem _ hb)⟩
    have htfresh : t.1 ∉ ts.map (·.1) := by
      rw [List.nodup_append] at hn
      simp only [List.map_cons, List.nodup_cons] at hn
      exact hn.2.1.1
    by_cases hz : t.2.threshold ≠ 0
    · have hstep : thrFold acc (t :: ts) = thrFold (setAmount.ins t.1 t.2.threshold acc) ts := by
        simp only [thrFold, List.foldl_cons, if_pos hz, addCoin_fresh acc t.1 t.2.threshold hfresh hz]
      rw [hstep]
      have hn2 : ((setAmount.ins t.1 t.2.threshold acc).map (·.1) ++ ts.map (·.1)).Nodup := by
        rw [List.nodup_append] at hn' ⊢
        refine ⟨?_, hn'.2.1, ?_⟩
        · have := sorted_ins t.1 t.2.threshold acc hs hfresh
          rw [List.Nodup, List.pairwise_map]
          exact this.imp (fun hlt heq => by rw [heq] at hlt; exact String.lt_irrefl _ hlt)
        · intro a ha b hb
          obtain ⟨e, he, rfl⟩ := List.mem_map.1 ha
          rcases (mem_ins _ _ e acc).1 he with he | he
          · rw [he]; intro heq; exact htfresh (heq ▸ hb)
          · exact hn'.2.2 e.1 (List.mem_map.2 ⟨e, he, rfl⟩) b hb
      obtain ⟨ih1, ih2⟩ := thrFold_spec ts _ (sorted_ins t.1 t.2.threshold acc hs hfresh) hn2
      refine ⟨ih1, ?_⟩
      intro d x
      rw [ih2 d x, mem_ins]
      constructor
      · rintro ((h | h) | ⟨hx, u, hu, hux⟩)
        · simp only [Prod.mk.injEq] at h
          exact Or.inr ⟨by rw [h.2]; exact hz, t.2, by rw [h.1]; exact List.mem_cons_self .., h.2.symm⟩
        · exact Or.inl h
        · exact Or.inr ⟨hx, u, List.mem_cons_of_mem _ hu, hux⟩
      · rintro (h | ⟨hx, u, hu, hux⟩)
        · exact Or.inl (Or.inr h)
        · rcases List.mem_cons.1 hu with hu | hu
          · left; left
            subst hu
            simp [hux]
          · exact Or.inr ⟨hx, u, hu, hux⟩
    · have hstep : thrFold acc (t :: ts) = thrFold acc ts := by
        simp only [thrFold, List.foldl_cons, if_neg hz]
      rw [hstep]
      obtain ⟨ih1, ih2⟩ := thrFold_spec ts acc hs hn'
      refine ⟨ih1, ?_⟩
      intro d x
      rw [ih2 d x]
      constructor
      · rintro (h | ⟨hx, u, hu, hux⟩)
        · exact Or.inl h
        · exact Or.inr ⟨hx, u, List.mem_cons_of_mem _ hu, hux⟩
      · rintro (h | ⟨hx, u, hu, hux⟩)
        · exact Or.inl h
        · rcases List.mem_cons.1 hu with hu | hu
          · exfalso
            subst hu
            simp only [ne_eq, Decidable.not_not] at hz
            exact hx (hux ▸ hz)
          · exact Or.inr ⟨hx, u, hu, hux⟩

/-! ### slashed coins, unlock queue -/

theorem slashed_frame : ∀ (l : Coins) (s : State),
    l.foldl (fun s c => slashedSet s c.1 c.2) s = { s with slashed := (l.foldl (fun s c => slashedSet s c.1 c.2) s).slashed }
  | [], s => rfl
  | c :: cs, s => by
    rw [List.foldl_cons, slashed_frame cs (slashedSet s c.1 c.2)]
    rfl

theorem slashed_fold : ∀ (l : Coins) (s : State), (s.slashed.map (·.1) ++ l.map (·.1)).Nodup →
    (l.foldl (fun s c => slashedSet s c.1 c.2) s).slashed = s.slashed ++ l
  | [], s, _ => by simp
  | c :: cs, s, hn => by
    have hfil : s.slashed.filter (fun e => e.1 != c.1) = s.slashed := by
      rw [List.filter_eq_self]
      intro e he
      rw [List.nodup_append] at hn
      have := hn.2.2 e.1 (List.mem_map.2 ⟨e, he, rfl⟩) c.1 (by simp)
      simpa using this
    rw [List.foldl_cons, slashed_fold cs]
    · simp [slashedSet, hfil]
    · simpa [slashedSet, hfil, List.append_assoc] using hn

theorem queue_frame : ∀ (l : List (Int × List Unlock)) (s : State),
    l.foldl (fun s e => queueSet s e.1 e.2) s =
      { s with unlockQueue := (l.foldl (fun s e => queueSet s e.1 e.2) s).unlockQueue }
  | [], s => rfl
  | c :: cs, s => by
    rw [List.foldl_cons, queue_frame cs (queueSet s c.1 c.2)]
    rfl

theorem queue_fold : ∀ (l : List (Int × List Unlock)) (s : State), (s.unlockQueue.map (·.1) ++ l.map (·.1)).Nodup →
    (l.foldl (fun s e => queueSet s e.1 e.2) s).unlockQueue = s.unlockQueue ++ l
  | [], s, _ => by simp
  | c :: cs, s, hn => by
    have hany : s.unlockQueue.any (fun e => e.1 == c.1) = false := by
      rw [List.any_eq_false]
      intro e he
      rw [List.nodup_append] at hn
      have := hn.2.2 e.1 (List.mem_map.2 ⟨e, he, rfl⟩) c.1 (by simp)
      simpa using this
    rw [List.foldl_cons, queue_fold cs]
    · simp [queueSet, hany]
    · simpa [queueSet, hany, List.append_assoc] using hn

/-! ### the import in closed form -/

/-- well-formed genesis, part needed for the derived data: distinct validator addresses, every
    holding an `sdk.Coins` without repeated denoms, distinct token denoms -/
structure WfGenesis (h : Bytes → Bytes) (g : LGenesis) : Prop where
  vals : (g.validators.map (fun v => h v.pubkey)).Nodup
  coins : ∀ v ∈ g.validators, (v.locking.map (·.1)).Nodup
  tokens : (g.tokens.map (·.1)).Nodup

instance (h : Bytes → Bytes) (g : LGenesis) : Decidable (WfGenesis h g) :=
  if h1 : (g.validators.map (fun v => h v.pubkey)).Nodup then
    if h2 : ∀ v ∈ g.validators, (v.locking.map (·.1)).Nodup then
      if h3 : (g.tokens.map (·.1)).Nodup then isTrue ⟨h1, h2, h3⟩
      else isFalse (fun w => h3 w.tokens)
    else isFalse (fun w => h2 w.coins)
  else isFalse (fun w => h1 w.vals)

/-- **Import in closed form.**  For a well-formed genesis the imported store is: validators filed
    under their addresses in genesis order; locking index, power ranking, validator set as the closed
    forms `idxOf`, `rankOf`, `valsetOf`; tokens as given; threshold list accumulated by `thrFold`. -/
theorem initGenesisCore_spec (h : Bytes → Bytes) (g : LGenesis) (wf : WfGenesis h g) :
    ∃ sl uq, initGenesisCore h g =
      ({ params := g.params, validators := keyed h g.validators, lockingIdx := idxOf (keyed h g.validators),
         ranking := rankOf (keyed h g.validators), valset := valsetOf (keyed h g.validators),
         tokens := g.tokens, threshold := thrFold [] g.tokens, slashed := sl, nonce := g.nonce, pool := g.pool,
         qRewards := g.qRewards, qUnlocks := g.qUnlocks, unlockQueue := uq }, upsOf (keyed h g.validators)) ∧
      ((g.slashed.map (·.1)).Nodup → sl = g.slashed) ∧
      ((g.unlockQueue.map (·.1)).Nodup → uq = g.unlockQueue) := by
  have h0 : (emptyState g.params, ([] : List Update)) = (specState g.params [], upsOf []) := rfl
  have h1 := initValidators_spec h g.params g.validators [] (by simpa using wf.vals) wf.coins
  have h2 := tokens_fold g.tokens (specState g.params (keyed h g.validators)) [] (by simpa [specState, emptyState] using wf.tokens)
  unfold initGenesisCore
  simp only [h0, h1, List.nil_append, initTokens, h2]
  rw [queue_frame, slashed_frame]
  refine ⟨_, _, rfl, ?_, ?_⟩
  · intro hs
    rw [slashed_fold _ _ (by simpa [specState, emptyState] using hs)]
    simp [specState, emptyState]
  · intro hq
    rw [queue_fold _ _ (by simpa [specState, emptyState, slashed_frame g.slashed] using hq)]
    rw [slashed_frame]
    simp [specState, emptyState]

/-! ## (a) the relation between primary and derived data -/

/-- **Derived data of x/locking at committed states.**  The four derived collections are functions
    of the primary data (validators, tokens), as finite maps / sets:
    * `Locking` index = the holdings of the Active/Pending validators, per (denom, validator);
    * `PowerRanking` = {(power, address) | status ∈ {Active, Pending}, power > 0};
    * `ValidatorSet` = {address ↦ power | status = Active};
    * `Threshold` = the non-zero token thresholds, sorted by denom. -/
structure Derived (s : State) : Prop where
  idx_mem : ∀ d a x, ((d, a), x) ∈ s.lockingIdx ↔
    ∃ v, (a, v) ∈ s.validators ∧ (v.status = .active ∨ v.status = .pending) ∧ (d, x) ∈ v.locking
  idx_nodup : (s.lockingIdx.map (·.1)).Nodup
  rank_mem : ∀ p a, (p, a) ∈ s.ranking ↔
    ∃ v, (a, v) ∈ s.validators ∧ (v.status = .active ∨ v.status = .pending) ∧ v.power = p ∧ p > 0
  rank_nodup : s.ranking.Nodup
  valset_mem : ∀ a p, (a, p) ∈ s.valset ↔ ∃ v, (a, v) ∈ s.validators ∧ v.status = .active ∧ v.power = p
  valset_nodup : (s.valset.map (·.1)).Nodup
  thr_sorted : s.threshold.Pairwise (fun x y => x.1 < y.1)
  thr_mem : ∀ d x, (d, x) ∈ s.threshold ↔ x ≠ 0 ∧ ∃ t, (d, t) ∈ s.tokens ∧ t.threshold = x

theorem isAP_iff (v : Validator) : isAP v = true ↔ (v.status = .active ∨ v.status = .pending) := by
  simp [isAP]

theorem idxOf_nodup (kvs : List (Bytes × Validator)) (hk : (kvs.map (·.1)).Nodup)
    (hc : ∀ e ∈ kvs, (e.2.locking.map (·.1)).Nodup) : ((idxOf kvs).map (·.1)).Nodup := by
  rw [idxOf, List.map_flatMap, List.Nodup, List.pairwise_flatMap]
  constructor
  · intro e he
    by_cases hap : isAP e.2 = true
    · simp only [hap, if_true, List.map_map]
      have := hc e he
      rw [List.Nodup, List.pairwise_map] at this
      rw [List.pairwise_map]
      exact this.imp (fun hne heq => hne (by simpa using congrArg Prod.fst heq))
    · simp [hap]
  · rw [List.Nodup, List.pairwise_map] at hk
    refine hk.imp ?_
    intro e1 e2 hne x hx y hy hxy
    by_cases h1 : isAP e1.2 = true <;> by_cases h2 : isAP e2.2 = true
    · simp only [h1, h2, if_true, List.map_map, List.mem_map, Function.comp] at hx hy
      obtain ⟨c1, _, rfl⟩ := hx
      obtain ⟨c2, _, hc2⟩ := hy
      rw [← hxy] at hc2
      exact hne (congrArg Prod.snd hc2).symm
    all_goals simp [h1, h2] at hx hy

theorem rankOf_nodup (kvs : List (Bytes × Validator)) (hk : (kvs.map (·.1)).Nodup) : (rankOf kvs).Nodup := by
  rw [rankOf, List.Nodup, List.pairwise_map]
  rw [List.Nodup, List.pairwise_map] at hk
  exact (hk.sublist List.filter_sublist).imp (fun hne heq => hne (congrArg Prod.snd heq))

theorem valsetOf_nodup (kvs : List (Bytes × Validator)) (hk : (kvs.map (·.1)).Nodup) : ((valsetOf kvs).map (·.1)).Nodup := by
  rw [valsetOf, List.map_map, List.Nodup, List.pairwise_map]
  rw [List.Nodup, List.pairwise_map] at hk
  exact (hk.sublist List.filter_sublist).imp (fun hne heq => hne heq)

/-- the closed form satisfies `Derived` -/
theorem derived_of_spec (s : State) (hk : (s.validators.map (·.1)).Nodup)
    (hc : ∀ e ∈ s.validators, (e.2.locking.map (·.1)).Nodup) (ht : (s.tokens.map (·.1)).Nodup)
    (h1 : s.lockingIdx = idxOf s.validators) (h2 : s.ranking = rankOf s.validators)
    (h3 : s.valset = valsetOf s.validators) (h4 : s.threshold = thrFold [] s.tokens) : Derived s := by
  obtain ⟨t1, t2⟩ := thrFold_spec s.tokens [] List.Pairwise.nil (by simpa using ht)
  refine ⟨?_, ?_, ?_, ?_, ?_, ?_, ?_, ?_⟩
  · intro d a x; rw [h1, mem_idxOf]; simp only [isAP_iff]
  · rw [h1]; exact idxOf_nodup _ hk hc
  · intro p a; rw [h2, mem_rankOf]; simp only [isAP_iff]
  · rw [h2]; exact rankOf_nodup _ hk
  · intro a p; rw [h3, mem_valsetOf]
  · rw [h3]; exact valsetOf_nodup _ hk
  · rw [h4]; exact t1
  · intro d x; rw [h4, t2 d x]; simp

/-! ## (b) import establishes `Derived` -/

theorem keyed_keys (h : Bytes → Bytes) (vs : List Validator) :
    (keyed h vs).map (·.1) = vs.map (fun v => h v.pubkey) := by
  simp [keyed]

/-- **(b)** For any well-formed genesis that passes the one panic check (no negative token
    threshold) the import succeeds and the imported store satisfies `Derived`. -/
theorem initGenesis_establishes_Derived (h : Bytes → Bytes) (g : LGenesis) (wf : WfGenesis h g)
    (hnn : ∀ t ∈ g.tokens, 0 ≤ t.2.threshold) :
    initGenesis h g = .ok (initGenesisCore h g) ∧ Derived (initGenesisCore h g).1 := by
  constructor
  · have : g.tokens.any (fun t => decide (t.2.threshold < 0)) = false := by
      rw [List.any_eq_false]
      intro t ht
      have := hnn t ht
      simp only [decide_eq_true_eq]; omega
    simp [initGenesis, this]
  · obtain ⟨sl, uq, hspec, _, _⟩ := initGenesisCore_spec h g wf
    rw [hspec]
    apply derived_of_spec
    · simpa [keyed_keys] using wf.vals
    · intro e he
      simp only [keyed, List.mem_map] at he
      obtain ⟨v, hv, rfl⟩ := he
      exact wf.coins v hv
    · exact wf.tokens
    all_goals rfl

/-! ## key order: the sorts of the export -/

theorem bytesLt_cotrans : ∀ c a b : Bytes, bytesLt c a = true → bytesLt b a = true ∨ bytesLt c b = true
  | [], [], _ => by simp [bytesLt]
  | [], _ :: _, [] => by simp [bytesLt]
  | [], _ :: _, _ :: _ => by simp [bytesLt]
  | _ :: _, [], _ => by simp [bytesLt]
  | _ :: _, _ :: _, [] => by simp [bytesLt]
  | z :: zs, x :: xs, y :: ys => by
    intro hca
    unfold bytesLt at hca ⊢
    by_cases hyx : y < x
    · simp [hyx]
    · by_cases hzy : z < y
      · simp [hzy]
      · -- x ≤ y ≤ z
        have hzx : ¬ z < x := by
          rw [UInt8.lt_iff_toNat_lt] at hyx hzy ⊢; omega
        by_cases hxz : x < z
        · simp [hzx, hxz] at hca
        · have e1 : x = z := UInt8.le_antisymm (UInt8.not_lt.1 hzx) (UInt8.not_lt.1 hxz)
          subst e1
          have hxy : ¬ x < y := hzy
          have e2 : x = y := UInt8.le_antisymm (UInt8.not_lt.1 hyx) (UInt8.not_lt.1 hxy)
          subst e2
          simp only [UInt8.lt_irrefl, if_false] at hca ⊢
          exact bytesLt_cotrans zs xs ys hca

theorem ble_trans (a b c : Bytes) (h1 : (!bytesLt b a) = true) (h2 : (!bytesLt c b) = true) : (!bytesLt c a) = true := by
  cases hca : bytesLt c a with
  | false => rfl
  | true =>
    rcases bytesLt_cotrans c a b hca with h | h
    · simp [h] at h1
    · simp [h] at h2

theorem ble_total (a b : Bytes) : (!bytesLt b a || !bytesLt a b) = true := by
  cases hba : bytesLt b a with
  | false => rfl
  | true => simp [bytesLt_asymm b a hba]

theorem msort_bytes_sorted {α} (k : α → Bytes) (l : List α) :
    (l.mergeSort (fun a b => !bytesLt (k b) (k a))).Pairwise (fun a b => (!bytesLt (k b) (k a)) = true) :=
  List.pairwise_mergeSort (fun a b c => ble_trans (k a) (k b) (k c)) (fun a b => ble_total (k a) (k b)) l

theorem msort_bytes_id {α} (k : α → Bytes) (l : List α) (hs : l.Pairwise (fun a b => bytesLt (k a) (k b) = true)) :
    l.mergeSort (fun a b => !bytesLt (k b) (k a)) = l :=
  List.mergeSort_of_pairwise (hs.imp (fun hlt => by simp [bytesLt_asymm _ _ hlt]))

theorem msort_bytes_strict {α} (k : α → Bytes) (l : List α) (hn : (l.map k).Nodup) :
    (l.mergeSort (fun a b => !bytesLt (k b) (k a))).Pairwise (fun a b => (!bytesLt (k b) (k a)) = true ∧ k a ≠ k b) := by
  have hp := List.mergeSort_perm l (fun a b => !bytesLt (k b) (k a))
  have hn' : ((l.mergeSort (fun a b => !bytesLt (k b) (k a))).map k).Nodup := ((hp.map k).nodup_iff).2 hn
  rw [List.Nodup, List.pairwise_map] at hn'
  exact (msort_bytes_sorted k l).and hn'

theorem sle_trans (a b c : String) (h1 : (!decide (b < a)) = true) (h2 : (!decide (c < b)) = true) : (!decide (c < a)) = true := by
  simp only [Bool.not_eq_true', decide_eq_false_iff_not, String.not_lt] at h1 h2 ⊢
  exact String.le_trans h1 h2

theorem sle_total (a b : String) : (!decide (b < a) || !decide (a < b)) = true := by
  simp only [Bool.or_eq_true, Bool.not_eq_true', decide_eq_false_iff_not, String.not_lt]
  exact String.le_total a b

theorem msort_str_sorted {α} (k : α → String) (l : List α) :
    (l.mergeSort (fun a b => !decide (k b < k a))).Pairwise (fun a b => (!decide (k b < k a)) = true) :=
  List.pairwise_mergeSort (fun a b c => sle_trans (k a) (k b) (k c)) (fun a b => sle_total (k a) (k b)) l

theorem msort_str_id {α} (k : α → String) (l : List α) (hs : l.Pairwise (fun a b => k a < k b)) :
    l.mergeSort (fun a b => !decide (k b < k a)) = l :=
  List.mergeSort_of_pairwise (hs.imp (fun hlt => by simp [String.lt_asymm hlt]))

/-- sorting an association list with distinct string keys yields a strictly sorted list -/
theorem msort_str_strict {α} (k : α → String) (l : List α) (hn : (l.map k).Nodup) :
    (l.mergeSort (fun a b => !decide (k b < k a))).Pairwise (fun a b => k a < k b) := by
  have hp := List.mergeSort_perm l (fun a b => !decide (k b < k a))
  have hn' : ((l.mergeSort (fun a b => !decide (k b < k a))).map k).Nodup := ((hp.map k).nodup_iff).2 hn
  rw [List.Nodup, List.pairwise_map] at hn'
  refine ((msort_str_sorted k l).and hn').imp ?_
  rintro a b ⟨h1, h2⟩
  simp only [Bool.not_eq_true', decide_eq_false_iff_not] at h1
  exact str_lt_of_not_lt_of_ne h1 (Ne.symm h2)

theorem msort_int_sorted {α} (k : α → Int) (l : List α) :
    (l.mergeSort (fun a b => decide (k a ≤ k b))).Pairwise (fun a b => decide (k a ≤ k b) = true) :=
  List.pairwise_mergeSort (fun a b c h1 h2 => by simp only [decide_eq_true_eq] at h1 h2 ⊢; omega)
    (fun a b => by simp only [Bool.or_eq_true, decide_eq_true_eq]; omega) l

theorem msort_int_id {α} (k : α → Int) (l : List α) (hs : l.Pairwise (fun a b => k a < k b)) :
    l.mergeSort (fun a b => decide (k a ≤ k b)) = l :=
  List.mergeSort_of_pairwise (hs.imp (fun hlt => by simp only [decide_eq_true_eq]; omega))

/-! ### the slashed coins of the export -/

theorem ins_last (d : String) (a : Int) : ∀ l : Coins, (∀ e ∈ l, e.1 < d) → setAmount.ins d a l = l ++ [(d, a)]
  | [], _ => by simp [ins_nil]
  | e :: es, hlt => by
    have h1 : ¬ d < e.1 := String.lt_asymm (hlt e (List.mem_cons_self ..))
    rw [ins_cons, if_neg h1, ins_last d a es (fun x hx => hlt x (List.mem_cons_of_mem _ hx))]
    rfl

/-- `coins.Add` over coins already strictly sorted and non-zero rebuilds the same list -/
theorem addCoin_fold_sorted : ∀ (l acc : Coins), (acc ++ l).Pairwise (fun x y => x.1 < y.1) → (∀ e ∈ l, e.2 ≠ 0) →
    l.foldl (fun acc e => addCoin acc e.1 e.2) acc = acc ++ l
  | [], acc, _, _ => by simp
  | e :: es, acc, hs, hz => by
    have hlt : ∀ x ∈ acc, x.1 < e.1 := by
      intro x hx
      rw [List.pairwise_append] at hs
      exact hs.2.2 x hx e (List.mem_cons_self ..)
    have hfresh : e.1 ∉ acc.map (·.1) := by
      intro hm
      obtain ⟨x, hx, hxe⟩ := List.mem_map.1 hm
      have := hlt x hx
      rw [hxe] at this
      exact String.lt_irrefl _ this
    rw [List.foldl_cons, addCoin_fresh acc e.1 e.2 hfresh (hz e (List.mem_cons_self ..)), ins_last _ _ _ hlt]
    rw [addCoin_fold_sorted es (acc ++ [(e.1, e.2)])]
    · simp
    · simpa [List.append_assoc] using hs
    · intro x hx; exact hz x (List.mem_cons_of_mem _ hx)

theorem exportSlashed_eq (sl : List (String × Int)) (hn : (sl.map (·.1)).Nodup) (hz : ∀ e ∈ sl, e.2 ≠ 0) :
    exportSlashed sl = sortCoins sl := by
  unfold exportSlashed
  have hp : (sortCoins sl).Perm sl := List.mergeSort_perm _ _
  rw [addCoin_fold_sorted (sortCoins sl) [] (by simpa [sortCoins] using msort_str_strict (·.1) sl hn)
    (fun e he => hz e (hp.mem_iff.1 he))]
  simp

theorem sortVals_perm (l : List (Bytes × Validator)) : (sortVals l).Perm l := List.mergeSort_perm _ _
theorem sortTokens_perm (l : List (String × Token)) : (sortTokens l).Perm l := List.mergeSort_perm _ _
theorem sortCoins_perm (l : List (String × Int)) : (sortCoins l).Perm l := List.mergeSort_perm _ _
theorem sortQueue_perm (l : List (Int × List Unlock)) : (sortQueue l).Perm l := List.mergeSort_perm _ _

theorem sortVals_idem (l : List (Bytes × Validator)) : sortVals (sortVals l) = sortVals l :=
  List.mergeSort_of_pairwise (msort_bytes_sorted (·.1) l)
theorem sortTokens_idem (l : List (String × Token)) : sortTokens (sortTokens l) = sortTokens l :=
  List.mergeSort_of_pairwise (msort_str_sorted (·.1) l)
theorem sortCoins_idem (l : List (String × Int)) : sortCoins (sortCoins l) = sortCoins l :=
  List.mergeSort_of_pairwise (msort_str_sorted (·.1) l)
theorem sortQueue_idem (l : List (Int × List Unlock)) : sortQueue (sortQueue l) = sortQueue l :=
  List.mergeSort_of_pairwise (msort_int_sorted (·.1) l)

theorem sortVals_id (l : List (Bytes × Validator)) (hs : l.Pairwise (fun a b => bytesLt a.1 b.1 = true)) : sortVals l = l :=
  msort_bytes_id (fun e : Bytes × Validator => e.1) l hs
theorem sortTokens_id (l : List (String × Token)) (hs : l.Pairwise (fun a b => a.1 < b.1)) : sortTokens l = l :=
  msort_str_id (fun e : String × Token => e.1) l hs
theorem sortCoins_id (l : List (String × Int)) (hs : l.Pairwise (fun a b => a.1 < b.1)) : sortCoins l = l :=
  msort_str_id (fun e : String × Int => e.1) l hs
theorem sortQueue_id (l : List (Int × List Unlock)) (hs : l.Pairwise (fun a b => a.1 < b.1)) : sortQueue l = l :=
  msort_int_id (fun e : Int × List Unlock => e.1) l hs

/-! ## (c), (d) round trip -/

/-- The derived data are determined by the primary data: two stores satisfying `Derived` with the
    same validators and tokens (as sets) have the same locking index, ranking and validator set (as
    sets) and the same threshold list. -/
theorem derived_unique (s s' : State) (hd : Derived s) (hd' : Derived s')
    (hv : ∀ e, e ∈ s'.validators ↔ e ∈ s.validators) (ht : ∀ e, e ∈ s'.tokens ↔ e ∈ s.tokens) :
    (∀ x, x ∈ s'.lockingIdx ↔ x ∈ s.lockingIdx) ∧ (∀ x, x ∈ s'.ranking ↔ x ∈ s.ranking) ∧
    (∀ x, x ∈ s'.valset ↔ x ∈ s.valset) ∧ s'.threshold = s.threshold := by
  refine ⟨?_, ?_, ?_, ?_⟩
  · rintro ⟨⟨d, a⟩, x⟩; rw [hd'.idx_mem, hd.idx_mem]; simp only [hv]
  · rintro ⟨p, a⟩; rw [hd'.rank_mem, hd.rank_mem]; simp only [hv]
  · rintro ⟨a, p⟩; rw [hd'.valset_mem, hd.valset_mem]; simp only [hv]
  · apply sorted_ext (fun (x y : String × Int) => x.1 < y.1) (fun a => String.lt_irrefl a.1)
      (fun a b hab => String.lt_asymm hab) _ _ hd'.thr_sorted hd.thr_sorted
    rintro ⟨d, x⟩; rw [hd'.thr_mem, hd.thr_mem]; simp only [ht]

/-- well-formedness of the primary data of a store (all decidable):
    validators are filed under the address of their key, addresses distinct, holdings without repeated
    denoms; token denoms distinct, thresholds non-negative; slashed denoms distinct with non-zero
    amounts; unlock-queue times distinct. -/
def WfState (h : Bytes → Bytes) (s : State) : Prop :=
  (∀ e ∈ s.validators, e.1 = h e.2.pubkey) ∧ (s.validators.map (·.1)).Nodup ∧
  (∀ e ∈ s.validators, (e.2.locking.map (·.1)).Nodup) ∧
  (s.tokens.map (·.1)).Nodup ∧ (∀ t ∈ s.tokens, 0 ≤ t.2.threshold) ∧
  (s.slashed.map (·.1)).Nodup ∧ (∀ e ∈ s.slashed, e.2 ≠ 0) ∧ (s.unlockQueue.map (·.1)).Nodup

instance (h : Bytes → Bytes) (s : State) : Decidable (WfState h s) := by unfold WfState; infer_instance

theorem keyed_of_keyed (h : Bytes → Bytes) (l : List (Bytes × Validator)) (hk : ∀ e ∈ l, e.1 = h e.2.pubkey) :
    keyed h (l.map (·.2)) = l := by
  rw [keyed, List.map_map]
  conv => rhs; rw [← List.map_id l]
  apply List.map_congr_left
  intro e he
  simp only [Function.comp, id]
  rw [← hk e he]

/-- `s'` reproduces `s`: primary data identical (association lists in key order), derived data equal
    as sets, threshold list identical. -/
structure Reproduces (s s' : State) : Prop where
  params : s'.params = s.params
  validators : s'.validators = sortVals s.validators
  tokens : s'.tokens = sortTokens s.tokens
  slashed : s'.slashed = sortCoins s.slashed
  nonce : s'.nonce = s.nonce
  pool : s'.pool = s.pool
  qRewards : s'.qRewards = s.qRewards
  qUnlocks : s'.qUnlocks = s.qUnlocks
  unlockQueue : s'.unlockQueue = sortQueue s.unlockQueue
  threshold : s'.threshold = s.threshold
  lockingIdx : ∀ x, x ∈ s'.lockingIdx ↔ x ∈ s.lockingIdx
  ranking : ∀ x, x ∈ s'.ranking ↔ x ∈ s.ranking
  valset : ∀ x, x ∈ s'.valset ↔ x ∈ s.valset
  derived : Derived s'

/-- **(c), (d) import ∘ export.**  For a store with well-formed primary data whose derived data
    satisfy `Derived`: importing its export succeeds; the imported store reproduces it; the validator
    updates returned to the consensus engine are exactly the recorded validator set (address ↦ power)
    with each address replaced by the validator's public key; and exporting again gives the very
    same genesis. -/
theorem import_export (h : Bytes → Bytes) (s : State) (wf : WfState h s) (hd : Derived s) :
    ∃ s' ups, initGenesis h (exportGenesis s) = .ok (s', ups) ∧ Reproduces s s' ∧
      (∀ u, u ∈ ups ↔ ∃ a v, (a, v) ∈ s.validators ∧ (a, u.power) ∈ s.valset ∧ v.pubkey = u.pubkey) ∧
      exportGenesis s' = exportGenesis s := by
  obtain ⟨hk, hvn, hc, htn, hnn, hsn, hsz, hqn⟩ := wf
  have hkeyed : keyed h ((sortVals s.validators).map (·.2)) = sortVals s.validators :=
    keyed_of_keyed h _ (fun e he => hk e ((sortVals_perm _).mem_iff.1 he))
  have hvn' : ((sortVals s.validators).map (·.1)).Nodup := (((sortVals_perm s.validators).map _).nodup_iff).2 hvn
  have wfg : WfGenesis h (exportGenesis s) := by
    refine ⟨?_, ?_, ?_⟩
    · have := keyed_keys h ((sortVals s.validators).map (·.2))
      rw [hkeyed] at this
      show (((sortVals s.validators).map (·.2)).map (fun v => h v.pubkey)).Nodup
      rw [← this]; exact hvn'
    · intro v hv
      obtain ⟨e, he, rfl⟩ := List.mem_map.1 hv
      exact hc e ((sortVals_perm _).mem_iff.1 he)
    · exact (((sortTokens_perm s.tokens).map _).nodup_iff).2 htn
  have hnn' : ∀ t ∈ (exportGenesis s).tokens, 0 ≤ t.2.threshold :=
    fun t ht => hnn t ((sortTokens_perm _).mem_iff.1 ht)
  obtain ⟨hok, hder⟩ := initGenesis_establishes_Derived h (exportGenesis s) wfg hnn'
  obtain ⟨sl, uq, hspec, hsl, huq⟩ := initGenesisCore_spec h (exportGenesis s) wfg
  have hslashed : (exportGenesis s).slashed = sortCoins s.slashed := exportSlashed_eq s.slashed hsn hsz
  have hsl' : sl = sortCoins s.slashed := by
    rw [← hslashed]; apply hsl
    rw [hslashed]; exact (((sortCoins_perm s.slashed).map _).nodup_iff).2 hsn
  have huq' : uq = sortQueue s.unlockQueue :=
    huq ((((sortQueue_perm s.unlockQueue).map _).nodup_iff).2 hqn)
  rw [hspec] at hok hder
  refine ⟨_, _, hok, ?_, ?_, ?_⟩
  · have hu := derived_unique s _ hd hder
      (fun e => by
        show e ∈ keyed h ((sortVals s.validators).map (·.2)) ↔ _
        rw [hkeyed]; exact (sortVals_perm _).mem_iff)
      (fun e => (sortTokens_perm _).mem_iff)
    exact ⟨rfl, hkeyed, rfl, hsl', rfl, rfl, rfl, rfl, huq', hu.2.2.2, hu.1, hu.2.1, hu.2.2.1, hder⟩
  · intro u
    show u ∈ upsOf (keyed h ((sortVals s.validators).map (·.2))) ↔ _
    rw [hkeyed, mem_upsOf]
    constructor
    · rintro ⟨a, v, hv, hact, rfl⟩
      have hv' := (sortVals_perm _).mem_iff.1 hv
      exact ⟨a, v, hv', (hd.valset_mem a v.power).2 ⟨v, hv', hact, rfl⟩, rfl⟩
    · rintro ⟨a, v, hv, hvs, hpk⟩
      obtain ⟨w, hw, hact, hp⟩ := (hd.valset_mem a u.power).1 hvs
      have : v = w := assoc_unique _ hvn a v w hv hw
      subst this
      refine ⟨a, v, (sortVals_perm _).mem_iff.2 hv, hact, ?_⟩
      cases u
      simp only at hp hpk
      simp [hp, hpk]
  · show exportGenesis _ = exportGenesis s
    simp only [exportGenesis, hkeyed, hsl', huq', sortVals_idem, sortTokens_idem, sortQueue_idem, exportSlashed,
      sortCoins_idem]

/-- association lists of the store in key order (the order of a KV-store dump) -/
def Canonical (s : State) : Prop :=
  s.validators.Pairwise (fun a b => bytesLt a.1 b.1 = true) ∧ s.tokens.Pairwise (fun a b => a.1 < b.1) ∧
  s.slashed.Pairwise (fun a b => a.1 < b.1) ∧ s.unlockQueue.Pairwise (fun a b => a.1 < b.1)

instance (s : State) : Decidable (Canonical s) := by unfold Canonical; infer_instance

/-- on a store in key order the primary data are reproduced verbatim -/
theorem Reproduces.exact {s s' : State} (r : Reproduces s s') (hc : Canonical s) :
    s'.validators = s.validators ∧ s'.tokens = s.tokens ∧ s'.slashed = s.slashed ∧ s'.unlockQueue = s.unlockQueue := by
  obtain ⟨h1, h2, h3, h4⟩ := hc
  exact ⟨r.validators.trans (sortVals_id _ h1), r.tokens.trans (sortTokens_id _ h2),
    r.slashed.trans (sortCoins_id _ h3), r.unlockQueue.trans (sortQueue_id _ h4)⟩

theorem nodup_of_sorted_str {α} (k : α → String) (l : List α) (hs : l.Pairwise (fun a b => k a < k b)) : (l.map k).Nodup := by
  rw [List.Nodup, List.pairwise_map]
  exact hs.imp (fun hlt heq => by rw [heq] at hlt; exact String.lt_irrefl _ hlt)

theorem nodup_of_sorted_bytes {α} (k : α → Bytes) (l : List α) (hs : l.Pairwise (fun a b => bytesLt (k a) (k b) = true)) :
    (l.map k).Nodup := by
  rw [List.Nodup, List.pairwise_map]
  exact hs.imp (fun hlt heq => by rw [heq, bytesLt_irrefl] at hlt; cases hlt)

theorem nodup_of_sorted_int {α} (k : α → Int) (l : List α) (hs : l.Pairwise (fun a b => k a < k b)) : (l.map k).Nodup := by
  rw [List.Nodup, List.pairwise_map]
  exact hs.imp (fun hlt heq => by omega)

/-- a genesis in the form produced by an export: lists in key order, holdings without repeated
    denoms, non-negative thresholds, non-zero slashed amounts -/
def CanonGenesis (h : Bytes → Bytes) (g : LGenesis) : Prop :=
  g.validators.Pairwise (fun a b => bytesLt (h a.pubkey) (h b.pubkey) = true) ∧
  (∀ v ∈ g.validators, (v.locking.map (·.1)).Nodup) ∧
  g.tokens.Pairwise (fun a b => a.1 < b.1) ∧ (∀ t ∈ g.tokens, 0 ≤ t.2.threshold) ∧
  g.slashed.Pairwise (fun a b => a.1 < b.1) ∧ (∀ e ∈ g.slashed, e.2 ≠ 0) ∧
  g.unlockQueue.Pairwise (fun a b => a.1 < b.1)

instance (h : Bytes → Bytes) (g : LGenesis) : Decidable (CanonGenesis h g) := by unfold CanonGenesis; infer_instance

/-- **(c) export ∘ import**: a genesis in export form is imported without error and exporting the
    imported store returns it verbatim — the second export is identical to the first. -/
theorem export_import (h : Bytes → Bytes) (g : LGenesis) (hc : CanonGenesis h g) :
    ∃ s' ups, initGenesis h g = .ok (s', ups) ∧ Derived s' ∧ exportGenesis s' = g := by
  obtain ⟨c1, c2, c3, c4, c5, c6, c7⟩ := hc
  have wfg : WfGenesis h g := ⟨nodup_of_sorted_bytes (fun v : Validator => h v.pubkey) g.validators c1, c2,
    nodup_of_sorted_str (fun e : String × Token => e.1) g.tokens c3⟩
  obtain ⟨hok, hder⟩ := initGenesis_establishes_Derived h g wfg c4
  obtain ⟨sl, uq, hspec, hsl, huq⟩ := initGenesisCore_spec h g wfg
  have hsn : (g.slashed.map (·.1)).Nodup := nodup_of_sorted_str (fun e : String × Int => e.1) g.slashed c5
  have hsl' := hsl hsn
  have huq' := huq (nodup_of_sorted_int (fun e : Int × List Unlock => e.1) g.unlockQueue c7)
  rw [hspec] at hok hder
  refine ⟨_, _, hok, hder, ?_⟩
  have e1 : sortVals (keyed h g.validators) = keyed h g.validators :=
    sortVals_id _ (by rw [keyed, List.pairwise_map]; exact c1)
  have e2 : (keyed h g.validators).map (·.2) = g.validators := by
    rw [keyed, List.map_map]
    conv => rhs; rw [← List.map_id g.validators]
    rfl
  have e3 : sortTokens g.tokens = g.tokens := sortTokens_id _ c3
  have e4 : exportSlashed g.slashed = g.slashed := (exportSlashed_eq _ hsn c6).trans (sortCoins_id _ c5)
  have e5 : sortQueue g.unlockQueue = g.unlockQueue := sortQueue_id _ c7
  simp only [exportGenesis, e1, e2, e3, hsl', e4, huq', e5]

/-! ## (e) x/relayer -/
section relayer
open Goat.Relayer

theorem hasDup_eq_false {α} [BEq α] [LawfulBEq α] : ∀ l : List α, hasDup l = false ↔ l.Nodup
  | [] => by simp [hasDup]
  | x :: xs => by
    simp only [hasDup, Bool.or_eq_false_iff, hasDup_eq_false xs, List.nodup_cons]
    constructor
    · rintro ⟨h1, h2⟩; exact ⟨by simpa using h1, h2⟩
    · rintro ⟨h1, h2⟩; exact ⟨by simpa using h1, h2⟩

/-- the loop over `Relayer.Voters` passes exactly when the list has no repetition, does not contain
    the proposer, and every member has a voter record -/
theorem checkVoters_none (proposer : String) (known : List String) : ∀ (vs seen : List String),
    checkVoters proposer known vs seen = none ↔
      (vs.Nodup ∧ (∀ v ∈ vs, v ∉ seen) ∧ proposer ∉ vs ∧ ∀ v ∈ vs, v ∈ known)
  | [], seen => by simp [checkVoters]
  | v :: vs, seen => by
    unfold checkVoters
    by_cases h1 : seen.contains v = true
    · simp only [h1, if_true]
      constructor
      · intro h; cases h
      · rintro ⟨_, h, _, _⟩
        exact absurd (by simpa using h1) (h v (List.mem_cons_self ..))
    · simp only [h1, if_false, Bool.false_eq_true]
      by_cases h2 : (v == proposer) = true
      · simp only [h2, if_true]
        constructor
        · intro h; cases h
        · rintro ⟨_, _, h, _⟩
          exact absurd (by simp at h2; simp [h2]) h
      · simp only [h2, if_false, Bool.false_eq_true]
        by_cases h3 : known.contains v = true
        · simp only [h3, Bool.not_true, if_false, Bool.false_eq_true, checkVoters_none proposer known vs (v :: seen)]
          simp only [List.nodup_cons, List.mem_cons, not_or]
          have h1' : v ∉ seen := by simpa using h1
          have h2' : ¬ proposer = v := by intro e; simp [e] at h2
          have h3' : v ∈ known := by simpa using h3
          constructor
          · rintro ⟨hn, hs, hp, hk⟩
            refine ⟨⟨fun hv => (hs v hv).1 rfl, hn⟩, ?_, ⟨h2', hp⟩, ?_⟩
            · rintro w (rfl | hw)
              · exact h1'
              · exact (hs w hw).2
            · rintro w (rfl | hw)
              · exact h3'
              · exact hk w hw
          · rintro ⟨⟨hv, hn⟩, hs, ⟨_, hp⟩, hk⟩
            refine ⟨hn, ?_, hp, fun w hw => hk w (Or.inr hw)⟩
            intro w hw
            exact ⟨fun e => hv (e ▸ hw), hs w (Or.inr hw)⟩
        · simp only [h3, Bool.not_false, if_true]
          constructor
          · intro h; cases h
          · rintro ⟨_, _, _, h⟩
            exact absurd (by simpa using h _ (List.mem_cons_self ..)) h3

/-- voter records filed under their address string -/
def keyedR (addrOf : Bytes → String) (vs : List Voter) : List (String × Voter) := vs.map (fun v => (addrOf v.address, v))

/-- the boarding queue rebuilt by the import, in closed form -/
def queueOf (addrOf : Bytes → String) (st : VStatus) (vs : List Voter) : List String :=
  (vs.filter (fun v => v.status == st)).map (fun v => addrOf v.address)

theorem initVoter_fold (addrOf : Bytes → String) : ∀ (vs : List Voter) (m : List (String × Voter)) (on off : List String),
    (m.map (·.1) ++ vs.map (fun v => addrOf v.address)).Nodup →
    vs.foldl (initVoter addrOf) (m, on, off) =
      (m ++ keyedR addrOf vs, on ++ queueOf addrOf .onBoarding vs, off ++ queueOf addrOf .offBoarding vs)
  | [], m, on, off, _ => by simp [keyedR, queueOf]
  | v :: vs, m, on, off, hn => by
    have hfresh : m.any (fun e => e.1 == addrOf v.address) = false := by
      rw [List.any_eq_false]
      intro e he
      rw [List.nodup_append] at hn
      have := hn.2.2 e.1 (List.mem_map.2 ⟨e, he, rfl⟩) (addrOf v.address) (by simp)
      simpa using this
    have hstep : initVoter addrOf (m, on, off) v =
        (m ++ [(addrOf v.address, v)], on ++ queueOf addrOf .onBoarding [v], off ++ queueOf addrOf .offBoarding [v]) := by
      cases hs : v.status <;> simp [initVoter, Relayer.insert, hfresh, queueOf, hs]
    rw [List.foldl_cons, hstep, initVoter_fold addrOf vs]
    · simp [keyedR, queueOf, List.filter_cons]
      constructor <;> split <;> simp
    · simpa [List.append_assoc] using hn

theorem keyAdd_fold : ∀ (l acc : List Bytes), (acc ++ l).Nodup → l.foldl keyAdd acc = acc ++ l
  | [], acc, _ => by simp
  | k :: ks, acc, hn => by
    have hfresh : k ∉ acc := by
      rw [List.nodup_append] at hn
      exact fun hm => hn.2.2 k hm k (List.mem_cons_self ..) rfl
    rw [List.foldl_cons]
    have : keyAdd acc k = acc ++ [k] := by simp [keyAdd, hfresh]
    rw [this, keyAdd_fold ks (acc ++ [k]) (by simpa [List.append_assoc] using hn)]
    simp

theorem encode_of_decode (k : Bytes) (p : GPubKey) (h : decodePub k = some p) : p.encode = k := by
  cases k with
  | nil => simp [decodePub] at h
  | cons t k =>
    simp only [decodePub] at h
    by_cases h1 : k.length = 33
    · rw [if_pos h1] at h
      by_cases h2 : t = 0
      · rw [if_pos h2] at h; cases h; simp [GPubKey.encode, h2]
      · rw [if_neg h2] at h; cases h
    · rw [if_neg h1] at h
      by_cases h3 : k.length = 32
      · rw [if_pos h3] at h
        by_cases h2 : t = 1
        · rw [if_pos h2] at h; cases h; simp [GPubKey.encode, h2]
        · rw [if_neg h2] at h; cases h
      · rw [if_neg h3] at h; cases h

theorem decode_of_valid (p : GPubKey) (h : p.valid = true) : decodePub p.encode = some p := by
  cases p with
  | secp k =>
    simp only [GPubKey.valid, Bool.and_eq_true, beq_iff_eq] at h
    simp [GPubKey.encode, decodePub, h.1]
  | schnorr k =>
    simp only [GPubKey.valid, beq_iff_eq] at h
    simp [GPubKey.encode, decodePub, h]
  | invalid => simp [GPubKey.valid] at h

/-- **What the import demands of a relayer genesis** — one conjunct per panic of InitGenesis:
    a `Relayer` item is present; the electing period is non-zero; every voter record has a vote key of
    the right length (32 bytes when pending, 96 otherwise); the voter records have distinct addresses;
    the proposer has a voter record and a decodable address; the voter list has no repetition, does not
    contain the proposer and every member has a voter record; every public key is valid; the vote keys
    of the voter records are distinct. -/
def ImportDemands (addrOf : Bytes → String) (dec : String → Bool) (g : RGenesis) (r : RelayerItem) : Prop :=
  g.relayer = some r ∧ paramsValidate g.params = true ∧ (∀ v ∈ g.voters, voterValidate v = true) ∧
  (g.voters.map (fun v => addrOf v.address)).Nodup ∧
  r.proposer ∈ g.voters.map (fun v => addrOf v.address) ∧ dec r.proposer = true ∧
  r.voters.Nodup ∧ r.proposer ∉ r.voters ∧ (∀ v ∈ r.voters, v ∈ g.voters.map (fun v => addrOf v.address)) ∧
  (∀ p ∈ g.pubkeys, p.valid = true) ∧ (g.voters.map (·.voteKey)).Nodup

instance (addrOf : Bytes → String) (dec : String → Bool) (g : RGenesis) (r : RelayerItem) :
    Decidable (ImportDemands addrOf dec g r) := by unfold ImportDemands; infer_instance

/-- the store built by a successful import -/
def importedState (addrOf : Bytes → String) (g : RGenesis) (r : RelayerItem) : Relayer.State :=
  { params := g.params, proposer := r.proposer, voters := r.voters, epoch := r.epoch, lastElected := r.lastElected,
    accepted := r.accepted, seq := g.sequence, randao := g.randao, recs := keyedR addrOf g.voters,
    onBoarding := queueOf addrOf .onBoarding g.voters, offBoarding := queueOf addrOf .offBoarding g.voters,
    pubkeys := g.pubkeys.foldl (fun ks p => keyAdd ks p.encode) [] }

/-- **The import succeeds exactly on the genesis states satisfying `ImportDemands`**, and then builds
    `importedState`: voter records filed under their address, the boarding queue rebuilt from the
    records' status in the order of the voter list. -/
theorem initRelayer_ok_iff (addrOf : Bytes → String) (dec : String → Bool) (g : RGenesis) (s' : Relayer.State) :
    initRelayerGenesis addrOf dec g = .ok s' ↔ ∃ r, ImportDemands addrOf dec g r ∧ s' = importedState addrOf g r := by
  unfold initRelayerGenesis
  by_cases h1 : paramsValidate g.params = true
  rotate_left
  · simp only [h1, Bool.not_false, if_true]
    constructor
    · intro h; cases h
    · rintro ⟨r, ⟨_, hp, _⟩, _⟩; exact absurd hp h1
  simp only [h1, Bool.not_true, Bool.false_eq_true, if_false]
  by_cases h2 : g.voters.all voterValidate = true
  rotate_left
  · simp only [h2, Bool.not_false, if_true]
    constructor
    · intro h; cases h
    · rintro ⟨r, ⟨_, _, hv, _⟩, _⟩; exact absurd (List.all_eq_true.2 hv) h2
  simp only [h2, Bool.not_true, Bool.false_eq_true, if_false]
  cases hr : g.relayer with
  | none =>
    simp only
    constructor
    · intro h; cases h
    · rintro ⟨r, ⟨hr', _⟩, _⟩; rw [hr] at hr'; cases hr'
  | some r =>
    simp only
    by_cases h3 : hasDup (g.voters.map (fun v => addrOf v.address)) = true
    · simp only [h3, if_true]
      constructor
      · intro h; cases h
      · rintro ⟨r', ⟨_, _, _, hn, _⟩, _⟩
        rw [← hasDup_eq_false] at hn; rw [hn] at h3; cases h3
    simp only [h3, Bool.false_eq_true, if_false]
    have h3' : (g.voters.map (fun v => addrOf v.address)).Nodup := (hasDup_eq_false _).1 (by simpa using h3)
    by_cases h4 : (g.voters.map (fun v => addrOf v.address)).contains r.proposer = true
    rotate_left
    · simp only [h4, Bool.not_false, if_true]
      constructor
      · intro h; cases h
      · rintro ⟨r', ⟨hr', _, _, _, hp, _⟩, _⟩
        rw [hr] at hr'; cases hr'
        exact absurd (by simpa using hp) h4
    simp only [h4, Bool.not_true, Bool.false_eq_true, if_false]
    by_cases h5 : dec r.proposer = true
    rotate_left
    · simp only [h5, Bool.not_false, if_true]
      constructor
      · intro h; cases h
      · rintro ⟨r', ⟨hr', _, _, _, _, hd, _⟩, _⟩
        rw [hr] at hr'; cases hr'
        exact absurd hd h5
    simp only [h5, Bool.not_true, Bool.false_eq_true, if_false]
    cases h6 : checkVoters r.proposer (g.voters.map (fun v => addrOf v.address)) r.voters [] with
    | some e =>
      simp only
      constructor
      · intro h; cases h
      · rintro ⟨r', ⟨hr', _, _, _, _, _, hn, hp, hk, _⟩, _⟩
        rw [hr] at hr'; cases hr'
        have := (checkVoters_none r.proposer _ r.voters []).2 ⟨hn, by simp, hp, hk⟩
        rw [this] at h6; cases h6
    | none =>
      simp only
      obtain ⟨c1, _, c3, c4⟩ := (checkVoters_none r.proposer _ r.voters []).1 h6
      by_cases h7 : g.pubkeys.all GPubKey.valid = true
      rotate_left
      · simp only [h7, Bool.not_false, if_true]
        constructor
        · intro h; cases h
        · rintro ⟨r', ⟨_, _, _, _, _, _, _, _, _, hp, _⟩, _⟩
          exact absurd (List.all_eq_true.2 hp) h7
      simp only [h7, Bool.not_true, Bool.false_eq_true, if_false]
      have h8 : g.voters.isEmpty = false := by
        cases hv : g.voters with
        | nil => rw [hv] at h4; simp at h4
        | cons _ _ => rfl
      simp only [h8, Bool.false_eq_true, if_false]
      by_cases h9 : hasDup (g.voters.map (·.voteKey)) = true
      · simp only [h9, if_true]
        constructor
        · intro h; cases h
        · rintro ⟨r', ⟨_, _, _, _, _, _, _, _, _, _, hn⟩, _⟩
          rw [← hasDup_eq_false] at hn; rw [hn] at h9; cases h9
      simp only [h9, Bool.false_eq_true, if_false]
      have hfold := initVoter_fold addrOf g.voters [] [] [] (by simpa using h3')
      simp only [List.nil_append] at hfold
      rw [hfold]
      constructor
      · intro h
        refine ⟨r, ⟨hr, h1, List.all_eq_true.1 h2, h3', by simpa using h4, h5, c1, c3, c4, List.all_eq_true.1 h7,
          (hasDup_eq_false _).1 (by simpa using h9)⟩, ?_⟩
        cases h; rfl
      · rintro ⟨r', ⟨hr', _⟩, rfl⟩
        rw [hr] at hr'; cases hr'; rfl

theorem sortRecs_perm (l : List (String × Voter)) : (sortRecs l).Perm l := List.mergeSort_perm _ _
theorem sortKeys_perm (l : List Bytes) : (sortKeys l).Perm l := List.mergeSort_perm _ _
theorem sortRecs_idem (l : List (String × Voter)) : sortRecs (sortRecs l) = sortRecs l :=
  List.mergeSort_of_pairwise (msort_str_sorted (fun e : String × Voter => e.1) l)
theorem sortKeys_idem (l : List Bytes) : sortKeys (sortKeys l) = sortKeys l :=
  List.mergeSort_of_pairwise (msort_bytes_sorted (fun e : Bytes => e) l)
theorem sortRecs_id (l : List (String × Voter)) (hs : l.Pairwise (fun a b => a.1 < b.1)) : sortRecs l = l :=
  msort_str_id (fun e : String × Voter => e.1) l hs
theorem sortKeys_id (l : List Bytes) (hs : l.Pairwise (fun a b => bytesLt a b = true)) : sortKeys l = l :=
  msort_bytes_id (fun e : Bytes => e) l hs

theorem keyedR_of_keyed (addrOf : Bytes → String) (l : List (String × Voter)) (hk : ∀ e ∈ l, e.1 = addrOf e.2.address) :
    keyedR addrOf (l.map (·.2)) = l := by
  rw [keyedR, List.map_map]
  conv => rhs; rw [← List.map_id l]
  apply List.map_congr_left
  intro e he
  simp only [Function.comp, id]
  rw [← hk e he]

theorem addrs_of_keyed (addrOf : Bytes → String) (l : List (String × Voter)) (hk : ∀ e ∈ l, e.1 = addrOf e.2.address) :
    (l.map (·.2)).map (fun v => addrOf v.address) = l.map (·.1) := by
  rw [List.map_map]
  apply List.map_congr_left
  intro e he
  simp only [Function.comp]
  rw [← hk e he]

theorem queueOf_of_keyed (addrOf : Bytes → String) (st : VStatus) (l : List (String × Voter))
    (hk : ∀ e ∈ l, e.1 = addrOf e.2.address) :
    queueOf addrOf st (l.map (·.2)) = (l.filter (fun e => e.2.status == st)).map (·.1) := by
  rw [queueOf, List.filter_map, List.map_map]
  apply List.map_congr_left
  intro e he
  simp only [Function.comp]
  rw [← hk e (List.mem_filter.1 he).1]

theorem filterMap_decode_encode : ∀ ks : List Bytes, (∀ k ∈ ks, (decodePub k).isSome = true) →
    (ks.filterMap decodePub).map GPubKey.encode = ks
  | [], _ => rfl
  | k :: ks, h => by
    have hk := h k (List.mem_cons_self ..)
    cases hd : decodePub k with
    | none => rw [hd] at hk; cases hk
    | some p =>
      rw [List.filterMap_cons, hd]
      simp only [List.map_cons, encode_of_decode k p hd]
      rw [filterMap_decode_encode ks (fun x hx => h x (List.mem_cons_of_mem _ hx))]

theorem filterMap_encode_decode : ∀ ps : List GPubKey, (∀ p ∈ ps, p.valid = true) →
    (ps.map GPubKey.encode).filterMap decodePub = ps
  | [], _ => rfl
  | p :: ps, h => by
    rw [List.map_cons, List.filterMap_cons, decode_of_valid p (h p (List.mem_cons_self ..))]
    simp only
    rw [filterMap_encode_decode ps (fun x hx => h x (List.mem_cons_of_mem _ hx))]

/-- **Group well-formedness demanded by the import, read on a store**: electing period non-zero;
    vote keys of the right length; records filed under their own address, addresses distinct; the
    proposer has a record and a decodable address; the voter list has no repetition, does not contain
    the proposer, and every member has a record; stored public keys decode to valid keys and are
    distinct; vote keys distinct. -/
def RImportable (addrOf : Bytes → String) (dec : String → Bool) (s : Relayer.State) : Prop :=
  paramsValidate s.params = true ∧ (∀ e ∈ s.recs, voterValidate e.2 = true) ∧
  (∀ e ∈ s.recs, e.1 = addrOf e.2.address) ∧ (s.recs.map (·.1)).Nodup ∧
  s.proposer ∈ s.recs.map (·.1) ∧ dec s.proposer = true ∧
  s.voters.Nodup ∧ s.proposer ∉ s.voters ∧ (∀ v ∈ s.voters, v ∈ s.recs.map (·.1)) ∧
  (∀ k ∈ s.pubkeys, (decodePub k).map GPubKey.valid = some true) ∧ s.pubkeys.Nodup ∧
  (s.recs.map (·.2.voteKey)).Nodup

instance (addrOf : Bytes → String) (dec : String → Bool) (s : Relayer.State) : Decidable (RImportable addrOf dec s) := by
  unfold RImportable; infer_instance

/-- `s'` reproduces the relayer store `s`: everything identical except that the association lists
    are in key order and the boarding queue is the status-derived queue in key order. -/
structure RReproduces (s s' : Relayer.State) : Prop where
  params : s'.params = s.params
  proposer : s'.proposer = s.proposer
  voters : s'.voters = s.voters
  epoch : s'.epoch = s.epoch
  lastElected : s'.lastElected = s.lastElected
  accepted : s'.accepted = s.accepted
  seq : s'.seq = s.seq
  randao : s'.randao = s.randao
  recs : s'.recs = sortRecs s.recs
  pubkeys : s'.pubkeys = sortKeys s.pubkeys
  onBoarding : s'.onBoarding = statusQueue s .onBoarding
  offBoarding : s'.offBoarding = statusQueue s .offBoarding

/-- the `Relayer` item of a store -/
def itemOf (s : Relayer.State) : RelayerItem := ⟨s.epoch, s.proposer, s.voters, s.lastElected, s.accepted⟩

/-- the genesis produced by a successful export -/
def exportedOf (s : Relayer.State) : RGenesis :=
  { params := s.params, relayer := some (itemOf s), sequence := s.seq, voters := (sortRecs s.recs).map (·.2),
    pubkeys := (sortKeys s.pubkeys).filterMap decodePub, randao := s.randao }

/-- **(e) import ∘ export for x/relayer.**  A store satisfying the group well-formedness conditions
    is exported without panic, its export is imported without panic, the imported store reproduces
    it, and a second export is identical to the first. -/
theorem relayer_import_export (addrOf : Bytes → String) (dec : String → Bool) (s : Relayer.State)
    (wf : RImportable addrOf dec s) :
    ∃ g s', exportRelayerGenesis s = .ok g ∧ initRelayerGenesis addrOf dec g = .ok s' ∧ RReproduces s s' ∧
      exportRelayerGenesis s' = .ok g := by
  obtain ⟨w1, w2, w3, w4, w5, w6, w7, w8, w9, w10, w11, w12⟩ := wf
  have hmem : ∀ e, e ∈ sortRecs s.recs ↔ e ∈ s.recs := fun e => (sortRecs_perm _).mem_iff
  have hk : ∀ e ∈ sortRecs s.recs, e.1 = addrOf e.2.address := fun e he => w3 e ((hmem e).1 he)
  have hdecodable : ∀ k ∈ sortKeys s.pubkeys, (decodePub k).isSome = true := by
    intro k hk
    have := w10 k ((sortKeys_perm _).mem_iff.1 hk)
    cases hd : decodePub k with
    | none => rw [hd] at this; cases this
    | some p => rfl
  have hall : (sortKeys s.pubkeys).all (fun k => (decodePub k).isSome) = true := List.all_eq_true.2 hdecodable
  have hexp : exportRelayerGenesis s = .ok (exportedOf s) := by
    simp [exportRelayerGenesis, hall, exportedOf, itemOf]
  refine ⟨exportedOf s, importedState addrOf (exportedOf s) (itemOf s), hexp, ?_⟩
  have haddrs := addrs_of_keyed addrOf (sortRecs s.recs) hk
  have hkeysperm : ((sortRecs s.recs).map (·.1)).Perm (s.recs.map (·.1)) := (sortRecs_perm _).map _
  have hdem : ImportDemands addrOf dec (exportedOf s) (itemOf s) := by
    refine ⟨rfl, w1, ?_, ?_, ?_, w6, w7, w8, ?_, ?_, ?_⟩
    · intro v hv
      obtain ⟨e, he, rfl⟩ := List.mem_map.1 hv
      exact w2 e ((hmem e).1 he)
    · show (((sortRecs s.recs).map (·.2)).map (fun v => addrOf v.address)).Nodup
      rw [haddrs]; exact hkeysperm.nodup_iff.2 w4
    · show s.proposer ∈ ((sortRecs s.recs).map (·.2)).map (fun v => addrOf v.address)
      rw [haddrs]; exact hkeysperm.mem_iff.2 w5
    · intro v hv
      show v ∈ ((sortRecs s.recs).map (·.2)).map (fun v => addrOf v.address)
      rw [haddrs]; exact hkeysperm.mem_iff.2 (w9 v hv)
    · intro p hp
      obtain ⟨k, hk', hkp⟩ := List.mem_filterMap.1 hp
      have := w10 k ((sortKeys_perm _).mem_iff.1 hk')
      rw [hkp] at this
      simpa using this
    · show (((sortRecs s.recs).map (·.2)).map (·.voteKey)).Nodup
      rw [List.map_map]
      exact (((sortRecs_perm s.recs).map _).nodup_iff).2 w12
  have himp := (initRelayer_ok_iff addrOf dec _ _).2 ⟨_, hdem, rfl⟩
  have hrecs : keyedR addrOf ((sortRecs s.recs).map (·.2)) = sortRecs s.recs := keyedR_of_keyed addrOf _ hk
  have hpk : ((sortKeys s.pubkeys).filterMap decodePub).foldl (fun ks p => keyAdd ks p.encode) [] = sortKeys s.pubkeys := by
    have := keyAdd_fold (((sortKeys s.pubkeys).filterMap decodePub).map GPubKey.encode) []
      (by rw [filterMap_decode_encode _ hdecodable]; simpa using (sortKeys_perm s.pubkeys).nodup_iff.2 w11)
    rw [List.foldl_map] at this
    rw [this, filterMap_decode_encode _ hdecodable]; simp
  refine ⟨himp, ?_, ?_⟩
  · refine ⟨rfl, rfl, rfl, rfl, rfl, rfl, rfl, rfl, hrecs, hpk, ?_, ?_⟩
    · exact queueOf_of_keyed addrOf .onBoarding _ hk
    · exact queueOf_of_keyed addrOf .offBoarding _ hk
  · simp only [exportRelayerGenesis, importedState, exportedOf, itemOf]
    simp only [hrecs, hpk, sortRecs_idem, sortKeys_idem, hall, Bool.not_true, Bool.false_eq_true, if_false]

theorem mem_statusQueue (s : Relayer.State) (st : VStatus) (a : String) :
    a ∈ statusQueue s st ↔ ∃ v, (a, v) ∈ s.recs ∧ v.status = st := by
  simp only [statusQueue, List.mem_map, List.mem_filter, beq_iff_eq]
  constructor
  · rintro ⟨e, ⟨he, hs⟩, rfl⟩
    exact ⟨e.2, (sortRecs_perm _).mem_iff.1 he, hs⟩
  · rintro ⟨v, hv, hs⟩
    exact ⟨(a, v), ⟨(sortRecs_perm _).mem_iff.2 hv, hs⟩, rfl⟩

/-- the boarding queue the running chain maintains: its members are exactly the records with the
    corresponding status -/
def QueueDerived (s : Relayer.State) : Prop :=
  (∀ a, a ∈ s.onBoarding ↔ ∃ v, (a, v) ∈ s.recs ∧ v.status = .onBoarding) ∧
  (∀ a, a ∈ s.offBoarding ↔ ∃ v, (a, v) ∈ s.recs ∧ v.status = .offBoarding)

/-- the import establishes `QueueDerived`; when the original satisfies it the queues have the same
    members -/
theorem RReproduces.queue {s s' : Relayer.State} (r : RReproduces s s') :
    QueueDerived s' ∧ (QueueDerived s →
      (∀ a, a ∈ s'.onBoarding ↔ a ∈ s.onBoarding) ∧ (∀ a, a ∈ s'.offBoarding ↔ a ∈ s.offBoarding)) := by
  have hm : ∀ e, e ∈ s'.recs ↔ e ∈ s.recs := fun e => by rw [r.recs]; exact (sortRecs_perm _).mem_iff
  refine ⟨⟨?_, ?_⟩, ?_⟩
  · intro a; rw [r.onBoarding, mem_statusQueue]; simp only [hm]
  · intro a; rw [r.offBoarding, mem_statusQueue]; simp only [hm]
  · rintro ⟨q1, q2⟩
    exact ⟨fun a => by rw [r.onBoarding, mem_statusQueue, q1], fun a => by rw [r.offBoarding, mem_statusQueue, q2]⟩

/-- **(e) export ∘ import for x/relayer**: a genesis satisfying the import's demands whose voter
    records and public keys are in key order (the form every export has) is returned verbatim by
    exporting the imported store. -/
theorem relayer_export_import (addrOf : Bytes → String) (dec : String → Bool) (g : RGenesis) (r : RelayerItem)
    (hd : ImportDemands addrOf dec g r)
    (hv : g.voters.Pairwise (fun a b => addrOf a.address < addrOf b.address))
    (hp : g.pubkeys.Pairwise (fun a b => bytesLt a.encode b.encode = true)) :
    ∃ s', initRelayerGenesis addrOf dec g = .ok s' ∧ exportRelayerGenesis s' = .ok g := by
  refine ⟨_, (initRelayer_ok_iff addrOf dec g _).2 ⟨r, hd, rfl⟩, ?_⟩
  obtain ⟨d1, _, _, _, _, _, _, _, _, d10, _⟩ := hd
  have hpn : (g.pubkeys.map GPubKey.encode).Nodup := nodup_of_sorted_bytes GPubKey.encode g.pubkeys hp
  have hpk : g.pubkeys.foldl (fun ks p => keyAdd ks p.encode) [] = g.pubkeys.map GPubKey.encode := by
    have := keyAdd_fold (g.pubkeys.map GPubKey.encode) [] (by simpa using hpn)
    rw [List.foldl_map] at this
    rw [this]; simp
  have hsk : sortKeys (g.pubkeys.map GPubKey.encode) = g.pubkeys.map GPubKey.encode :=
    sortKeys_id _ (by rw [List.pairwise_map]; exact hp)
  have hsr : sortRecs (keyedR addrOf g.voters) = keyedR addrOf g.voters :=
    sortRecs_id _ (by rw [keyedR, List.pairwise_map]; exact hv)
  have hvs : (keyedR addrOf g.voters).map (·.2) = g.voters := by
    rw [keyedR, List.map_map]
    conv => rhs; rw [← List.map_id g.voters]
    rfl
  have hall : (g.pubkeys.map GPubKey.encode).all (fun k => (decodePub k).isSome) = true := by
    rw [List.all_eq_true]
    intro k hk
    obtain ⟨p, hp', rfl⟩ := List.mem_map.1 hk
    rw [decode_of_valid p (d10 p hp')]; rfl
  simp only [exportRelayerGenesis, importedState, hpk, hsk, hsr, hvs, hall, Bool.not_true, Bool.false_eq_true,
    if_false, filterMap_encode_decode g.pubkeys d10]
  cases g
  cases r
  simp only at d1
  simp [d1]

end relayer

/-! ## executable forms -/

theorem sameSet_iff {α} [BEq α] [LawfulBEq α] (a b : List α) : sameSet a b = true ↔ ∀ x, x ∈ a ↔ x ∈ b := by
  simp only [sameSet, Bool.and_eq_true, List.all_eq_true, List.contains_iff_mem]
  constructor
  · rintro ⟨h1, h2⟩ x; exact ⟨h1 x, h2 x⟩
  · intro h; exact ⟨fun x => (h x).1, fun x => (h x).2⟩

theorem mem_thresholdsOf (toks : List (String × Token)) (d : String) (x : Int) :
    (d, x) ∈ thresholdsOf toks ↔ x ≠ 0 ∧ ∃ t, (d, t) ∈ toks ∧ t.threshold = x := by
  simp only [thresholdsOf, List.mem_map, List.mem_filter, bne_iff_ne, ne_eq, Prod.mk.injEq]
  constructor
  · rintro ⟨t, ⟨ht, hz⟩, rfl, rfl⟩; exact ⟨hz, t.2, ht, rfl⟩
  · rintro ⟨hz, t, ht, rfl⟩; exact ⟨(d, t), ⟨ht, hz⟩, rfl, rfl⟩

/-- `Derived` is decidable: it is what the executable monitor `Genesis.derivedOk` computes -/
theorem derivedOk_iff (s : State) : derivedOk s = true ↔ Derived s := by
  simp only [derivedOk, Bool.and_eq_true, decide_eq_true_eq, sameSet_iff]
  constructor
  · rintro ⟨⟨⟨⟨⟨⟨⟨h1, h2⟩, h3⟩, h4⟩, h5⟩, h6⟩, h7⟩, h8⟩
    refine ⟨?_, h2, ?_, h4, ?_, h6, h7, ?_⟩
    · intro d a x; rw [h1, mem_idxOf]; simp only [isAP_iff]
    · intro p a; rw [h3, mem_rankOf]; simp only [isAP_iff]
    · intro a p; rw [h5, mem_valsetOf]
    · intro d x; rw [h8, mem_thresholdsOf]
  · intro hd
    refine ⟨⟨⟨⟨⟨⟨⟨?_, hd.idx_nodup⟩, ?_⟩, hd.rank_nodup⟩, ?_⟩, hd.valset_nodup⟩, hd.thr_sorted⟩, ?_⟩
    · rintro ⟨⟨d, a⟩, x⟩; rw [hd.idx_mem, mem_idxOf]; simp only [isAP_iff]
    · rintro ⟨p, a⟩; rw [hd.rank_mem, mem_rankOf]; simp only [isAP_iff]
    · rintro ⟨a, p⟩; rw [hd.valset_mem, mem_valsetOf]
    · rintro ⟨d, x⟩; rw [hd.thr_mem, mem_thresholdsOf]

instance (s : State) : Decidable (Derived s) := decidable_of_iff _ (derivedOk_iff s)

section relayer
open Goat.Relayer

theorem queueOk_iff (s : Relayer.State) : queueOk s = true ↔ QueueDerived s := by
  simp only [queueOk, Bool.and_eq_true, sameSet_iff, QueueDerived, List.mem_map, List.mem_filter, beq_iff_eq]
  have key : ∀ (st : VStatus) (a : String),
      (∃ e : String × Voter, (e ∈ s.recs ∧ e.2.status = st) ∧ e.1 = a) ↔ ∃ v, (a, v) ∈ s.recs ∧ v.status = st := by
    intro st a
    constructor
    · rintro ⟨e, ⟨he, hs⟩, rfl⟩; exact ⟨e.2, he, hs⟩
    · rintro ⟨v, hv, hs⟩; exact ⟨(a, v), ⟨hv, hs⟩, rfl⟩
  simp only [key]

instance (s : Relayer.State) : Decidable (QueueDerived s) := decidable_of_iff _ (queueOk_iff s)

end relayer

/-! ## the executable round-trip check never fails on well-formed stores -/

theorem vget_of_mem (s : State) (hn : (s.validators.map (·.1)).Nodup) (a : Bytes) (v : Validator)
    (hv : (a, v) ∈ s.validators) : vget s a = some v := by
  unfold vget
  cases hf : s.validators.find? (fun e => e.1 == a) with
  | none =>
    rw [List.find?_eq_none] at hf
    exact absurd (by simp) (hf (a, v) hv)
  | some e =>
    have he := List.mem_of_find?_eq_some hf
    have hea : e.1 = a := by simpa using List.find?_some hf
    obtain ⟨a', v'⟩ := e
    simp only at hea
    subst hea
    simp only [Option.map_some, Option.some.injEq]
    exact assoc_unique _ hn a' v' v he hv

theorem lockingRoundTripOk_of (h : Bytes → Bytes) (s : State) (wf : WfState h s) (hd : Derived s) :
    lockingRoundTripOk h s = true := by
  obtain ⟨s', ups, hok, hr, hu, hexp⟩ := import_export h s wf hd
  obtain ⟨_, hvn, _⟩ := wf
  unfold lockingRoundTripOk
  rw [hok]
  simp only [Bool.and_eq_true, beq_iff_eq, sameSet_iff]
  refine ⟨⟨⟨⟨⟨⟨⟨⟨⟨⟨⟨⟨⟨⟨hr.params, ?_⟩, ?_⟩, ?_⟩, hr.nonce⟩, hr.pool⟩, hr.qRewards⟩, hr.qUnlocks⟩, ?_⟩,
    hr.lockingIdx⟩, hr.ranking⟩, hr.valset⟩, hr.threshold⟩, ?_⟩, hexp⟩
  · intro x; rw [hr.validators]; exact (sortVals_perm _).mem_iff
  · intro x; rw [hr.tokens]; exact (sortTokens_perm _).mem_iff
  · intro x; rw [hr.slashed]; exact (sortCoins_perm _).mem_iff
  · intro x; rw [hr.unlockQueue]; exact (sortQueue_perm _).mem_iff
  · intro u
    rw [hu u, List.mem_map]
    constructor
    · rintro ⟨a, v, hv, hvs, hpk⟩
      refine ⟨(a, u.power), hvs, ?_⟩
      simp only [pubkeyOf, vget_of_mem s hvn a v hv, Option.map_some, Option.getD_some, hpk]
    · rintro ⟨⟨a, p⟩, hvs, rfl⟩
      obtain ⟨v, hv, _, _⟩ := (hd.valset_mem a p).1 hvs
      refine ⟨a, v, hv, hvs, ?_⟩
      simp only [pubkeyOf, vget_of_mem s hvn a v hv, Option.map_some, Option.getD_some]

/-- the address oracle read off a well-formed store agrees with the real derivation on its keys -/
theorem keyOracle_wf (h : Bytes → Bytes) (s : State) (wf : WfState h s) : WfState (keyOracle s) s := by
  obtain ⟨hk, rest⟩ := wf
  refine ⟨?_, rest⟩
  intro e he
  unfold keyOracle
  cases hf : s.validators.find? (fun e' => e'.2.pubkey == e.2.pubkey) with
  | none =>
    rw [List.find?_eq_none] at hf
    exact absurd (by simp) (hf e he)
  | some e' =>
    have he' := List.mem_of_find?_eq_some hf
    have hpk : e'.2.pubkey = e.2.pubkey := by simpa using List.find?_some hf
    simp only [Option.map_some, Option.getD_some]
    rw [hk e he, hk e' he', hpk]

section relayer
open Goat.Relayer

theorem relayerRoundTripOk_of (addrOf : Bytes → String) (dec : String → Bool) (s : Relayer.State)
    (wf : RImportable addrOf dec s) (hq : QueueDerived s) : relayerRoundTripOk addrOf dec s = true := by
  obtain ⟨g, s', hexp, himp, hr, hexp'⟩ := relayer_import_export addrOf dec s wf
  obtain ⟨q1, q2⟩ := hr.queue.2 hq
  unfold relayerRoundTripOk
  rw [hexp]
  simp only [himp, hexp']
  simp only [Bool.and_eq_true, beq_iff_eq, sameSet_iff, BEq.rfl, and_true]
  refine ⟨⟨⟨⟨⟨⟨⟨⟨⟨⟨⟨hr.params, hr.proposer⟩, hr.voters⟩, hr.epoch⟩, hr.lastElected⟩, hr.accepted⟩, hr.seq⟩, hr.randao⟩,
    ?_⟩, ?_⟩, q1⟩, q2⟩
  · intro x; rw [hr.recs]; exact (sortRecs_perm _).mem_iff
  · intro x; rw [hr.pubkeys]; exact (sortKeys_perm _).mem_iff

theorem addrOracle_wf (addrOf : Bytes → String) (dec : String → Bool) (s : Relayer.State)
    (wf : RImportable addrOf dec s) (hp : s.proposer ≠ "") : RImportable (addrOracle s) (fun a => a != "") s := by
  obtain ⟨w1, w2, w3, w4, w5, _, rest⟩ := wf
  refine ⟨w1, w2, ?_, w4, w5, by simpa using hp, rest⟩
  intro e he
  unfold addrOracle
  cases hf : s.recs.find? (fun e' => e'.2.address == e.2.address) with
  | none =>
    rw [List.find?_eq_none] at hf
    exact absurd (by simp) (hf e he)
  | some e' =>
    have he' := List.mem_of_find?_eq_some hf
    have hpk : e'.2.address = e.2.address := by simpa using List.find?_some hf
    simp only [Option.map_some, Option.getD_some]
    rw [w3 e he, w3 e' he', hpk]

/-- **The executable C18 check of the driver holds on every pair of stores that satisfies the
    invariants**: well-formed primary data, `Derived`, importable relayer group, status-derived
    boarding queue.  Hence a `false` from `Genesis.roundTripOk` on a state observed on the real
    application exhibits a violated invariant or a genuine export/import defect. -/
theorem roundTripOk_of (h : Bytes → Bytes) (addrOf : Bytes → String) (dec : String → Bool)
    (s : Locking.State) (r : Relayer.State) (wf : WfState h s) (hd : Derived s)
    (rwf : RImportable addrOf dec r) (hq : QueueDerived r) (hp : r.proposer ≠ "") :
    roundTripOk s r = true := by
  unfold roundTripOk
  rw [lockingRoundTripOk_of _ s (keyOracle_wf h s wf) hd,
    relayerRoundTripOk_of _ _ r (addrOracle_wf addrOf dec r rwf hp) hq]
  rfl

end relayer

/-! ## the hypotheses are satisfiable: concrete stores -/
namespace Example

/-- a stand-in for hash160 (any function works; the theorems are parametric in it) -/
def h (pk : Bytes) : Bytes := 9 :: pk

def p0 : Params :=
  { unlockDuration := 1, exitingDuration := 2, downtimeJail := 3, maxValidators := 4, signedBlocksWindow := 5,
    maxMissed := 6, slashDoubleSign := 7, slashDowntime := 8, halvingInterval := 9, initialReward := 10 }
def vA : Validator :=
  { pubkey := [2, 1], power := 5, locking := [("btc", 3), ("goat", 7)], reward := 1, gasReward := 2, status := .active,
    offset := 1, missed := 0, jailedUntil := 0 }
def vP : Validator :=
  { pubkey := [2, 2], power := 0, locking := [("goat", 1)], reward := 0, gasReward := 0, status := .pending,
    offset := 0, missed := 0, jailedUntil := 0 }
def vI : Validator :=
  { pubkey := [2, 3], power := 0, locking := [("btc", 9)], reward := 0, gasReward := 0, status := .inactive,
    offset := 0, missed := 0, jailedUntil := 0 }

/-- an active, a pending (no power yet: unranked) and an inactive validator; two tokens with
    thresholds; derived lists in an order the running chain could have produced -/
def s0 : State :=
  { params := p0, validators := [([9, 2, 1], vA), ([9, 2, 2], vP), ([9, 2, 3], vI)],
    lockingIdx := [(("goat", [9, 2, 2]), 1), (("btc", [9, 2, 1]), 3), (("goat", [9, 2, 1]), 7)],
    ranking := [(5, [9, 2, 1])], valset := [([9, 2, 1], 5)],
    tokens := [("btc", { weight := 1, threshold := 2 }), ("goat", { weight := 1, threshold := 5 })],
    threshold := [("btc", 2), ("goat", 5)], slashed := [("btc", 4)], nonce := 3,
    pool := { goat := 1, gas := 2, remain := 3 }, qRewards := [{ id := 1, recipient := [7], goat := 1, gas := 0 }],
    qUnlocks := [], unlockQueue := [(5, [{ id := 1, token := [], recipient := [1], amount := 3 }])] }

/-- the same store with the association lists in insertion (non-key) order -/
def s1 : State :=
  { s0 with validators := [([9, 2, 3], vI), ([9, 2, 1], vA), ([9, 2, 2], vP)],
            tokens := [("goat", { weight := 1, threshold := 5 }), ("btc", { weight := 1, threshold := 2 })] }

example : WfState h s0 := by decide
example : Canonical s0 := by decide
example : Derived s0 := by decide
example : WfState h s1 ∧ Derived s1 ∧ ¬ Canonical s1 := by decide

/-- `import_export` applies to the concrete stores -/
example := import_export h s0 (by decide) (by decide)
example := import_export h s1 (by decide) (by decide)

/-- `Derived` is not vacuous: dropping the pending validator's index entry violates it -/
example : ¬ Derived { s0 with lockingIdx := [(("btc", [9, 2, 1]), 3), (("goat", [9, 2, 1]), 7)] } := by decide
/-- … and so does a ranking entry for the power-less pending validator (the defect repaired in
    InitGenesis: "do not rank zero-power validators when importing genesis") -/
example : ¬ Derived { s0 with ranking := [(5, [9, 2, 1]), (0, [9, 2, 2])] } := by decide

open Goat.Relayer

def addrOf (a : Bytes) : String :=
  if a = [1] then "a" else if a = [2] then "b" else if a = [3] then "c" else if a = [4] then "d"
  else if a = [5] then "e" else if a = [6] then "f" else "?"
def dec (a : String) : Bool := a != ""
def key96 (b : UInt8) : Bytes := List.replicate 96 b
def key32 (b : UInt8) : Bytes := List.replicate 32 b

/-- proposer `a`, voter `b`, `c` and `d` on-boarding (`d` arrived first), `e` pending -/
def r0 : Relayer.State :=
  { params := { electingPeriod := 600, acceptProposerTimeout := 0 }, proposer := "a", voters := ["b"], epoch := 3,
    lastElected := 7, accepted := true, seq := 9, randao := [1, 2],
    recs := [("a", { address := [1], voteKey := key96 1, status := .activated, height := 0 }),
             ("b", { address := [2], voteKey := key96 2, status := .activated, height := 0 }),
             ("c", { address := [3], voteKey := key96 3, status := .onBoarding, height := 4 }),
             ("d", { address := [4], voteKey := key96 4, status := .onBoarding, height := 3 }),
             ("e", { address := [5], voteKey := key32 5, status := .pending, height := 5 })],
    onBoarding := ["d", "c"], offBoarding := [], pubkeys := [0 :: 2 :: List.replicate 32 7] }

example : RImportable addrOf dec r0 := by decide
example : QueueDerived r0 := by decide

example := relayer_import_export addrOf dec r0 (by decide)
theorem s0_r0_check : roundTripOk s0 r0 = true :=
  roundTripOk_of h addrOf dec s0 r0 (by decide) (by decide) (by decide) (by decide) (by decide)

end Example

/-! ## findings (counterexamples, proved by evaluation) -/
namespace Finding
open Example Goat.Relayer

def crypto : Crypto :=
  { sha256 := id, hash160 := id, aggVerify := fun _ _ _ => true, blsVerify := fun _ _ _ => true,
    ecdsaVerify := fun _ _ _ => true, addrOf := addrOf }

/-- the genesis a store exports when its records and keys are already in key order -/
def exportLit (s : Relayer.State) : RGenesis :=
  { params := s.params, relayer := some (itemOf s), sequence := s.seq, voters := s.recs.map (·.2),
    pubkeys := s.pubkeys.filterMap decodePub, randao := s.randao }

theorem export_lit (s : Relayer.State) (h1 : s.recs.Pairwise (fun a b => a.1 < b.1))
    (h2 : s.pubkeys.Pairwise (fun a b => bytesLt a b = true))
    (h3 : s.pubkeys.all (fun k => (decodePub k).isSome) = true) : exportRelayerGenesis s = .ok (exportLit s) := by
  simp [exportRelayerGenesis, sortRecs_id _ h1, sortKeys_id _ h2, h3, exportLit, itemOf]

/-! ### F-A  import refuses a store the consensus layer can reach: two voters with one vote-key hash

  `ProcessRelayerRequest` files a pending voter per *address* and never compares vote-key hashes;
  `InitGenesis` panics on a repeated vote key.  (Whether the execution-layer contract excludes the
  repeated hash is outside /repo.) -/

/-- proposer `a`, voter `b`, no boarding -/
def rBase : Relayer.State := { r0 with recs := r0.recs.take 2, onBoarding := [] }

/-- the store after a block whose execution-layer requests add two voters with the same key hash -/
def rDup : Relayer.State :=
  processRequest crypto rBase 7 [{ voter := [5], keyHash := key32 9 }, { voter := [6], keyHash := key32 9 }] []

theorem duplicate_key_hash_blocks_import :
    RImportable addrOf dec rBase ∧ QueueDerived rBase ∧
    exportRelayerGenesis rDup = .ok (exportLit rDup) ∧
    initRelayerGenesis addrOf dec (exportLit rDup) = .panic "duplicated-vote-key" :=
  ⟨by decide, by decide, export_lit rDup (by decide) (by decide) (by decide), by decide⟩

/-! ### F-B  the boarding queue is rebuilt in key order, and its order decides the next proposer

  The running chain queues on-boarding voters in arrival order; the import queues them in the order
  of the exported voter records (address-string order).  `EndBlocker` appends the queue to
  `Relayer.Voters` and elects the proposer *by position*.  The two stores below answer every query
  alike and export the same genesis, yet elect different proposers at the next election. -/

def proposerAfter : Outcome Relayer.State → Option String
  | .ok t => some t.proposer
  | _ => none

/-- the store imported from the export of `r0` -/
def r0' : Relayer.State := importedState addrOf (exportLit r0) (itemOf r0)

theorem boarding_order_changes_next_proposer :
    RImportable addrOf dec r0 ∧ QueueDerived r0 ∧
    exportRelayerGenesis r0 = .ok (exportLit r0) ∧ initRelayerGenesis addrOf dec (exportLit r0) = .ok r0' ∧
    exportRelayerGenesis r0' = .ok (exportLit r0) ∧
    r0.onBoarding = ["d", "c"] ∧ r0'.onBoarding = ["c", "d"] ∧
    proposerAfter (endBlocker crypto r0 1000) = some "d" ∧ proposerAfter (endBlocker crypto r0' 1000) = some "c" :=
  ⟨by decide, by decide, export_lit r0 (by decide) (by decide) (by decide),
   (initRelayer_ok_iff addrOf dec _ _).2 ⟨itemOf r0, by decide, rfl⟩,
   export_lit r0' (by decide) (by decide) (by decide), by decide, by decide, by decide, by decide⟩

end Finding

/-! ## bundle -/
section bundle
open Goat.Relayer

/-- **C18 (partial).**  Full statement: for *every reachable* application state, import ∘ export
    reproduces the state (see the file header).  Proved: for every pair of stores satisfying the
    invariants `WfState`, `Derived`, `RImportable`, `QueueDerived` — which the theorems of C13/C16 are
    to establish for reachable committed states, except vote-key distinctness (finding F-A) — both
    modules export and re-import without panic, the imported stores reproduce the originals (primary
    data identical, derived collections equal as sets, boarding queue with the same members), the
    validator updates handed to the consensus engine are the recorded validator set, and the second
    export is identical to the first. -/
theorem c18_round_trip_partial (h : Bytes → Bytes) (addrOf : Bytes → String) (dec : String → Bool)
    (s : Locking.State) (r : Relayer.State)
    (wf : WfState h s) (hd : Derived s) (rwf : RImportable addrOf dec r) (hq : QueueDerived r) :
    (∃ s' ups, initGenesis h (exportGenesis s) = .ok (s', ups) ∧ Reproduces s s' ∧
      (∀ u, u ∈ ups ↔ ∃ a v, (a, v) ∈ s.validators ∧ (a, u.power) ∈ s.valset ∧ v.pubkey = u.pubkey) ∧
      exportGenesis s' = exportGenesis s) ∧
    (∃ g r', exportRelayerGenesis r = .ok g ∧ initRelayerGenesis addrOf dec g = .ok r' ∧ RReproduces r r' ∧
      QueueDerived r' ∧ (∀ a, a ∈ r'.onBoarding ↔ a ∈ r.onBoarding) ∧ (∀ a, a ∈ r'.offBoarding ↔ a ∈ r.offBoarding) ∧
      exportRelayerGenesis r' = .ok g) := by
  refine ⟨import_export h s wf hd, ?_⟩
  obtain ⟨g, r', h1, h2, h3, h4⟩ := relayer_import_export addrOf dec r rwf
  exact ⟨g, r', h1, h2, h3, h3.queue.1, (h3.queue.2 hq).1, (h3.queue.2 hq).2, h4⟩

end bundle

end Goat.C18
