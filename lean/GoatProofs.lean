import GoatProofs.C01
import GoatProofs.C04
import GoatProofs.C11
import GoatProofs.C12
import GoatProofs.C13
import GoatProofs.C14
import GoatProofs.C15
