import GoatModel.Prelude
import GoatModel.Sha256
import GoatModel.Wire
import GoatModel.Merkle
