/-
  Driver: reads trace lines on stdin, runs the model on every `op` line and prints one `=> …`
  line per operation.  Core Lean only.
-/
import GoatModel.Prelude
import GoatModel.Sha256
import GoatModel.Wire
import GoatModel.Merkle
open Goat Goat.Wire

structure DState where
  dummy : Nat := 0

def stepOp (s : DState) (o : Op) : DState × String :=
  match o.kind with
  | "merkle.verify" =>
    let r := Merkle.verify Sha256.dsha256 (o.bytes "txid") (o.bytes "root") (o.bytes "proof") (o.nat "index")
    (s, s!"=> {boolStr r}")
  | "sha256" => (s, s!"=> {toHex (Sha256.sha256 (o.bytes "data"))}")
  | k => (s, s!"=> unknown-op {k}")

partial def loop (h : IO.FS.Stream) (out : IO.FS.Stream) (s : DState) : IO Unit := do
  let line ← h.getLine
  if line.isEmpty then return ()
  match parseOp line with
  | some o =>
    let (s', r) := stepOp s o
    out.putStrLn r
    loop h out s'
  | none => loop h out s

def main : IO Unit := do
  let out ← IO.getStdout
  loop (← IO.getStdin) out {}
