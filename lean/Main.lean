/-
  Driver: reads trace lines on stdin, runs the model on every `op` line and prints one `=> …`
  line per operation.  Core Lean only.
-/
import GoatModel.Driver
open Goat Goat.Wire

partial def loop (h : IO.FS.Stream) (out : IO.FS.Stream) (s : Driver.D) : IO Unit := do
  let line ← h.getLine
  if line.isEmpty then return ()
  match parseOp line with
  | some o =>
    let (s', r) := Driver.step s o
    out.putStrLn r
    loop h out s'
  | none => loop h out s

def main : IO Unit := do
  let out ← IO.getStdout
  loop (← IO.getStdin) out {}
